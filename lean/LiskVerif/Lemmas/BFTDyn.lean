/-
Three developments for C01 (`Props/C01_More.lean`):

1. `BFTSpecDyn` — the unbounded specification of the Lisk-BFT vote counting (`Model/BFTSpec.lean`)
   extended to DYNAMIC parameters (LIP-0058), its finality-safety proof under the cross-quorum
   condition `CrossOK` (`finality_safety_rev`), the numerical bounded-change condition that implies it
   (`crossQ_of_bound`, `crossOK_of_bound`), and the embedding of the static specification
   (`*_ofCfg`). Namespace `LiskVerif.BFTSpecDyn`.
2. The windowed model `Model/BFT.lean` versus the static specification on chains of ANY length
   (`WInv`, `process_window`, `runChain_window`). Namespace `LiskVerif.BFTSpec`.
3. The safety proof of `Lemmas/BFTSafety.lean` redone for the NODE's validity rules (`WValid`: the
   node's own `maxHeightPrevoted`, contradiction check inside the window only) and the node's
   `maxHeightPrecommitted` (`NodeHeights`, `finality_safety_w`, `nodeHeights_of_init`).

Dynamic parameters, as in `liskbft/api.go SetBFTParameters` + `validator.go`:
* `SetBFTParameters`, called while block `B` is executed, installs the parameters of height
  `height(B)+1`: the parameters in force for a block are a function `par` of its PARENT chain;
  the parameters of height `h` in the view of chain `r` are `parAt r h = par (ancestor of height h-1)`;
  they never change once set;
* the votes implied by a header are weighed, for every voted height `h`, with the generator's weight in
  the parameters of height `h`, and compared with the thresholds of height `h`
  (`paramsCache.GetParameters(blockBFTInfo.height)`);
* `activeValidatorsVoteInfo` is replaced by the new validator list when the parameters are set:
  continuing validators keep `minActiveHeight` and `largestHeightPrecommit`, new (or re-entering)
  validators start with `minActiveHeight = next height`, `largestHeightPrecommit = next height - 1`,
  validators that leave lose their entry (their later headers imply no votes);
* a header implies votes only if its generator has an entry, prevotes for heights
  `max(mhg+1, minActiveHeight) ≤ h ≤ height`, precommits for heights
  `≥ max(minActiveHeight, heightNotPrevoted+1, largestHeightPrecommit+1)` with prevote quorum.

Chains are NEWEST FIRST (`x :: p` = header `x` on top of chain `p`), as in `Lemmas/BFTSafety.lean`.
-/
import LiskVerif.Lemmas.BFTSafety
import LiskVerif.Lemmas.BFTRefine

namespace LiskVerif.BFTSpecDyn
open LiskVerif LiskVerif.BFT LiskVerif.BFTSpec

/-- one parameter set: validators with BFT weights and the precommit threshold; the prevote
threshold is `⌊2W/3⌋+1` as computed by `SetBFTParameters` -/
structure PSet where
  validators : List Validator
  precommitThreshold : Nat
deriving Repr, DecidableEq

def PSet.total (P : PSet) : Nat := (P.validators.map (·.weight)).sum
def PSet.pvThr (P : PSet) : Nat := P.total * 2 / 3 + 1
def PSet.weightOf (P : PSet) (a : Bytes) : Nat := weightIn P.validators a
def PSet.isVal (P : PSet) (a : Bytes) : Bool := (findValidator P.validators a).isSome

/-- dynamic configuration: genesis height and the parameters in force for the block on top of a chain -/
structure DynCfg where
  genesis : Nat
  par : List Header → PSet

/-- the parameters of height `h` in the view of chain `r`: those set by the ancestor of height `h-1` -/
def parAt (D : DynCfg) (r : List Header) (h : Nat) : PSet :=
  D.par (r.drop (D.genesis + r.length + 1 - h))

/-- `minActiveHeight` of `v` in `activeValidatorsVoteInfo` after chain `r` (`none`: no entry) -/
def minAct (D : DynCfg) : List Header → Bytes → Option Nat
  | [], v => if (D.par []).isVal v then some (D.genesis + 1) else none
  | x :: p, v =>
    if (D.par (x :: p)).isVal v then
      match minAct D p v with
      | some m => some m
      | none => some (D.genesis + (x :: p).length + 1)
    else none

/-- header `x` on top of `p` implies a prevote for height `h` -/
def prevotes (D : DynCfg) (p : List Header) (x : Header) (h : Nat) : Bool :=
  match minAct D p x.gen with
  | none => false
  | some m => decide (x.mhg < x.height) && decide (max (x.mhg + 1) m ≤ h) && decide (h ≤ x.height)

/-- prevote weight of height `h` in the view of chain `r`, the voters weighed with the set `P` -/
def pvWP (D : DynCfg) (P : PSet) : List Header → Nat → Nat
  | [], _ => 0
  | x :: p, h => pvWP D P p h + (if prevotes D p x h then P.weightOf x.gen else 0)

/-- prevote weight of height `h` in the view of `r` (weights of the parameters of height `h`) -/
def pvW (D : DynCfg) (r : List Header) (h : Nat) : Nat := pvWP D (parAt D r h) r h

/-- height `h` has prevote quorum in the view of `r` -/
def pvQ (D : DynCfg) (r : List Header) (h : Nat) : Bool := decide ((parAt D r h).pvThr ≤ pvW D r h)

/-- lower bound of the precommit loop -/
def minPc (m hnpV lhpV : Nat) : Nat := max m (max (hnpV + 1) (lhpV + 1))

/-- `largestHeightPrecommit` of `v` after chain `r` (meaningful while `v` has an entry) -/
def lhp (D : DynCfg) : List Header → Bytes → Nat
  | [], _ => D.genesis
  | x :: p, v =>
    match minAct D p v with
    | none =>
      -- no entry before: `SetBFTParameters` creates one with `nextHeight - 1` if `v` enters now
      if (D.par (x :: p)).isVal v then D.genesis + (x :: p).length else lhp D p v
    | some m =>
      if x.gen = v ∧ x.mhg < x.height then
        max (lhp D p v)
          (maxWith (fun h => decide (minPc m (hnp p x) (lhp D p v) ≤ h) && pvQ D p h) D.genesis (p.length + 1))
      else lhp D p v

/-- header `x` on top of `p` implies a precommit for height `h` -/
def precommits (D : DynCfg) (p : List Header) (x : Header) (h : Nat) : Bool :=
  match minAct D p x.gen with
  | none => false
  | some m => decide (x.mhg < x.height) && decide (minPc m (hnp p x) (lhp D p x.gen) ≤ h) && pvQ D p h

/-- precommit weight of height `h`, the voters weighed with the set `P` -/
def pcWP (D : DynCfg) (P : PSet) : List Header → Nat → Nat
  | [], _ => 0
  | x :: p, h => pcWP D P p h + (if precommits D p x h then P.weightOf x.gen else 0)

def pcW (D : DynCfg) (r : List Header) (h : Nat) : Nat := pcWP D (parAt D r h) r h

def pcQ (D : DynCfg) (r : List Header) (h : Nat) : Bool :=
  decide ((parAt D r h).precommitThreshold ≤ pcW D r h)

/-- `maxHeightPrevoted` of the view of `r` -/
def mhp (D : DynCfg) (r : List Header) : Nat := maxWith (pvQ D r) D.genesis r.length

/-- `maxHeightPrecommitted` of the view of `r` -/
def mhpc (D : DynCfg) (r : List Header) : Nat := maxWith (pcQ D r) D.genesis r.length

/-- chain validity for the BFT rules (as `BFTSpec.chainValid`) -/
def chainValid (contra : Hdr → Hdr → Bool) (D : DynCfg) : List Header → Bool
  | [] => true
  | x :: p =>
    decide (x.height = D.genesis + p.length + 1) && decide (x.mhp = mhp D p) &&
      !(contradictingSpec contra p x) && chainValid contra D p

/-- (maxHeightPrevoted, maxHeightPrecommitted) after the chain `l` given OLDEST first -/
def specHeights (D : DynCfg) (l : List Header) : Nat × Nat := (mhp D l.reverse, mhpc D l.reverse)

def Valid (D : DynCfg) (r : List Header) : Prop :=
  chainValid Gen.areDistinctHeadersContradicting D r = true


/-! ### parameter sets -/

theorem PSet.pvThr_pos (P : PSet) : 0 < P.pvThr := by unfold PSet.pvThr; omega

/-- the parameters of a height do not change when the chain grows -/
theorem parAt_suffix (D : DynCfg) {s r : List Header} (hs : s <:+ r) {h : Nat}
    (hh : h ≤ D.genesis + s.length + 1) : parAt D r h = parAt D s h := by
  obtain ⟨t, rfl⟩ := hs
  unfold parAt
  have : D.genesis + (t ++ s).length + 1 - h = t.length + (D.genesis + s.length + 1 - h) := by
    simp only [List.length_append]; omega
  rw [this, ← List.drop_drop, List.drop_left]

theorem parAt_next (D : DynCfg) (r : List Header) : parAt D r (D.genesis + r.length + 1) = D.par r := by
  unfold parAt; simp

/-! ### chain validity -/

theorem valid_nil (D : DynCfg) : Valid D [] := rfl

theorem valid_cons (D : DynCfg) (x : Header) (p : List Header) :
    Valid D (x :: p) ↔ x.height = D.genesis + p.length + 1 ∧ x.mhp = mhp D p ∧
      contradictingSpec Gen.areDistinctHeadersContradicting p x = false ∧ Valid D p := by
  unfold Valid
  simp [chainValid, and_assoc]

theorem valid_suffix (D : DynCfg) {r s : List Header} (hv : Valid D r) (hs : s <:+ r) : Valid D s := by
  induction r with
  | nil => rw [List.suffix_nil] at hs; subst hs; exact hv
  | cons y r ih =>
    rcases List.suffix_cons_iff.mp hs with h | h
    · subst h; exact hv
    · exact ih ((valid_cons D y r).mp hv).2.2.2 h

theorem valid_height (D : DynCfg) {r p : List Header} {x : Header} (hv : Valid D r)
    (hs : x :: p <:+ r) : x.height = D.genesis + p.length + 1 :=
  ((valid_cons D x p).mp (valid_suffix D hv hs)).1

/-! ### prevotes -/

theorem minAct_gt (D : DynCfg) {r : List Header} {v : Bytes} {m : Nat} (h : minAct D r v = some m) :
    D.genesis < m := by
  induction r generalizing m with
  | nil =>
    unfold minAct at h
    split at h
    · injection h with h; omega
    · cases h
  | cons x p ih =>
    unfold minAct at h
    split at h
    · split at h
      · rename_i m' hm'
        injection h with h; subst h; exact ih hm'
      · injection h with h; omega
    · cases h

theorem prevotes_iff (D : DynCfg) (p : List Header) (x : Header) (h : Nat) :
    prevotes D p x h = true ↔ ∃ m, minAct D p x.gen = some m ∧ x.mhg < x.height ∧ x.mhg < h ∧ m ≤ h ∧
      h ≤ x.height := by
  unfold prevotes
  cases hm : minAct D p x.gen with
  | none => simp
  | some m =>
    simp only [Bool.and_eq_true, decide_eq_true_eq, Option.some.injEq, exists_eq_left']
    omega

theorem pvWP_cons (D : DynCfg) (P : PSet) (x : Header) (p : List Header) (h : Nat) :
    pvWP D P (x :: p) h = pvWP D P p h + (if prevotes D p x h then P.weightOf x.gen else 0) := rfl

theorem pvWP_mono (D : DynCfg) (P : PSet) {s r : List Header} (hs : s <:+ r) (h : Nat) :
    pvWP D P s h ≤ pvWP D P r h := by
  induction r with
  | nil => rw [List.suffix_nil] at hs; subst hs; exact Nat.le_refl _
  | cons y r ih =>
    rcases List.suffix_cons_iff.mp hs with h' | h'
    · subst h'; exact Nat.le_refl _
    · have := ih h'
      rw [pvWP_cons]; omega

/-- only heights of the chain carry prevote weight -/
theorem pvWP_pos (D : DynCfg) (P : PSet) {r : List Header} (hv : Valid D r) {h : Nat}
    (hp : 0 < pvWP D P r h) : D.genesis < h ∧ h ≤ D.genesis + r.length := by
  induction r with
  | nil => simp [pvWP] at hp
  | cons x p ih =>
    have hv' := (valid_cons D x p).mp hv
    rw [pvWP_cons] at hp
    by_cases hx : prevotes D p x h = true
    · obtain ⟨m, hm, h1, h2, h3, h4⟩ := (prevotes_iff D p x h).mp hx
      have := minAct_gt D hm
      simp; omega
    · simp [hx] at hp
      have := ih hv'.2.2.2 hp
      simp; omega

theorem pvQ_iff (D : DynCfg) (r : List Header) (h : Nat) :
    pvQ D r h = true ↔ (parAt D r h).pvThr ≤ pvWP D (parAt D r h) r h := by
  unfold pvQ pvW; simp

theorem pvQ_range (D : DynCfg) {r : List Header} (hv : Valid D r) {h : Nat} (hq : pvQ D r h = true) :
    D.genesis < h ∧ h ≤ D.genesis + r.length := by
  have h1 := (pvQ_iff D r h).mp hq
  have h2 := PSet.pvThr_pos (parAt D r h)
  exact pvWP_pos D (parAt D r h) hv (by omega)

/-- a prevote quorum stays a prevote quorum when the chain grows -/
theorem pvQ_mono (D : DynCfg) {s r : List Header} (hv : Valid D r) (hs : s <:+ r) {h : Nat}
    (hq : pvQ D s h = true) : pvQ D r h = true := by
  have hr := pvQ_range D (valid_suffix D hv hs) hq
  have hP := parAt_suffix D hs (h := h) (by omega)
  rw [pvQ_iff] at hq ⊢
  rw [hP]
  exact Nat.le_trans hq (pvWP_mono D _ hs h)

/-! ### maxHeightPrevoted -/

theorem mhp_ge_genesis (D : DynCfg) (r : List Header) : D.genesis ≤ mhp D r := maxWith_ge_lo _ _ _

theorem mhp_le (D : DynCfg) (r : List Header) : mhp D r ≤ D.genesis + r.length := maxWith_le _ _ _

theorem mhp_spec (D : DynCfg) (r : List Header) : mhp D r = D.genesis ∨ pvQ D r (mhp D r) = true :=
  maxWith_spec _ _ _

theorem mhp_ge (D : DynCfg) {r : List Header} (hv : Valid D r) {h : Nat} (hq : pvQ D r h = true) :
    h ≤ mhp D r := by
  have hpos := pvQ_range D hv hq
  exact maxWith_ge _ _ _ _ hq hpos.1 hpos.2

theorem mhp_mono (D : DynCfg) {s r : List Header} (hv : Valid D r) (hs : s <:+ r) : mhp D s ≤ mhp D r := by
  apply maxWith_mono
  · intro h hh; exact pvQ_mono D hv hs hh
  · exact hs.length_le

/-! ### the blocks of one generator along a valid chain -/

theorem valid_legit (D : DynCfg) {r : List Header} (hv : Valid D r) :
    ∀ {x : Header} {p : List Header}, x :: p <:+ r → ∀ e ∈ p, e.gen = x.gen →
      C07LegitSucc (toHdr e) (toHdr x) := by
  induction r with
  | nil => intro x p hs; simp at hs
  | cons y r ih =>
    intro x p hs e he hg
    have hvc := (valid_cons D y r).mp hv
    rcases List.suffix_cons_iff.mp hs with h | h
    · injection h with h1 h2
      subst h1; subst h2
      have hc := hvc.2.2.1
      unfold contradictingSpec at hc
      cases hf : p.find? (fun b => decide (b.gen = x.gen)) with
      | none =>
        rw [List.find?_eq_none] at hf
        have := hf e he
        simp [hg] at this
      | some b =>
        rw [hf] at hc
        simp only at hc
        obtain ⟨hb, as, bs, hp, has⟩ := List.find?_eq_some_iff_append.mp hf
        have hbg : b.gen = x.gen := by simpa using hb
        have hsb : b :: bs <:+ p := by rw [hp]; exact List.suffix_append _ _
        have hvb := (valid_cons D b bs).mp (valid_suffix D hvc.2.2.2 hsb)
        have hbs : bs <:+ p := by rw [hp]; exact (List.suffix_cons b bs).trans (List.suffix_append _ _)
        have hm := mhp_mono D hvc.2.2.2 hbs
        have hlen : p.length = as.length + bs.length + 1 := by rw [hp]; simp; omega
        have hbx : C07LegitSucc (toHdr b) (toHdr x) := by
          rcases (C07_spec (toHdr b) (toHdr x) hbg).mp hc with h1 | h1
          · exact h1
          · exfalso
            unfold C07LegitSucc toHdr at h1
            simp only at h1
            omega
        rw [hp] at he
        rcases List.mem_append.mp he with he | he
        · have := has e he
          simp [hg] at this
        · rcases List.mem_cons.mp he with he | he
          · subst he; exact hbx
          · exact C07_legit_trans _ _ _ (ih hvc.2.2.2 hsb e he (by rw [hg, hbg])) hbx
    · exact ih hvc.2.2.2 h e he hg

/-- A validator's headers along one valid chain imply at most one prevote for a given height. -/
theorem prevote_once (D : DynCfg) {x : Header} {p : List Header} (hv : Valid D (x :: p)) {h : Nat}
    (hx : prevotes D p x h = true) {e : Header} {pe : List Header} (hs : e :: pe <:+ p)
    (hg : e.gen = x.gen) (he : prevotes D pe e h = true) : False := by
  have hl := valid_legit D hv (List.suffix_refl _) e (mem_of_cons_suffix hs) hg
  obtain ⟨_, _, h1⟩ := (prevotes_iff D p x h).mp hx
  obtain ⟨_, _, h2⟩ := (prevotes_iff D pe e h).mp he
  unfold C07LegitSucc toHdr at hl
  simp only at hl
  omega

/-! ### largestHeightPrecommit and precommits -/

theorem lhp_le (D : DynCfg) (r : List Header) (v : Bytes) : lhp D r v ≤ D.genesis + r.length := by
  induction r with
  | nil => exact Nat.le_refl _
  | cons x p ih =>
    unfold lhp
    split
    · split
      · exact Nat.le_refl _
      · simp only [List.length_cons]; omega
    · split
      · rename_i m _ _
        have := maxWith_le (fun h => decide (minPc m (hnp p x) (lhp D p v) ≤ h) && pvQ D p h)
          D.genesis (p.length + 1)
        simp only [List.length_cons]
        omega
      · simp only [List.length_cons]; omega

theorem lhp_mono_cons (D : DynCfg) (x : Header) (p : List Header) (v : Bytes) :
    lhp D p v ≤ lhp D (x :: p) v := by
  have hb := lhp_le D p v
  conv => rhs; unfold lhp
  split
  · split
    · simp only [List.length_cons]; omega
    · exact Nat.le_refl _
  · split
    · exact Nat.le_max_left _ _
    · exact Nat.le_refl _

theorem lhp_mono (D : DynCfg) {s r : List Header} (hs : s <:+ r) (v : Bytes) : lhp D s v ≤ lhp D r v := by
  induction r with
  | nil => rw [List.suffix_nil] at hs; subst hs; exact Nat.le_refl _
  | cons y r ih =>
    rcases List.suffix_cons_iff.mp hs with h' | h'
    · subst h'; exact Nat.le_refl _
    · exact Nat.le_trans (ih h') (lhp_mono_cons D y r v)

theorem minPc_le_iff (m a b h : Nat) : minPc m a b ≤ h ↔ m ≤ h ∧ a < h ∧ b < h := by
  unfold minPc; omega

theorem precommits_iff (D : DynCfg) (p : List Header) (x : Header) (h : Nat) :
    precommits D p x h = true ↔ ∃ m, minAct D p x.gen = some m ∧ x.mhg < x.height ∧ m ≤ h ∧
      hnp p x < h ∧ lhp D p x.gen < h ∧ pvQ D p h = true := by
  unfold precommits
  cases hm : minAct D p x.gen with
  | none => simp
  | some m =>
    simp only [Bool.and_eq_true, decide_eq_true_eq, Option.some.injEq, exists_eq_left', minPc_le_iff,
      and_assoc]

theorem pcWP_cons (D : DynCfg) (P : PSet) (x : Header) (p : List Header) (h : Nat) :
    pcWP D P (x :: p) h = pcWP D P p h + (if precommits D p x h then P.weightOf x.gen else 0) := rfl

/-- a precommit raises the generator's `largestHeightPrecommit` to at least the precommitted height -/
theorem precommit_le_lhp (D : DynCfg) {p : List Header} (hv : Valid D p) {x : Header} {h : Nat}
    (hx : precommits D p x h = true) : h ≤ lhp D (x :: p) x.gen := by
  obtain ⟨m, hm, h1, h2, h3, h4, h5⟩ := (precommits_iff D p x h).mp hx
  have hpos := pvQ_range D hv h5
  unfold lhp
  rw [hm]
  simp only
  rw [if_pos ⟨trivial, h1⟩]
  refine Nat.le_trans (maxWith_ge _ _ _ h ?_ hpos.1 (by omega)) (Nat.le_max_right _ _)
  simp only [Bool.and_eq_true, decide_eq_true_eq, minPc_le_iff]
  exact ⟨⟨h2, h3, h4⟩, h5⟩

/-- A validator's headers along one chain imply at most one precommit for a given height. -/
theorem precommit_once (D : DynCfg) {p : List Header} (hv : Valid D p) {x : Header} {h : Nat}
    (hx : precommits D p x h = true) {e : Header} {pe : List Header} (hs : e :: pe <:+ p)
    (hg : e.gen = x.gen) (he : precommits D pe e h = true) : False := by
  have hvpe : Valid D pe := valid_suffix D hv ((List.suffix_cons e pe).trans hs)
  have h1 := precommit_le_lhp D hvpe he
  have h2 := lhp_mono D hs e.gen
  obtain ⟨_, _, _, _, _, h3, _⟩ := (precommits_iff D p x h).mp hx
  rw [hg] at h1 h2
  omega

/-! ### quorum weight is carried by distinct validators -/

theorem pvWP_le_wsum (D : DynCfg) (P : PSet) {r : List Header} (hv : Valid D r) (h : Nat) :
    ∀ f : Bytes → Bool,
      (∀ x p, x :: p <:+ r → prevotes D p x h = true → f x.gen = true) →
      pvWP D P r h ≤ wsumB P.validators f := by
  induction r with
  | nil => intro f _; simp [pvWP]
  | cons x p ih =>
    intro f hf
    have hvp := ((valid_cons D x p).mp hv).2.2.2
    rw [pvWP_cons]
    by_cases hx : prevotes D p x h = true
    · have h1 := ih hvp (fun c => f c && !(decide (c = x.gen))) (by
        intro e pe hs he
        have : e.gen ≠ x.gen := fun hg => prevote_once D hv hx hs hg he
        simp [this]
        exact hf e pe (hs.trans (List.suffix_cons x p)) he)
      have h2 := wsumB_remove P.validators f x.gen (hf x p (List.suffix_refl _) hx)
      rw [if_pos hx]
      unfold PSet.weightOf
      omega
    · rw [if_neg hx]
      exact ih hvp f (fun e pe hs he => hf e pe (hs.trans (List.suffix_cons x p)) he)

theorem pcWP_le_wsum (D : DynCfg) (P : PSet) {r : List Header} (hv : Valid D r) (h : Nat) :
    ∀ f : Bytes → Bool,
      (∀ x p, x :: p <:+ r → precommits D p x h = true → f x.gen = true) →
      pcWP D P r h ≤ wsumB P.validators f := by
  induction r with
  | nil => intro f _; simp [pcWP]
  | cons x p ih =>
    intro f hf
    have hvp := ((valid_cons D x p).mp hv).2.2.2
    rw [pcWP_cons]
    by_cases hx : precommits D p x h = true
    · have h1 := ih hvp (fun c => f c && !(decide (c = x.gen))) (by
        intro e pe hs he
        have : e.gen ≠ x.gen := fun hg => precommit_once D hvp hx hs hg he
        simp [this]
        exact hf e pe (hs.trans (List.suffix_cons x p)) he)
      have h2 := wsumB_remove P.validators f x.gen (hf x p (List.suffix_refl _) hx)
      rw [if_pos hx]
      unfold PSet.weightOf
      omega
    · rw [if_neg hx]
      exact ih hvp f (fun e pe hs he => hf e pe (hs.trans (List.suffix_cons x p)) he)


/-! ### the core: no conflicting prevote quorum at or above a precommit quorum -/

/-- every precommit quorum of `P0` and every prevote quorum of `P1` share a validator that is honest
in the tree -/
def CrossQ (Tr : List (List Header)) (P0 P1 : PSet) : Prop :=
  ∀ f g : Bytes → Bool, P0.precommitThreshold ≤ wsumB P0.validators f →
    P1.pvThr ≤ wsumB P1.validators g → ∃ a, f a = true ∧ g a = true ∧ HonestR Tr a

/-- the hypothesis of the dynamic safety theorem: for a block `b` (an ancestor of `t0`) and a chain
`t1` of the tree NOT containing `b`, the parameters of `b`'s height (on `t0`) and the parameters of any
height `h ≥ height b` on `t1` have intersecting quorums -/
def CrossOK (D : DynCfg) (Tr : List (List Header)) : Prop :=
  ∀ t0 t1 b : List Header, InTree Tr t0 → InTree Tr t1 → b <:+ t0 → ¬ b <:+ t1 →
    ∀ h, D.genesis + b.length ≤ h → h ≤ D.genesis + t1.length →
      CrossQ Tr (parAt D t0 (D.genesis + b.length)) (parAt D t1 h)

theorem pcQ_iff (D : DynCfg) (r : List Header) (h : Nat) :
    pcQ D r h = true ↔ (parAt D r h).precommitThreshold ≤ pcWP D (parAt D r h) r h := by
  unfold pcQ pcW; simp

theorem no_conflicting_prevote_quorum_core (D : DynCfg) (Tr : List (List Header))
    (hval : ∀ t ∈ Tr, Valid D t) (hX : CrossOK D Tr)
    {t0 b : List Header} (ht0 : InTree Tr t0) (hb : b <:+ t0)
    (hq : pcQ D t0 (D.genesis + b.length) = true) :
    ∀ (n : Nat) (t1 : List Header), t1.length = n → InTree Tr t1 →
      ∀ h, D.genesis + b.length ≤ h → pvQ D t1 h = true → b <:+ t1 := by
  have hvalid : ∀ {t}, InTree Tr t → Valid D t := by
    intro t ht
    obtain ⟨u, hu, htu⟩ := ht
    exact valid_suffix D (hval u hu) htu
  intro n
  induction n using Nat.strongRecOn with
  | _ n ih =>
    intro t1 hlen ht1 h hh hpv
    by_cases hbt : b <:+ t1
    · exact hbt
    exfalso
    have hv0 := hvalid ht0
    have hv1 := hvalid ht1
    have hr1 := pvQ_range D hv1 hpv
    let f : Bytes → Bool := fun a => @decide (∃ x p, x :: p <:+ t0 ∧ x.gen = a ∧
      precommits D p x (D.genesis + b.length) = true) (Classical.propDecidable _)
    let g : Bytes → Bool := fun a => @decide (∃ y q, y :: q <:+ t1 ∧ y.gen = a ∧
      prevotes D q y h = true) (Classical.propDecidable _)
    have h1 : pcWP D (parAt D t0 (D.genesis + b.length)) t0 (D.genesis + b.length) ≤
        wsumB (parAt D t0 (D.genesis + b.length)).validators f :=
      pcWP_le_wsum D _ hv0 _ f (by
        intro x p hs hx
        simp only [f, decide_eq_true_eq]
        exact ⟨x, p, hs, rfl, hx⟩)
    have h2 : pvWP D (parAt D t1 h) t1 h ≤ wsumB (parAt D t1 h).validators g :=
      pvWP_le_wsum D _ hv1 _ g (by
        intro y q hs hy
        simp only [g, decide_eq_true_eq]
        exact ⟨y, q, hs, rfl, hy⟩)
    obtain ⟨a, hfv, hgv, hon⟩ := hX t0 t1 b ht0 ht1 hb hbt h hh hr1.2 f g
      (Nat.le_trans ((pcQ_iff D _ _).mp hq) h1) (Nat.le_trans ((pvQ_iff D _ _).mp hpv) h2)
    simp only [f, decide_eq_true_eq] at hfv
    simp only [g, decide_eq_true_eq] at hgv
    obtain ⟨x, p, hsX, hxg, hxpc⟩ := hfv
    obtain ⟨y, q, hsY, hyg, hypv⟩ := hgv
    have hX' : InTree Tr (x :: p) := ht0.suffix hsX
    have hY : InTree Tr (y :: q) := ht1.suffix hsY
    have hpt0 : p <:+ t0 := (List.suffix_cons x p).trans hsX
    have hqt1 : q <:+ t1 := (List.suffix_cons y q).trans hsY
    have hP : InTree Tr p := ht0.suffix hpt0
    have hQ : InTree Tr q := ht1.suffix hqt1
    obtain ⟨mx, _, pcs1, pcs2, pcs3, pcs4, pcs5⟩ := (precommits_iff D p x _).mp hxpc
    obtain ⟨my, _, pvs1, pvs2, pvs3, pvs4⟩ := (prevotes_iff D q y h).mp hypv
    have hvp := hvalid hP
    have hpos := pvQ_range D hvp pcs5
    have hbp : b <:+ p := suffix_of_suffix_le hb hpt0 (by omega)
    have hyh := valid_height D hv1 hsY
    by_cases heq : x :: p = y :: q
    · exact hbt ((hbp.trans (List.suffix_cons x p)).trans (heq ▸ hsY))
    · rcases hon.legit hX' hY hxg hyg heq with hl | hl
      · have hxm := ((valid_cons D x p).mp (hvalid hX')).2.1
        have hym := ((valid_cons D y q).mp (hvalid hY)).2.1
        have hmp := mhp_ge D hvp pcs5
        unfold C07LegitSucc toHdr at hl
        simp only at hl
        have hmq : D.genesis + b.length ≤ mhp D q := by omega
        have hquo : pvQ D q (mhp D q) = true := by
          rcases mhp_spec D q with h' | h'
          · omega
          · exact h'
        have hlt : q.length < n := by
          have := hsY.length_le
          simp at this
          omega
        exact hbt ((ih q.length hlt q rfl hQ (mhp D q) hmq hquo).trans hqt1)
      · by_cases hYX : y :: q <:+ p
        · have : b <:+ y :: q := suffix_of_suffix_le hbp hYX (by simp; omega)
          exact hbt (this.trans hsY)
        · unfold C07LegitSucc toHdr at hl
          simp only at hl
          have hA := hnpLoop_ge hon hP hY hyg hYX pvs1 (p.length + 1) x.mhg hl.1
          have hA' : y.height ≤ hnp p x := by unfold hnp; rw [hxg]; exact hA
          omega

/-! ### maxHeightPrecommitted and finality -/

theorem mhpc_ge_genesis (D : DynCfg) (r : List Header) : D.genesis ≤ mhpc D r := maxWith_ge_lo _ _ _

theorem mhpc_le (D : DynCfg) (r : List Header) : mhpc D r ≤ D.genesis + r.length := maxWith_le _ _ _

theorem mhpc_spec (D : DynCfg) (r : List Header) : mhpc D r = D.genesis ∨ pcQ D r (mhpc D r) = true :=
  maxWith_spec _ _ _

theorem pcWP_pos_exists (D : DynCfg) (P : PSet) {r : List Header} {h : Nat} (hp : 0 < pcWP D P r h) :
    ∃ x p, x :: p <:+ r ∧ precommits D p x h = true := by
  induction r with
  | nil => simp [pcWP] at hp
  | cons x p ih =>
    rw [pcWP_cons] at hp
    by_cases hx : precommits D p x h = true
    · exact ⟨x, p, List.suffix_refl _, hx⟩
    · rw [if_neg hx] at hp
      obtain ⟨y, q, hs, hy⟩ := ih (by omega)
      exact ⟨y, q, hs.trans (List.suffix_cons x p), hy⟩

/-- the finalized block of `t₀` lies on every chain of the tree that finalizes at least as high -/
theorem finalized_on_chain (D : DynCfg) (Tr : List (List Header))
    (hval : ∀ t ∈ Tr, Valid D t) (hpc : ∀ p, InTree Tr p → 0 < (D.par p).precommitThreshold)
    (hX : CrossOK D Tr)
    {t0 t b : List Header} (ht0 : InTree Tr t0) (ht : InTree Tr t) (hle : mhpc D t0 ≤ mhpc D t)
    (hb : b <:+ t0) (hbl : D.genesis + b.length = mhpc D t0) : b <:+ t := by
  cases b with
  | nil => exact List.nil_suffix
  | cons y b' =>
    have hlen : (y :: b').length = b'.length + 1 := rfl
    have hq0 : pcQ D t0 (D.genesis + (y :: b').length) = true := by
      rcases mhpc_spec D t0 with h | h
      · omega
      · rw [hbl]; exact h
    have hq1 : pcQ D t (mhpc D t) = true := by
      rcases mhpc_spec D t with h | h
      · omega
      · exact h
    have hq1' := (pcQ_iff D _ _).mp hq1
    have hpos : 0 < (parAt D t (mhpc D t)).precommitThreshold := hpc _ (ht.suffix (List.drop_suffix _ _))
    obtain ⟨x, p, hs, hx⟩ := pcWP_pos_exists D (parAt D t (mhpc D t)) (r := t) (h := mhpc D t) (by omega)
    obtain ⟨_, _, _, _, _, _, pcs5⟩ := (precommits_iff D p x _).mp hx
    have hpt : p <:+ t := (List.suffix_cons x p).trans hs
    have := no_conflicting_prevote_quorum_core D Tr hval hX ht0 hb hq0 p.length p rfl
      (ht.suffix hpt) (mhpc D t) (by omega) pcs5
    exact this.trans hpt

/-- finality safety on newest-first chains: the finalized blocks of two tips are comparable -/
theorem finality_safety_rev (D : DynCfg) (Tr : List (List Header))
    (hval : ∀ t ∈ Tr, Valid D t) (hpc : ∀ p, InTree Tr p → 0 < (D.par p).precommitThreshold)
    (hX : CrossOK D Tr)
    {t1 t2 b1 b2 : List Header} (ht1 : t1 ∈ Tr) (ht2 : t2 ∈ Tr)
    (hb1 : b1 <:+ t1) (hl1 : D.genesis + b1.length = mhpc D t1)
    (hb2 : b2 <:+ t2) (hl2 : D.genesis + b2.length = mhpc D t2) :
    b1 <:+ b2 ∨ b2 <:+ b1 := by
  have hi1 : InTree Tr t1 := ⟨t1, ht1, List.suffix_refl _⟩
  have hi2 : InTree Tr t2 := ⟨t2, ht2, List.suffix_refl _⟩
  by_cases hle : mhpc D t1 ≤ mhpc D t2
  · left
    have := finalized_on_chain D Tr hval hpc hX hi1 hi2 hle hb1 hl1
    exact suffix_of_suffix_le this hb2 (by omega)
  · right
    have := finalized_on_chain D Tr hval hpc hX hi2 hi1 (by omega) hb2 hl2
    exact suffix_of_suffix_le this hb1 (by omega)

/-! ### a numerical condition for intersecting quorums: bounded change of the weights -/

/-- BFT weight that validators hold in `P1` beyond what they hold in `P0` (new validators count fully) -/
def gain (P0 P1 : PSet) : Nat :=
  (P1.validators.map fun v => v.weight - weightIn P0.validators v.address).sum

theorem sum_map_zero {α : Type} (l : List α) (f : α → Nat) (h : ∀ x ∈ l, f x = 0) : (l.map f).sum = 0 := by
  induction l with
  | nil => rfl
  | cons a l ih =>
    simp only [List.map_cons, List.sum_cons]
    rw [h a List.mem_cons_self, ih (fun x hx => h x (List.mem_cons_of_mem _ hx))]

private theorem sum_ite_eq_le (A : List Bytes) (hnd : A.Nodup) (q : Bytes → Bool) (u : Validator)
    (W : Bytes → Nat) :
    (A.map fun a => if q a then (if u.address = a then u.weight else W a) else 0).sum ≤
      (if q u.address then u.weight else 0) + (A.map fun a => if q a then W a else 0).sum := by
  induction A with
  | nil => simp
  | cons a A ih =>
    have hnd' := List.nodup_cons.mp hnd
    simp only [List.map_cons, List.sum_cons]
    by_cases hua : u.address = a
    · subst hua
      have hrest : (A.map fun a => if q a then (if u.address = a then u.weight else W a) else 0) =
          A.map fun a => if q a then W a else 0 := by
        apply List.map_congr_left
        intro a' ha'
        have : u.address ≠ a' := fun e => hnd'.1 (e ▸ ha')
        simp [this]
      rw [hrest]
      simp only [if_true]
      split <;> omega
    · have := ih hnd'.2
      simp only [hua, if_false]
      omega

private theorem sum_weightIn_le (A : List Bytes) (hnd : A.Nodup) (q : Bytes → Bool) (vs : List Validator) :
    (A.map fun a => if q a then weightIn vs a else 0).sum ≤ wsumB vs q := by
  induction vs with
  | nil =>
    rw [sum_map_zero]
    · exact Nat.zero_le _
    · intro a _; simp [weightIn, findValidator]
  | cons u vs ih =>
    rw [wsumB_cons]
    have h1 : (A.map fun a => if q a then weightIn (u :: vs) a else 0) =
        A.map fun a => if q a then (if u.address = a then u.weight else weightIn vs a) else 0 := by
      apply List.map_congr_left
      intro a _
      rw [weightIn_cons]
    rw [h1]
    have := sum_ite_eq_le A hnd q u (weightIn vs)
    omega

/-- weight of a set of validators in `vs1` ≤ its weight in `vs0` + the weight gained -/
theorem wsumB_transfer (vs0 vs1 : List Validator) (hnd : (vs1.map (·.address)).Nodup) (q : Bytes → Bool) :
    wsumB vs1 q ≤ wsumB vs0 q + (vs1.map fun v => v.weight - weightIn vs0 v.address).sum := by
  have h1 : wsumB vs1 q ≤ ((vs1.map (·.address)).map fun a => if q a then weightIn vs0 a else 0).sum +
      (vs1.map fun v => v.weight - weightIn vs0 v.address).sum := by
    clear hnd
    induction vs1 with
    | nil => simp [wsumB]
    | cons v vs ih =>
      rw [wsumB_cons]
      simp only [List.map_cons, List.sum_cons]
      split <;> omega
  have h2 := sum_weightIn_le (vs1.map (·.address)) hnd q vs0
  omega

theorem wsumB_split (vs : List Validator) (f : Bytes → Bool) :
    wsumB vs f + wsumB vs (fun a => !f a) = (vs.map (·.weight)).sum := by
  induction vs with
  | nil => simp [wsumB]
  | cons v vs ih =>
    simp only [wsumB_cons, List.map_cons, List.sum_cons]
    cases f v.address <;> simp <;> omega

/-- **Bounded change ⇒ intersecting quorums.** If the Byzantine weight in `P1`, plus the total weight
of `P0`, plus the weight gained from `P0` to `P1`, is below `τ_pc(P0) + τ_pv(P1)`, every precommit
quorum of `P0` meets every prevote quorum of `P1` in a validator outside `byz`. For `P0 = P1` this
is (H-thr) of the static theorem. -/
theorem crossQ_of_bound (Tr : List (List Header)) (P0 P1 : PSet) (byz : Bytes → Bool)
    (hnd : (P1.validators.map (·.address)).Nodup)
    (hhon : ∀ v ∈ P1.validators, byz v.address = false → HonestR Tr v.address)
    (hthr : wsumB P1.validators byz + P0.total + gain P0 P1 < P0.precommitThreshold + P1.pvThr) :
    CrossQ Tr P0 P1 := by
  intro f g hf hg
  apply Classical.byContradiction
  intro hne
  -- validators of P1 in both quorums are Byzantine
  have hsub : wsumB P1.validators (fun a => g a && f a) ≤ wsumB P1.validators byz := by
    apply wsumB_mono
    intro v hv hfg
    simp at hfg
    cases hb : byz v.address with
    | true => rfl
    | false => exact absurd ⟨v.address, hfg.2, hfg.1, hhon v hv hb⟩ hne
  have h1 : wsumB P1.validators g ≤ wsumB P1.validators (fun a => g a && f a) +
      wsumB P1.validators (fun a => !f a) := by
    generalize P1.validators = vs
    induction vs with
    | nil => simp [wsumB]
    | cons v vs ih =>
      simp only [wsumB_cons]
      cases g v.address <;> cases f v.address <;> simp <;> omega
  have h2 := wsumB_transfer P0.validators P1.validators hnd (fun a => !f a)
  have h3 := wsumB_split P0.validators f
  unfold gain PSet.total at hthr
  omega

theorem gain_self (P : PSet) (hnd : (P.validators.map (·.address)).Nodup) : gain P P = 0 := by
  unfold gain
  apply sum_map_zero
  intro v hv
  have : weightIn P.validators v.address = v.weight := by
    generalize P.validators = vs at hv hnd
    induction vs with
    | nil => simp at hv
    | cons u vs ih =>
      rw [weightIn_cons]
      have hnd' : u.address ∉ vs.map (·.address) ∧ (vs.map (·.address)).Nodup :=
        List.nodup_cons.mp hnd
      rcases List.mem_cons.mp hv with rfl | hv'
      · simp
      · have : u.address ≠ v.address := fun e => hnd'.1 (e ▸ List.mem_map.mpr ⟨v, hv', rfl⟩)
        rw [if_neg this]
        exact ih hv' hnd'.2
  omega


/-! ### constant parameters: `BFTSpecDyn` is `BFTSpec` -/

/-- the static configuration `cfg` as a dynamic one (the same parameter set after every chain) -/
def ofCfg (cfg : Cfg) : DynCfg := ⟨cfg.genesis, fun _ => ⟨cfg.validators, cfg.precommitThreshold⟩⟩

def psetOf (cfg : Cfg) : PSet := ⟨cfg.validators, cfg.precommitThreshold⟩

theorem parAt_ofCfg (cfg : Cfg) (r : List Header) (h : Nat) : parAt (ofCfg cfg) r h = psetOf cfg := rfl

theorem minAct_ofCfg (cfg : Cfg) (r : List Header) (v : Bytes) :
    minAct (ofCfg cfg) r v = if (findValidator cfg.validators v).isSome then some (cfg.genesis + 1) else none := by
  induction r with
  | nil => rfl
  | cons x p ih =>
    unfold minAct
    rw [ih]
    show (if (findValidator cfg.validators v).isSome = true then _ else _) = _
    split <;> rfl

theorem weightIn_not_val {vs : List Validator} {a : Bytes} (h : ¬ (findValidator vs a).isSome = true) :
    weightIn vs a = 0 := by
  unfold weightIn
  cases hf : findValidator vs a with
  | none => rfl
  | some v => rw [hf] at h; exact absurd rfl h

theorem pvWP_ofCfg (cfg : Cfg) (r : List Header) (h : Nat) :
    pvWP (ofCfg cfg) (psetOf cfg) r h = BFTSpec.pvW cfg r h := by
  induction r with
  | nil => rfl
  | cons x p ih =>
    rw [pvWP_cons, BFTSpec.pvW_cons, ih]
    congr 1
    unfold prevotes
    rw [minAct_ofCfg]
    by_cases hv : (findValidator cfg.validators x.gen).isSome = true
    · rw [if_pos hv]
      rfl
    · rw [if_neg hv]
      have h0 : BFTSpec.weightOf cfg x.gen = 0 := weightIn_not_val hv
      simp [h0]

theorem pvQ_ofCfg (cfg : Cfg) (r : List Header) (h : Nat) :
    pvQ (ofCfg cfg) r h = decide (prevoteThreshold cfg ≤ BFTSpec.pvW cfg r h) := by
  unfold pvQ pvW
  rw [parAt_ofCfg, pvWP_ofCfg]
  rfl

theorem lhp_ofCfg (cfg : Cfg) (r : List Header) (v : Bytes)
    (hv : (findValidator cfg.validators v).isSome = true) :
    lhp (ofCfg cfg) r v = BFTSpec.lhp cfg r v := by
  induction r with
  | nil => rfl
  | cons x p ih =>
    unfold lhp
    rw [minAct_ofCfg, if_pos hv, BFTSpec.lhp_cons, ih]
    simp only
    have : (fun h => decide (minPc (cfg.genesis + 1) (hnp p x) (BFTSpec.lhp cfg p v) ≤ h) && pvQ (ofCfg cfg) p h) =
        fun h => decide (BFTSpec.minPc cfg (hnp p x) (BFTSpec.lhp cfg p v) ≤ h) &&
          decide (prevoteThreshold cfg ≤ BFTSpec.pvW cfg p h) := by
      funext h
      rw [pvQ_ofCfg]
      rfl
    rw [this]
    rfl

theorem pcWP_ofCfg (cfg : Cfg) (r : List Header) (h : Nat) :
    pcWP (ofCfg cfg) (psetOf cfg) r h = BFTSpec.pcW cfg r h := by
  induction r with
  | nil => rfl
  | cons x p ih =>
    rw [pcWP_cons, BFTSpec.pcW_cons, ih]
    congr 1
    unfold precommits
    rw [minAct_ofCfg]
    by_cases hv : (findValidator cfg.validators x.gen).isSome = true
    · rw [if_pos hv]
      simp only
      rw [lhp_ofCfg cfg p x.gen hv, pvQ_ofCfg]
      rfl
    · rw [if_neg hv]
      have h0 : BFTSpec.weightOf cfg x.gen = 0 := weightIn_not_val hv
      simp [h0]

theorem mhp_ofCfg (cfg : Cfg) (r : List Header) : mhp (ofCfg cfg) r = BFTSpec.mhp cfg r := by
  unfold mhp BFTSpec.mhp
  apply maxWith_congr
  intro h
  rw [pvQ_ofCfg]

theorem mhpc_ofCfg (cfg : Cfg) (r : List Header) : mhpc (ofCfg cfg) r = BFTSpec.mhpc cfg r := by
  unfold mhpc BFTSpec.mhpc
  apply maxWith_congr
  intro h
  unfold pcQ pcW
  rw [parAt_ofCfg, pcWP_ofCfg]
  rfl

theorem chainValid_ofCfg (contra : Hdr → Hdr → Bool) (cfg : Cfg) (r : List Header) :
    chainValid contra (ofCfg cfg) r = BFTSpec.chainValid contra cfg r := by
  induction r with
  | nil => rfl
  | cons x p ih =>
    unfold chainValid BFTSpec.chainValid
    rw [ih, mhp_ofCfg]
    rfl

end LiskVerif.BFTSpecDyn

/-! ## The windowed model and the static specification on chains of ANY length

`Lemmas/BFTRefine.lean` shows that the windowed model equals the specification while the chain fits
into the window. Here the chain may be arbitrarily long: the window of the model always holds exactly
the specification's weights of the last `3·batchSize` heights; heights that have left the window
receive no further votes in the model (they may in the specification), so the model's
`maxHeightPrevoted` / `maxHeightPrecommitted` are `≤` the specification's — equal whenever the
specification's value lies inside the window — and are heights that do have a quorum in the
specification's view. -/

namespace LiskVerif.BFTSpec
open LiskVerif LiskVerif.BFT

/-- the window `r.take k` of a chain with consecutive heights has consecutive heights above
`g + (|r| - |window|)` -/
theorem consec_take {g : Nat} : ∀ (r : List Header) (k : Nat), Consec g r →
    Consec (g + (r.length - (r.take k).length)) (r.take k) := by
  intro r
  induction r with
  | nil => intro k _; simp [Consec]
  | cons x p ih =>
    intro k hc
    cases k with
    | zero => simp [Consec]
    | succ k =>
      have hl : (p.take k).length ≤ p.length := by simp [List.length_take]; omega
      have e : (x :: p).length - ((x :: p).take (k + 1)).length = p.length - (p.take k).length := by
        simp only [List.take_succ_cons, List.length_cons]; omega
      rw [e]
      simp only [List.take_succ_cons]
      refine ⟨?_, ih k hc.2⟩
      have := hc.1
      omega

theorem Desc.weaken {g g' : Nat} {l : List Header} (h : Desc g' l) (hg : g ≤ g') : Desc g l :=
  ⟨h.1, fun b hb => Nat.lt_of_le_of_lt hg (h.2 b hb)⟩

/-- block lookup in the window: the same block for heights inside, nothing below -/
theorem blockAt_take {g : Nat} {p : List Header} (hc : Consec g p) (k : Nat) (h : Nat) :
    blockAt (p.take k) h =
      if g + (p.length - (p.take k).length) < h then blockAt p h else none := by
  have hct := consec_take p k hc
  by_cases hh : g + (p.length - (p.take k).length) < h
  · rw [if_pos hh]
    conv => rhs; rw [← List.take_append_drop k p]
    unfold blockAt
    rw [List.find?_append]
    cases hf : (p.take k).find? (fun b => decide (b.height = h)) with
    | some b => rfl
    | none =>
      simp only [Option.none_or]
      symm
      rw [List.find?_eq_none]
      intro b hb
      -- blocks below the window have heights ≤ the window's lower bound
      have hcd : Consec g (p.drop k) := by
        have := hc
        rw [← List.take_append_drop k p] at this
        exact this.of_append
      have := (hcd.mem_height hb).2
      have hl : (p.drop k).length = p.length - (p.take k).length := by
        simp [List.length_drop, List.length_take]; omega
      simp
      omega
  · rw [if_neg hh]
    exact hct.blockAt_none (Or.inl (by omega))

/-- `heightNotPrevoted` walked inside the window only (`hw`) versus over the full chain (`hs`):
`hs ≤ hw`, and they agree when the walk ends inside the window -/
theorem hnpLoop_window {g : Nat} {p : List Header} (hc : Consec g p) (k : Nat) (gen : Bytes) :
    ∀ (fw fs prev : Nat), prev - (g + (p.length - (p.take k).length)) + 1 ≤ fw → prev - g + 1 ≤ fs →
      hnpLoop p gen fs prev ≤ hnpLoop (p.take k) gen fw prev ∧
      (g + (p.length - (p.take k).length) < hnpLoop (p.take k) gen fw prev →
        hnpLoop p gen fs prev = hnpLoop (p.take k) gen fw prev) := by
  intro fw
  induction fw with
  | zero => intro fs prev h; omega
  | succ fw ih =>
    intro fs prev h1 h2
    cases fs with
    | zero => omega
    | succ fs =>
      unfold hnpLoop
      rw [blockAt_take hc k prev]
      by_cases hin : g + (p.length - (p.take k).length) < prev
      · rw [if_pos hin]
        cases hb : blockAt p prev with
        | none => simp
        | some b =>
          simp only
          by_cases hcond : b.gen ≠ gen ∨ b.mhg ≥ prev
          · rw [if_pos hcond, if_pos hcond]; simp
          · rw [if_neg hcond, if_neg hcond]
            have hbm : b.mhg < prev := by
              by_cases hh : b.mhg < prev
              · exact hh
              · exact absurd (Or.inr (by omega)) hcond
            exact ih fs b.mhg (by omega) (by omega)
      · rw [if_neg hin]
        simp only
        refine ⟨?_, fun h => absurd h hin⟩
        have := hnpLoop_le p gen (fs + 1) prev
        unfold hnpLoop at this
        exact this

/-- the largest height with a property inside a sub-range -/
theorem maxWith_window (f fs : Nat → Bool) (lo lo' n n' : Nat) (hlo : lo ≤ lo') (hsum : lo + n = lo' + n')
    (heq : ∀ h, lo' < h → f h = fs h) :
    (lo' < maxWith fs lo n → maxWith f lo' n' = maxWith fs lo n) ∧
    (maxWith fs lo n ≤ lo' → maxWith f lo' n' = lo') := by
  have hM1 := maxWith_ge_lo fs lo n
  have hM2 := maxWith_le fs lo n
  have hM'1 := maxWith_ge_lo f lo' n'
  have hM'2 := maxWith_le f lo' n'
  have hup : maxWith f lo' n' = lo' ∨ maxWith f lo' n' ≤ maxWith fs lo n := by
    rcases maxWith_spec f lo' n' with h | h
    · left; exact h
    · by_cases he : maxWith f lo' n' = lo'
      · left; exact he
      · right
        have hgt : lo' < maxWith f lo' n' := by omega
        rw [heq _ hgt] at h
        exact maxWith_ge fs lo n _ h (by omega) (by omega)
  constructor
  · intro hgt
    have hfs : fs (maxWith fs lo n) = true := by
      rcases maxWith_spec fs lo n with h | h
      · omega
      · exact h
    rw [← heq _ hgt] at hfs
    have := maxWith_ge f lo' n' _ hfs hgt (by omega)
    rcases hup with h | h <;> omega
  · intro hle
    rcases hup with h | h
    · exact h
    · omega


/-- the model's `largestHeightPrecommit` entries `L` versus the specification's after chain `p` with
window lower bound `lo`: never larger, and equal unless the specification's value has left the window -/
def LhpRel (cfg : Cfg) (addrs : List Bytes) (L : Bytes → Nat) (p : List Header) (lo : Nat) : Prop :=
  ∀ a ∈ addrs, L a ≤ lhp cfg p a ∧ (L a = lhp cfg p a ∨ lhp cfg p a ≤ lo)

/-- `updatePrevotesPrecommits` on a window `x :: p.take k` of a chain of any length -/
theorem updateVotes_window (cfg : Cfg) (P : Params) (addrs : List Bytes) (hst : Static cfg P addrs)
    (k : Nat) (x : Header) (p : List Header) (hc : Consec cfg.genesis (x :: p))
    (hg : cfg.genesis + p.length + 2 < u32) (s0 : State) (L : Bytes → Nat)
    (hinfos : s0.infos = mkInfos (pvW cfg p) (pcW cfg p) (x :: p.take k))
    (hact : s0.active = addrs.map fun a => ⟨a, cfg.genesis + 1, L a⟩)
    (hL : LhpRel cfg addrs L p (cfg.genesis + (p.length - (p.take k).length)))
    (hpar : s0.params = [(cfg.genesis + 1, P)]) :
    ∃ L' : Bytes → Nat,
      updateVotes s0 = .ok { s0 with
        infos := mkInfos (pvW cfg (x :: p)) (pcW cfg (x :: p)) (x :: p.take k),
        active := addrs.map fun a => ⟨a, cfg.genesis + 1, L' a⟩ } ∧
      LhpRel cfg addrs L' (x :: p) (cfg.genesis + (p.length - (p.take k).length)) := by
  have hgp : ∀ h, cfg.genesis < h → getParams s0 h = some P :=
    fun h hh => getParams_single s0 _ P hpar (by omega)
  have hxh : x.height = cfg.genesis + p.length + 1 := hc.1
  have hlk : (p.take k).length ≤ p.length := by simp [List.length_take]; omega
  -- the window
  obtain ⟨g', hg'⟩ : ∃ g', g' = cfg.genesis + (p.length - (p.take k).length) := ⟨_, rfl⟩
  rw [← hg'] at hL ⊢
  have hcw : Consec g' (x :: p.take k) := by
    have := consec_take (x :: p) (k + 1) hc
    simp only [List.take_succ_cons, List.length_cons] at this
    have e : p.length + 1 - ((p.take k).length + 1) = p.length - (p.take k).length := by omega
    rw [e, ← hg'] at this
    exact this
  have hd : Desc cfg.genesis (x :: p.take k) := hcw.desc.weaken (by omega)
  have hwin : ∀ b ∈ x :: p.take k, g' < b.height ∧ b.height ≤ cfg.genesis + p.length + 1 := by
    intro b hb
    have := hcw.mem_height hb
    simp only [List.length_cons] at this
    omega
  -- the no-vote cases
  have hnovote : (x.height ≤ x.mhg ∨ (x.gen ∉ addrs ∧ weightOf cfg x.gen = 0)) →
      s0 = { s0 with infos := mkInfos (pvW cfg (x :: p)) (pcW cfg (x :: p)) (x :: p.take k),
                     active := addrs.map fun a => ⟨a, cfg.genesis + 1, L a⟩ } ∧
      LhpRel cfg addrs L (x :: p) g' := by
    intro hno
    have e1 : mkInfos (pvW cfg (x :: p)) (pcW cfg (x :: p)) (x :: p.take k) = s0.infos := by
      rw [hinfos]
      apply mkInfos_congr
      intro b _
      rw [pvW_cons, pcW_cons]
      rcases hno with h | h
      · have h1 : prevotes cfg x b.height = false := by
          cases hp : prevotes cfg x b.height with
          | false => rfl
          | true => have := (prevotes_iff cfg x b.height).mp hp; omega
        have h2 : precommits cfg p x b.height = false := by
          cases hp : precommits cfg p x b.height with
          | false => rfl
          | true => have := (precommits_iff cfg p x b.height).mp hp; omega
        simp [h1, h2]
      · rw [h.2]; simp
    refine ⟨?_, ?_⟩
    · rw [e1, ← hact]
    · intro a ha
      have : lhp cfg (x :: p) a = lhp cfg p a := by
        rw [lhp_cons]
        have : ¬ (x.gen = a ∧ x.mhg < x.height) := by
          rcases hno with h | h
          · omega
          · intro hh; exact h.1 (hh.1 ▸ ha)
        rw [if_neg this]
      rw [this]
      exact hL a ha
  unfold updateVotes
  rw [hinfos, mkInfos_cons]
  simp only
  by_cases hmhg : x.mhg ≥ x.height
  · rw [if_pos hmhg]
    obtain ⟨e, hr⟩ := hnovote (Or.inl hmhg)
    exact ⟨L, congrArg _ e, hr⟩
  · rw [if_neg hmhg, hact, findActive_map]
    by_cases hmem : x.gen ∈ addrs
    · rw [if_pos hmem]
      simp only
      have hsome := (hst.act x.gen).mp hmem
      obtain ⟨v, hv⟩ := Option.isSome_iff_exists.mp hsome
      have hvP : findValidator P.validators x.gen = some v := by rw [hst.vals]; exact hv
      have hw : weightOf cfg x.gen = v.weight := by unfold weightOf; rw [hv]
      have hmlt : x.mhg < x.height := by omega
      -- heightNotPrevoted
      have hxh' : x.height = g' + (p.take k).length + 1 := hcw.1
      have hnpR := hnpLoop_refines (g := g') (by omega) (pvW cfg p) (pcW cfg p) x (p.take k) hcw x.gen
        ((p.take k).length + 1) ((x :: p.take k).length + 1) x.mhg (by omega) (by omega)
        (by simp only [List.length_cons]; omega)
      have hnpW := hnpLoop_window hc.2 k x.gen ((p.take k).length + 1) (p.length + 1) x.mhg
        (by omega) (by omega)
      rw [← hg'] at hnpW
      have hnpS : hnp p x ≤ x.mhg := hnpLoop_le p x.gen _ _
      have hM : heightNotPrevoted
          (⟨x.height, x.gen, x.mhg, x.mhp, pvW cfg p x.height, pcW cfg p x.height⟩ ::
            mkInfos (pvW cfg p) (pcW cfg p) (p.take k))
          = BFT.hnpLoop (mkInfos (pvW cfg p) (pcW cfg p) (x :: p.take k)) x.gen x.height
              ((x :: p.take k).length + 1) x.mhg := by
        unfold heightNotPrevoted
        simp only [← mkInfos_cons, mkInfos_length]
      obtain ⟨hm, hmdef⟩ : ∃ hm, hm = heightNotPrevoted
          (⟨x.height, x.gen, x.mhg, x.mhp, pvW cfg p x.height, pcW cfg p x.height⟩ ::
            mkInfos (pvW cfg p) (pcW cfg p) (p.take k)) := ⟨_, rfl⟩
      rw [← hmdef]
      rw [hM] at hmdef
      have hLx := hL x.gen hmem
      have hl1 := lhp_le cfg p x.gen
      have hl2 := lhp_ge_genesis cfg p x.gen
      -- the model's lower bound agrees with the specification's on the heights of the window
      have hmle : hm ≤ x.mhg ∨ hm = g' := by
        rcases hnpR with h | ⟨h1, _⟩
        · left; rw [hmdef, h]; exact hnpLoop_le _ _ _ _
        · right; rw [hmdef, h1]
      have hkey : ∀ h, g' < h →
          (max (cfg.genesis + 1) (max ((hm + 1) % u32) ((L x.gen + 1) % u32)) ≤ h ↔
            minPc cfg (hnp p x) (lhp cfg p x.gen) ≤ h) := by
        intro h hh
        have e1 : (hm + 1) % u32 = hm + 1 := Nat.mod_eq_of_lt (by omega)
        have e2 : (L x.gen + 1) % u32 = L x.gen + 1 := Nat.mod_eq_of_lt (by omega)
        rw [e1, e2, minPc_le_iff]
        unfold hnp at hnpS ⊢
        rcases hnpR with h' | ⟨h1, h2⟩
        · rw [← hmdef] at h'
          rw [← h'] at hnpW
          rcases hLx.2 with hLe | hLe <;> omega
        · rw [← hmdef] at h1
          rcases hLx.2 with hLe | hLe <;> omega
      obtain ⟨minH, hminH⟩ : ∃ m, m = max (cfg.genesis + 1) (max ((hm + 1) % u32) ((L x.gen + 1) % u32)) := ⟨_, rfl⟩
      rw [← hminH] at hkey ⊢
      rw [← mkInfos_cons (pvW cfg p) (pcW cfg p) x (p.take k)]
      rw [precommitLoop_spec s0 P cfg.genesis x.gen v _ hgp hvP (pvW cfg p) (pcW cfg p) (x :: p.take k) false hd]
      simp only
      rw [prevoteLoop_spec s0 P cfg.genesis x.gen v _ hgp hvP _ _ (x :: p.take k) hd]
      simp only
      have e1 : mkInfos (fun h => pvW cfg p h + if max ((x.mhg + 1) % u32) (cfg.genesis + 1) ≤ h then v.weight else 0)
          (fun h => pcW cfg p h + if minH ≤ h ∧ P.prevoteThreshold ≤ pvW cfg p h
            then v.weight else 0) (x :: p.take k) =
          mkInfos (pvW cfg (x :: p)) (pcW cfg (x :: p)) (x :: p.take k) := by
        apply mkInfos_congr
        intro b hb
        have hbw := hwin b hb
        rw [pvW_cons, pcW_cons, hw, hst.pv]
        have em : (x.mhg + 1) % u32 = x.mhg + 1 := Nat.mod_eq_of_lt (by omega)
        rw [em]
        constructor
        · by_cases hpv : prevotes cfg x b.height = true
          · have := (prevotes_iff cfg x b.height).mp hpv
            rw [if_pos hpv, if_pos (by omega)]
          · have h1 : ¬ (max (x.mhg + 1) (cfg.genesis + 1) ≤ b.height) := by
              intro hh
              exact hpv ((prevotes_iff cfg x b.height).mpr ⟨hmlt, by omega, by omega, by omega⟩)
            rw [if_neg hpv, if_neg h1]
        · by_cases hpc : precommits cfg p x b.height = true
          · have := (precommits_iff cfg p x b.height).mp hpc
            rw [if_pos hpc, if_pos ⟨(hkey _ hbw.1).mpr ((minPc_le_iff cfg _ _ _).mpr ⟨this.2.1, this.2.2.1, this.2.2.2.1⟩), this.2.2.2.2⟩]
          · have h1 : ¬ (minH ≤ b.height ∧ prevoteThreshold cfg ≤ pvW cfg p b.height) := by
              intro hh
              have := (minPc_le_iff cfg _ _ _).mp ((hkey _ hbw.1).mp hh.1)
              exact hpc ((precommits_iff cfg p x b.height).mpr ⟨hmlt, this.1, this.2.1, this.2.2, hh.2⟩)
            rw [if_neg hpc, if_neg h1]
      rw [e1]
      -- the vote infos
      have hfm := find_maxWith (g := g')
        (fun h => decide (minH ≤ h ∧ P.prevoteThreshold ≤ pvW cfg p h)) hcw
      simp only [Bool.false_eq_true, ↓reduceIte]
      rw [hfm]
      obtain ⟨ms, hmsdef⟩ : ∃ m, m = maxWith (fun h => decide (minPc cfg (hnp p x) (lhp cfg p x.gen) ≤ h) &&
            decide (prevoteThreshold cfg ≤ pvW cfg p h)) cfg.genesis (p.length + 1) := ⟨_, rfl⟩
      have hmw := maxWith_window (fun h => decide (minH ≤ h ∧ P.prevoteThreshold ≤ pvW cfg p h))
        (fun h => decide (minPc cfg (hnp p x) (lhp cfg p x.gen) ≤ h) &&
            decide (prevoteThreshold cfg ≤ pvW cfg p h)) cfg.genesis g' (p.length + 1) (x :: p.take k).length
        (by omega) (by simp only [List.length_cons]; omega)
        (by
          intro h hh
          rw [hst.pv, Bool.decide_and]
          congr 1
          exact decide_eq_decide.mpr (hkey h hh))
      rw [← hmsdef] at hmw
      obtain ⟨mm, hmmdef⟩ : ∃ m, m = maxWith (fun h => decide (minH ≤ h ∧ P.prevoteThreshold ≤ pvW cfg p h))
          g' (x :: p.take k).length := ⟨_, rfl⟩
      rw [← hmmdef] at hmw ⊢
      have hlhp : ∀ a, lhp cfg (x :: p) a = if x.gen = a then max (lhp cfg p a) ms else lhp cfg p a := by
        intro a
        rw [lhp_cons]
        by_cases ha : x.gen = a
        · subst ha
          rw [if_pos ⟨rfl, hmlt⟩, if_pos rfl, ← hmsdef]
        · rw [if_neg (fun hh => ha hh.1), if_neg ha]
      have hspec := maxWith_spec (fun h => decide (minPc cfg (hnp p x) (lhp cfg p x.gen) ≤ h) &&
            decide (prevoteThreshold cfg ≤ pvW cfg p h)) cfg.genesis (p.length + 1)
      rw [← hmsdef] at hspec
      have hms_gt : ms ≠ cfg.genesis → lhp cfg p x.gen < ms := by
        intro hne
        rcases hspec with h | h
        · exact absurd h hne
        · simp only [Bool.and_eq_true, decide_eq_true_eq] at h
          exact ((minPc_le_iff cfg _ _ _).mp h.1).2.2
      have hmsge : cfg.genesis ≤ ms := by rw [hmsdef]; exact maxWith_ge_lo _ _ _
      by_cases hm0 : mm = g'
      · -- no precommit inside the window
        rw [if_pos hm0]
        simp only
        refine ⟨L, rfl, ?_⟩
        intro a ha
        rw [hlhp a]
        have hLa := hL a ha
        by_cases hxa : x.gen = a
        · subst hxa
          rw [if_pos rfl]
          have hmsle : ms ≤ g' := by
            by_cases hgt : g' < ms
            · have := hmw.1 hgt; omega
            · omega
          rcases hLa.2 with hLe | hLe <;> omega
        · rw [if_neg hxa]; exact hLa
      · rw [if_neg hm0]
        simp only
        have hgt : g' < ms := by
          by_cases hgt : g' < ms
          · exact hgt
          · exact absurd (hmw.2 (by omega)) hm0
        have hmm : mm = ms := hmw.1 hgt
        refine ⟨fun a => if a = x.gen then mm else L a, ?_, ?_⟩
        · have : (addrs.map fun a => (⟨a, cfg.genesis + 1, if a = x.gen then mm else L a⟩ : ActiveVal)) =
              (addrs.map fun a => (⟨a, cfg.genesis + 1, L a⟩ : ActiveVal)).map fun a =>
                if a.address = x.gen then { a with largestHeightPrecommit := mm } else a := by
            rw [List.map_map]
            apply List.map_congr_left
            intro a _
            simp only [Function.comp]
            by_cases ha : a = x.gen
            · rw [if_pos ha, if_pos ha]
            · rw [if_neg ha, if_neg ha]
          rw [this]
        · intro a ha
          rw [hlhp a]
          have hLa := hL a ha
          by_cases hxa : x.gen = a
          · subst hxa
            dsimp only
            rw [if_pos rfl, if_pos rfl, hmm]
            have := hms_gt (by omega)
            omega
          · have : ¬ (a = x.gen) := fun e => hxa e.symm
            dsimp only
            rw [if_neg hxa, if_neg this]; exact hLa
    · rw [if_neg hmem]
      simp only
      have hnone : findValidator cfg.validators x.gen = none := by
        cases hf : findValidator cfg.validators x.gen with
        | none => rfl
        | some v => exact absurd ((hst.act x.gen).mpr (by rw [hf]; rfl)) hmem
      have hw : weightOf cfg x.gen = 0 := by unfold weightOf; rw [hnone]
      obtain ⟨e, hr⟩ := hnovote (Or.inr ⟨hmem, hw⟩)
      exact ⟨L, congrArg _ e, hr⟩


theorem LhpRel.mono {cfg : Cfg} {addrs : List Bytes} {L : Bytes → Nat} {p : List Header} {lo lo' : Nat}
    (h : LhpRel cfg addrs L p lo) (hlo : lo ≤ lo') : LhpRel cfg addrs L p lo' := by
  intro a ha
  have := h a ha
  omega

/-- the lower bound of the window (heights `≤` it have left the window) -/
def winLo (cfg : Cfg) (bs : Nat) (r : List Header) : Nat :=
  cfg.genesis + (r.length - (r.take (3 * bs)).length)

/-- the windowed state after a chain `r` of any length versus the specification's view of `r` -/
structure WInv (cfg : Cfg) (bs : Nat) (P : Params) (addrs : List Bytes) (r : List Header) (s : State) : Prop where
  batch : s.batchSize = bs
  /-- the window holds exactly the specification's weights of the last `3·bs` blocks -/
  infos : s.infos = mkInfos (pvW cfg r) (pcW cfg r) (r.take (3 * bs))
  active : ∃ L : Bytes → Nat, s.active = addrs.map (fun a => ⟨a, cfg.genesis + 1, L a⟩) ∧
    LhpRel cfg addrs L r (winLo cfg bs r)
  mhp_le : s.mhp ≤ mhp cfg r
  mhp_att : s.mhp = cfg.genesis ∨ prevoteThreshold cfg ≤ pvW cfg r s.mhp
  mhp_win : winLo cfg bs r < mhp cfg r → s.mhp = mhp cfg r
  /-- the quorum was reached while the height was inside the window -/
  mhp_att' : s.mhp = cfg.genesis ∨ ∃ r', r' <:+ r ∧ winLo cfg bs r' < s.mhp ∧
    prevoteThreshold cfg ≤ pvW cfg r' s.mhp
  /-- no height of the window with prevote quorum lies above `maxHeightPrevoted` -/
  mhp_inwin : ∀ h, winLo cfg bs r < h → prevoteThreshold cfg ≤ pvW cfg r h → h ≤ s.mhp
  mhpc_le : s.mhpc ≤ mhpc cfg r
  mhpc_att : s.mhpc = cfg.genesis ∨ cfg.precommitThreshold ≤ pcW cfg r s.mhpc
  mhpc_win : winLo cfg bs r < mhpc cfg r → s.mhpc = mhpc cfg r
  mhpc_att' : s.mhpc = cfg.genesis ∨ ∃ r', r' <:+ r ∧ winLo cfg bs r' < s.mhpc ∧
    cfg.precommitThreshold ≤ pcW cfg r' s.mhpc
  mhpc_ge : cfg.genesis ≤ s.mhpc
  params : s.params = [(cfg.genesis + 1, P)]

theorem pcW_mono (cfg : Cfg) {s r : List Header} (hs : s <:+ r) (h : Nat) : pcW cfg s h ≤ pcW cfg r h := by
  induction r with
  | nil => rw [List.suffix_nil] at hs; subst hs; exact Nat.le_refl _
  | cons y r ih =>
    rcases List.suffix_cons_iff.mp hs with h' | h'
    · subst h'; exact Nat.le_refl _
    · exact Nat.le_trans (ih h') (pcW_mono_cons cfg y r h)

theorem mhpc_mono (cfg : Cfg) {s r : List Header} (hs : s <:+ r) : mhpc cfg s ≤ mhpc cfg r := by
  apply maxWith_mono
  · intro h hh
    simp at hh ⊢
    exact Nat.le_trans hh (pcW_mono cfg hs h)
  · exact hs.length_le

/-- one block: the result of the window's `firstWith` versus the specification's maximum -/
private theorem height_step (f : Nat → Bool) (g g' n n' old specOld specNew : Nat)
    (hlo : g ≤ g') (hsum : g + n = g' + n') (hspec : specNew = maxWith f g n)
    (hmono : specOld ≤ specNew) (hold : old ≤ specOld)
    (new : Nat)
    (hnew : new = (if maxWith f g' n' = g' then none else some (maxWith f g' n')).getD old) :
    new ≤ specNew ∧ (g' < specNew → new = specNew) ∧ (new = old ∨ (f new = true ∧ g' < new)) ∧ old ≤ new ∧
      (∀ h, g' < h → h ≤ g + n → f h = true → h ≤ new) := by
  have hw := maxWith_window f f g g' n n' hlo hsum (fun _ _ => rfl)
  rw [← hspec] at hw
  have hge : ∀ h, g' < h → h ≤ g + n → f h = true → h ≤ specNew := by
    intro h h1 h2 h3
    rw [hspec]
    exact maxWith_ge f g n h h3 (by omega) h2
  by_cases hgt : g' < specNew
  · have := hw.1 hgt
    rw [this] at hnew
    have hne : ¬ (specNew = g') := by omega
    rw [if_neg hne] at hnew
    simp only [Option.getD_some] at hnew
    refine ⟨by omega, fun _ => hnew, Or.inr ⟨?_, by omega⟩, by omega, ?_⟩
    · rw [hnew, hspec]
      rcases maxWith_spec f g n with h | h
      · omega
      · exact h
    · intro h h1 h2 h3
      have := hge h h1 h2 h3
      omega
  · have := hw.2 (by omega)
    rw [this] at hnew
    simp only [if_true, Option.getD_none] at hnew
    refine ⟨by omega, fun h => absurd h hgt, Or.inl hnew, by omega, ?_⟩
    intro h h1 h2 h3
    have := hge h h1 h2 h3
    omega

theorem process_window (cfg : Cfg) (bs : Nat) (hbs : 0 < bs) (P : Params) (addrs : List Bytes)
    (hst : Static cfg P addrs) (x : Header) (p : List Header) (s : State) (hI : WInv cfg bs P addrs p s)
    (hc : Consec cfg.genesis (x :: p)) (hg : cfg.genesis + p.length + 2 < u32) :
    ∃ s', process s x = .ok s' ∧ WInv cfg bs P addrs (x :: p) s' ∧ s.mhp ≤ s'.mhp ∧ s.mhpc ≤ s'.mhpc := by
  obtain ⟨k, hk⟩ : ∃ k, 3 * bs = k + 1 := ⟨3 * bs - 1, by omega⟩
  have hxh : x.height = cfg.genesis + p.length + 1 := hc.1
  have hlk : (p.take k).length ≤ p.length := by simp [List.length_take]; omega
  have hlk1 : (p.take (k + 1)).length ≤ p.length := by simp [List.length_take]; omega
  have hlkk : (p.take k).length ≤ (p.take (k + 1)).length := by simp [List.length_take]; omega
  obtain ⟨g', hg'⟩ : ∃ g', g' = cfg.genesis + (p.length - (p.take k).length) := ⟨_, rfl⟩
  have hwlo : winLo cfg bs (x :: p) = g' := by
    unfold winLo
    rw [hk, hg']
    simp only [List.take_succ_cons, List.length_cons]
    omega
  have hwlo_p : winLo cfg bs p ≤ g' := by
    unfold winLo
    rw [hk, hg']
    omega
  have hcw : Consec g' (x :: p.take k) := by
    have := consec_take (x :: p) (k + 1) hc
    simp only [List.take_succ_cons, List.length_cons] at this
    have e : p.length + 1 - ((p.take k).length + 1) = p.length - (p.take k).length := by omega
    rw [e, ← hg'] at this
    exact this
  have hd : Desc cfg.genesis (x :: p.take k) := hcw.desc.weaken (by omega)
  have hins : insertInfo s x = mkInfos (pvW cfg p) (pcW cfg p) (x :: p.take k) := by
    unfold insertInfo
    rw [hI.infos, hI.batch, hk, List.take_succ_cons, mkInfos_cons,
      pvW_zero_above cfg hc.2 (by omega), pcW_zero_above cfg hc.2 (by omega)]
    congr 1
    unfold mkInfos
    rw [← List.map_take, List.take_take, Nat.min_eq_left (by omega)]
  have hne : (mkInfos (pvW cfg p) (pcW cfg p) (x :: p.take k)).isEmpty = false := rfl
  obtain ⟨o, ho, hoh⟩ := hcw.getLast (by simp)
  have hlast : (mkInfos (pvW cfg p) (pcW cfg p) (x :: p.take k)).getLast? = some (mkInfo (pvW cfg p) (pcW cfg p) o) := by
    unfold mkInfos
    rw [List.getLast?_map, ho]; rfl
  have hgpS : ∀ (s' : State), s'.params = s.params → ∀ h, cfg.genesis < h → getParams s' h = some P :=
    fun s' hs' h hh => getParams_single s' _ P (hs'.trans hI.params) (by omega)
  have hcache : cacheOk { s with infos := mkInfos (pvW cfg p) (pcW cfg p) (x :: p.take k) }
      (mkInfos (pvW cfg p) (pcW cfg p) (x :: p.take k)) = true := by
    unfold cacheOk
    rw [hlast]
    have : (mkInfos (pvW cfg p) (pcW cfg p) (x :: p.take k)).head? = some (mkInfo (pvW cfg p) (pcW cfg p) x) := rfl
    rw [this]
    simp only
    have h1 : getParams { s with infos := mkInfos (pvW cfg p) (pcW cfg p) (x :: p.take k) } o.height = some P :=
      hgpS _ rfl _ (by omega)
    show (getParams _ o.height).isSome = true
    rw [h1]; rfl
  obtain ⟨L, hLact, hLrel⟩ := hI.active
  obtain ⟨L', hupd, hL'⟩ := updateVotes_window cfg P addrs hst k x p hc hg
    { s with infos := mkInfos (pvW cfg p) (pcW cfg p) (x :: p.take k) } L rfl hLact
    (by rw [← hg']; exact hLrel.mono hwlo_p) hI.params
  rw [← hg'] at hL'
  have hfw1 := fun (s' : State) (hs' : s'.params = s.params) =>
    firstWith_spec s' P cfg.genesis (hgpS s' hs') (·.prevoteWeight) (·.prevoteThreshold)
      (pvW cfg (x :: p)) (pcW cfg (x :: p)) (pvW cfg (x :: p)) (fun _ => rfl) (x :: p.take k) hd
  have hfw2 := fun (s' : State) (hs' : s'.params = s.params) =>
    firstWith_spec s' P cfg.genesis (hgpS s' hs') (·.precommitWeight) (·.precommitThreshold)
      (pvW cfg (x :: p)) (pcW cfg (x :: p)) (pcW cfg (x :: p)) (fun _ => rfl) (x :: p.take k) hd
  have hm1 := find_maxWith (g := g') (fun h => decide (P.prevoteThreshold ≤ pvW cfg (x :: p) h)) hcw
  have hm2 := find_maxWith (g := g') (fun h => decide (P.precommitThreshold ≤ pcW cfg (x :: p) h)) hcw
  rw [hst.pv] at hm1
  rw [hst.pc] at hm2
  have hsum : cfg.genesis + (x :: p).length = g' + (x :: p.take k).length := by
    simp only [List.length_cons]; omega
  obtain ⟨nmhp, hnmhp⟩ : ∃ m, m = (if maxWith (fun h => decide (prevoteThreshold cfg ≤ pvW cfg (x :: p) h)) g'
      (x :: p.take k).length = g' then none else some (maxWith (fun h => decide (prevoteThreshold cfg ≤ pvW cfg (x :: p) h)) g'
      (x :: p.take k).length)).getD s.mhp := ⟨_, rfl⟩
  obtain ⟨nmhpc, hnmhpc⟩ : ∃ m, m = (if maxWith (fun h => decide (cfg.precommitThreshold ≤ pcW cfg (x :: p) h)) g'
      (x :: p.take k).length = g' then none else some (maxWith (fun h => decide (cfg.precommitThreshold ≤ pcW cfg (x :: p) h)) g'
      (x :: p.take k).length)).getD s.mhpc := ⟨_, rfl⟩
  have hs1 := height_step (fun h => decide (prevoteThreshold cfg ≤ pvW cfg (x :: p) h)) cfg.genesis g'
    (x :: p).length (x :: p.take k).length s.mhp (mhp cfg p) (mhp cfg (x :: p)) (by omega) hsum rfl
    (mhp_mono cfg (List.suffix_cons x p)) hI.mhp_le nmhp hnmhp
  have hs2 := height_step (fun h => decide (cfg.precommitThreshold ≤ pcW cfg (x :: p) h)) cfg.genesis g'
    (x :: p).length (x :: p.take k).length s.mhpc (mhpc cfg p) (mhpc cfg (x :: p)) (by omega) hsum rfl
    (mhpc_mono_cons cfg x p) hI.mhpc_le nmhpc hnmhpc
  unfold process
  simp only [hins, hne, hcache, hupd, Bool.false_eq_true, ↓reduceIte, Bool.not_true]
  rw [hfw1 { s with infos := mkInfos (pvW cfg (x :: p)) (pcW cfg (x :: p)) (x :: p.take k), active := addrs.map fun a => ⟨a, cfg.genesis + 1, L' a⟩ } rfl]
  simp only
  rw [hfw2 { s with infos := mkInfos (pvW cfg (x :: p)) (pcW cfg (x :: p)) (x :: p.take k), active := addrs.map fun a => ⟨a, cfg.genesis + 1, L' a⟩, mhp := Option.getD _ s.mhp } rfl]
  simp only
  rw [hst.pv, hm1, hst.pc, hm2, ← hnmhp, ← hnmhpc]
  refine ⟨_, rfl, ?_, hs1.2.2.2.1, hs2.2.2.2.1⟩
  constructor
  · exact hI.batch
  · show mkInfos _ _ (x :: p.take k) = mkInfos _ _ ((x :: p).take (3 * bs))
    rw [hk, List.take_succ_cons]
  · exact ⟨L', rfl, by rw [hwlo]; exact hL'⟩
  · exact hs1.1
  · show nmhp = cfg.genesis ∨ prevoteThreshold cfg ≤ pvW cfg (x :: p) nmhp
    rcases hs1.2.2.1 with h | h
    · rw [h]
      rcases hI.mhp_att with h' | h'
      · left; exact h'
      · right; exact Nat.le_trans h' (pvW_mono cfg (List.suffix_cons x p) _)
    · right; simpa using h.1
  · rw [hwlo]; exact hs1.2.1
  · show nmhp = cfg.genesis ∨ _
    rcases hs1.2.2.1 with h | h
    · rw [h]
      rcases hI.mhp_att' with h' | ⟨r', hr', h1, h2⟩
      · left; exact h'
      · right; exact ⟨r', hr'.trans (List.suffix_cons x p), h1, h2⟩
    · right
      exact ⟨x :: p, List.suffix_refl _, by rw [hwlo]; exact h.2, by simpa using h.1⟩
  · intro h h1 h2
    show h ≤ nmhp
    rw [hwlo] at h1
    apply hs1.2.2.2.2 h h1 _ (by simpa using h2)
    apply Classical.byContradiction
    intro hgt
    rw [pvW_zero_above cfg hc (by omega)] at h2
    have := prevoteThreshold_pos cfg
    omega
  · exact hs2.1
  · show nmhpc = cfg.genesis ∨ cfg.precommitThreshold ≤ pcW cfg (x :: p) nmhpc
    rcases hs2.2.2.1 with h | h
    · rw [h]
      rcases hI.mhpc_att with h' | h'
      · left; exact h'
      · right; exact Nat.le_trans h' (pcW_mono_cons cfg x p _)
    · right; simpa using h.1
  · rw [hwlo]; exact hs2.2.1
  · show nmhpc = cfg.genesis ∨ _
    rcases hs2.2.2.1 with h | h
    · rw [h]
      rcases hI.mhpc_att' with h' | ⟨r', hr', h1, h2⟩
      · left; exact h'
      · right; exact ⟨r', hr'.trans (List.suffix_cons x p), h1, h2⟩
    · right
      exact ⟨x :: p, List.suffix_refl _, by rw [hwlo]; exact h.2, by simpa using h.1⟩
  · show cfg.genesis ≤ nmhpc
    have := hI.mhpc_ge
    have := hs2.2.2.2.1
    omega
  · show prune s.params _ = _
    rw [hI.params, prune_single]


theorem WInv.of_inv {cfg : Cfg} {bs : Nat} {P : Params} {addrs : List Bytes} {s : State}
    (h : Inv cfg bs P addrs [] s) : WInv cfg bs P addrs [] s := by
  have e1 : mhp cfg [] = cfg.genesis := rfl
  have e2 : mhpc cfg [] = cfg.genesis := rfl
  constructor
  · exact h.batch
  · rw [h.infos, List.take_nil]
  · exact ⟨fun a => lhp cfg [] a, h.active, fun a _ => ⟨Nat.le_refl _, Or.inl rfl⟩⟩
  · rw [h.mhp]; exact Nat.le_refl _
  · left; rw [h.mhp, e1]
  · intro _; exact h.mhp
  · left; rw [h.mhp, e1]
  · intro hh _ hq
    have : pvW cfg [] hh = 0 := rfl
    rw [this] at hq
    have := prevoteThreshold_pos cfg
    omega
  · rw [h.mhpc]; exact Nat.le_refl _
  · left; rw [h.mhpc, e2]
  · intro _; exact h.mhpc
  · left; rw [h.mhpc, e2]
  · rw [h.mhpc, e2]; exact Nat.le_refl _
  · exact h.params

/-- a chain of ANY length: the model accepts every header, its window holds the specification's
weights, its heights are below the specification's and monotone -/
theorem runChain_window (cfg : Cfg) (bs : Nat) (hbs : 0 < bs) (P : Params) (addrs : List Bytes)
    (hst : Static cfg P addrs) :
    ∀ (rest p : List Header) (s : State), WInv cfg bs P addrs p s → Consec cfg.genesis p →
      HeightsFrom (cfg.genesis + p.length + 1) rest →
      cfg.genesis + (rest.length + p.length) + 1 < u32 →
      ∃ s', runChain s rest = some s' ∧ WInv cfg bs P addrs (rest.reverse ++ p) s' ∧
        s.mhp ≤ s'.mhp ∧ s.mhpc ≤ s'.mhpc := by
  intro rest
  induction rest with
  | nil => intro p s hI _ _ _; exact ⟨s, rfl, by simpa using hI, Nat.le_refl _, Nat.le_refl _⟩
  | cons h t ih =>
    intro p s hI hc hh hu
    simp only [List.length_cons] at hu
    have hc' : Consec cfg.genesis (h :: p) := ⟨hh.1, hc⟩
    obtain ⟨s1, hs1, hI1, hm1, hm1'⟩ := process_window cfg bs hbs P addrs hst h p s hI hc' (by omega)
    obtain ⟨s2, hs2, hI2, hm2, hm2'⟩ := ih (h :: p) s1 hI1 hc' (by simpa [Nat.add_assoc] using hh.2)
      (by simp only [List.length_cons]; omega)
    refine ⟨s2, ?_, by simpa using hI2, by omega, by omega⟩
    unfold runChain
    rw [hs1]
    exact hs2

theorem runChain_append (s : State) (a b : List Header) :
    runChain s (a ++ b) = (runChain s a).bind fun s' => runChain s' b := by
  induction a generalizing s with
  | nil => rfl
  | cons h t ih =>
    simp only [List.cons_append]
    rw [runChain, runChain]
    cases process s h with
    | ok s' => exact ih s'
    | error e => rfl

theorem heightsFrom_append {k : Nat} {a b : List Header} (h : HeightsFrom k (a ++ b)) :
    HeightsFrom k a ∧ HeightsFrom (k + a.length) b := by
  induction a generalizing k with
  | nil => exact ⟨trivial, by simpa using h⟩
  | cons x t ih =>
    have := ih h.2
    refine ⟨⟨h.1, this.1⟩, ?_⟩
    have e : k + (x :: t).length = k + 1 + t.length := by simp only [List.length_cons]; omega
    rw [e]; exact this.2

theorem consec_of_heightsFrom {g : Nat} : ∀ (l p : List Header), Consec g p →
    HeightsFrom (g + p.length + 1) l → Consec g (l.reverse ++ p) := by
  intro l
  induction l with
  | nil => intro p hp _; simpa using hp
  | cons h t ih =>
    intro p hp hh
    have : Consec g (h :: p) := ⟨hh.1, hp⟩
    have := ih (h :: p) this (by simpa [Nat.add_assoc] using hh.2)
    simpa using this

/-- `SetBFTParameters` succeeds on the genesis state only for a positive batch size -/
theorem setParams_bs_pos (bs g pcThr certThr : Nat) (vs : List Validator) (s0 : State)
    (h : setParams (initGenesis bs g) pcThr certThr vs = .ok s0) : 0 < bs := by
  unfold setParams at h
  split at h
  · cases h
  · rename_i hlen
    split at h
    · cases h
    · split at h
      · cases h
      simp only at h
      split at h
      · cases h
      · rename_i hthr
        apply Classical.byContradiction
        intro hb
        have hb0 : bs = 0 := by omega
        have hv : vs = [] := by
          have : ¬ (vs.length > 0) := by simpa [initGenesis, hb0] using hlen
          exact List.length_eq_zero_iff.mp (by omega)
        subst hv
        simp at hthr

end LiskVerif.BFTSpec

/-! ## Finality safety under the NODE's validity rules, for chains of any length

Beyond the window the rules a node enforces differ from the specification's `chainValid`: the
`maxHeightPrevoted` field is compared with the MODEL's value `M` (which may lag behind the
specification's), and `BFTVotes.contradicting` only sees the generator's most recent header among the
last `3·batchSize` blocks. The safety proof is redone for these weaker rules, for abstract `M`
(`maxHeightPrevoted` of the node after a chain) and `N` (`maxHeightPrecommitted`) with the properties
that `WInv` provides. -/

namespace LiskVerif.BFTSpec
open LiskVerif LiskVerif.BFT

theorem winLo_eq (cfg : Cfg) (bs : Nat) (r : List Header) :
    winLo cfg bs r = cfg.genesis + (r.length - 3 * bs) := by
  unfold winLo
  simp only [List.length_take]
  omega

/-- what the safety proof needs to know about the node's heights `M` (prevoted) and `N` (precommitted) -/
structure NodeHeights (cfg : Cfg) (bs lim : Nat) (M N : List Header → Nat) : Prop where
  m_att : ∀ p, Consec cfg.genesis p → cfg.genesis + p.length < lim →
    M p = cfg.genesis ∨ ∃ p', p' <:+ p ∧ winLo cfg bs p' < M p ∧ prevoteThreshold cfg ≤ pvW cfg p' (M p)
  m_mono : ∀ x p, Consec cfg.genesis (x :: p) → cfg.genesis + (x :: p).length < lim → M p ≤ M (x :: p)
  m_inwin : ∀ p h, Consec cfg.genesis p → cfg.genesis + p.length < lim → winLo cfg bs p < h →
    prevoteThreshold cfg ≤ pvW cfg p h → h ≤ M p
  n_att : ∀ r, Consec cfg.genesis r → cfg.genesis + r.length < lim →
    N r = cfg.genesis ∨ ∃ r', r' <:+ r ∧ winLo cfg bs r' < N r ∧ cfg.precommitThreshold ≤ pcW cfg r' (N r)

/-- chain validity as the NODE checks it: consecutive heights, `maxHeightPrevoted` field = the node's
value for the parent chain, no contradiction with the generator's most recent header in the window -/
def WValid (cfg : Cfg) (bs : Nat) (M : List Header → Nat) : List Header → Prop
  | [] => True
  | x :: p => x.height = cfg.genesis + p.length + 1 ∧ x.mhp = M p ∧
      contradictingSpec Gen.areDistinctHeadersContradicting (p.take (3 * bs)) x = false ∧ WValid cfg bs M p

theorem wvalid_suffix {cfg : Cfg} {bs : Nat} {M : List Header → Nat} {r s : List Header}
    (hv : WValid cfg bs M r) (hs : s <:+ r) : WValid cfg bs M s := by
  induction r with
  | nil => rw [List.suffix_nil] at hs; subst hs; exact hv
  | cons y r ih =>
    rcases List.suffix_cons_iff.mp hs with h | h
    · subst h; exact hv
    · exact ih hv.2.2.2 h

theorem wvalid_consec {cfg : Cfg} {bs : Nat} {M : List Header → Nat} {r : List Header}
    (hv : WValid cfg bs M r) : Consec cfg.genesis r := by
  induction r with
  | nil => trivial
  | cons x p ih => exact ⟨hv.1, ih hv.2.2.2⟩

theorem Consec.suffix {g : Nat} {r s : List Header} (hc : Consec g r) (hs : s <:+ r) : Consec g s := by
  obtain ⟨t, rfl⟩ := hs
  exact hc.of_append

theorem NodeHeights.m_mono_suffix {cfg : Cfg} {bs lim : Nat} {M N : List Header → Nat}
    (hM : NodeHeights cfg bs lim M N) {s r : List Header} (hc : Consec cfg.genesis r)
    (hl : cfg.genesis + r.length < lim) (hs : s <:+ r) : M s ≤ M r := by
  induction r with
  | nil => rw [List.suffix_nil] at hs; subst hs; exact Nat.le_refl _
  | cons y r ih =>
    rcases List.suffix_cons_iff.mp hs with h | h
    · subst h; exact Nat.le_refl _
    · exact Nat.le_trans (ih hc.2 (by simp only [List.length_cons] at hl; omega) h) (hM.m_mono y r hc hl)

theorem find_take_some {α : Type} (q : α → Bool) (l : List α) (k : Nat) {b : α}
    (h : (l.take k).find? q = some b) : l.find? q = some b := by
  conv => lhs; rw [← List.take_append_drop k l]
  rw [List.find?_append, h]
  rfl

/-- a block of a chain with consecutive heights whose height is above the window's lower bound lies
in the window -/
theorem mem_take_of_height {g : Nat} {p : List Header} (hc : Consec g p) (k : Nat) {e : Header}
    (he : e ∈ p) (hh : g + (p.length - k) < e.height) : e ∈ p.take k := by
  rw [← List.take_append_drop k p] at he
  rcases List.mem_append.mp he with h | h
  · exact h
  · exfalso
    have hcd : Consec g (p.drop k) := by
      have := hc
      rw [← List.take_append_drop k p] at this
      exact this.of_append
    have := (hcd.mem_height h).2
    simp only [List.length_drop] at this
    omega

/-- along a chain that is valid for the node, a block is a legitimate successor (C07) of every earlier
block of the same generator that is at most a window away -/
theorem wvalid_legit {cfg : Cfg} {bs lim : Nat} {M N : List Header → Nat} (hM : NodeHeights cfg bs lim M N)
    {r : List Header} (hv : WValid cfg bs M r) (hl : cfg.genesis + r.length < lim) :
    ∀ {x : Header} {p : List Header}, x :: p <:+ r → ∀ e ∈ p, e.gen = x.gen →
      x.height ≤ e.height + 3 * bs → C07LegitSucc (toHdr e) (toHdr x) := by
  induction r with
  | nil => intro x p hs; simp at hs
  | cons y r ih =>
    intro x p hs e he hg hw
    have hlr : cfg.genesis + r.length < lim := by simp only [List.length_cons] at hl; omega
    rcases List.suffix_cons_iff.mp hs with h | h
    · injection h with h1 h2
      subst h1; subst h2
      have hcp : Consec cfg.genesis p := wvalid_consec hv.2.2.2
      have hc := hv.2.2.1
      have hein : e ∈ p.take (3 * bs) := mem_take_of_height hcp _ he (by
        have := hv.1; have := (hcp.mem_height he).1; omega)
      unfold contradictingSpec at hc
      cases hf : (p.take (3 * bs)).find? (fun b => decide (b.gen = x.gen)) with
      | none =>
        rw [List.find?_eq_none] at hf
        have := hf e hein
        simp [hg] at this
      | some b =>
        rw [hf] at hc
        simp only at hc
        have hf' := find_take_some _ p _ hf
        obtain ⟨hb, as, bs', hp, has⟩ := List.find?_eq_some_iff_append.mp hf'
        have hbg : b.gen = x.gen := by simpa using hb
        have hsb : b :: bs' <:+ p := by rw [hp]; exact List.suffix_append _ _
        have hvb := wvalid_suffix hv.2.2.2 hsb
        have hbs : bs' <:+ p := by rw [hp]; exact (List.suffix_cons b bs').trans (List.suffix_append _ _)
        have hm := hM.m_mono_suffix hcp hlr hbs
        have hlen : p.length = as.length + bs'.length + 1 := by rw [hp]; simp; omega
        have hbh := hvb.1
        have hxh := hv.1
        have hbx : C07LegitSucc (toHdr b) (toHdr x) := by
          rcases (C07_spec (toHdr b) (toHdr x) hbg).mp hc with h1 | h1
          · exact h1
          · exfalso
            unfold C07LegitSucc toHdr at h1
            simp only at h1
            have e1 := hvb.2.1
            have e2 := hv.2.1
            omega
        rw [hp] at he
        rcases List.mem_append.mp he with he | he
        · have := has e he
          simp [hg] at this
        · rcases List.mem_cons.mp he with he | he
          · subst he; exact hbx
          · exact C07_legit_trans _ _ _
              (ih hv.2.2.2 hlr hsb e he (by rw [hg, hbg]) (by omega)) hbx
    · exact ih hv.2.2.2 hlr h e he hg hw

theorem prevote_once_w {cfg : Cfg} {bs lim : Nat} {M N : List Header → Nat} (hM : NodeHeights cfg bs lim M N)
    {x : Header} {p : List Header} (hv : WValid cfg bs M (x :: p))
    (hl : cfg.genesis + (x :: p).length < lim) {h : Nat}
    (hx : prevotes cfg x h = true) (hwin : x.height < h + 3 * bs) {e : Header} {pe : List Header}
    (hs : e :: pe <:+ p) (hg : e.gen = x.gen) (he : prevotes cfg e h = true) : False := by
  have h1 := (prevotes_iff cfg x h).mp hx
  have h2 := (prevotes_iff cfg e h).mp he
  have hleg := wvalid_legit hM hv hl (List.suffix_refl _) e (mem_of_cons_suffix hs) hg (by omega)
  unfold C07LegitSucc toHdr at hleg
  simp only at hleg
  omega

/-- inside the window the prevote weight is carried by distinct validators -/
theorem pvW_le_wsum_w {cfg : Cfg} {bs lim : Nat} {M N : List Header → Nat} (hM : NodeHeights cfg bs lim M N)
    {r : List Header} (hv : WValid cfg bs M r) (hl : cfg.genesis + r.length < lim) (h : Nat)
    (hwin : cfg.genesis + r.length < h + 3 * bs) :
    ∀ f : Bytes → Bool,
      (∀ x p, x :: p <:+ r → prevotes cfg x h = true → f x.gen = true) →
      pvW cfg r h ≤ wsumB cfg.validators f := by
  induction r with
  | nil => intro f _; simp [pvW]
  | cons x p ih =>
    intro f hf
    have hvp := hv.2.2.2
    rw [pvW_cons]
    have hwp : cfg.genesis + p.length < h + 3 * bs := by simp only [List.length_cons] at hwin; omega
    have hlp : cfg.genesis + p.length < lim := by simp only [List.length_cons] at hl; omega
    by_cases hx : prevotes cfg x h = true
    · have h1 := ih hvp hlp hwp (fun c => f c && !(decide (c = x.gen))) (by
        intro e pe hs he
        have : e.gen ≠ x.gen := fun hg =>
          prevote_once_w hM hv hl hx (by have := hv.1; simp only [List.length_cons] at hwin; omega) hs hg he
        simp [this]
        exact hf e pe (hs.trans (List.suffix_cons x p)) he)
      have h2 := wsumB_remove cfg.validators f x.gen (hf x p (List.suffix_refl _) hx)
      rw [if_pos hx, weightOf_eq]
      omega
    · rw [if_neg hx]
      exact ih hvp hlp hwp f (fun e pe hs he => hf e pe (hs.trans (List.suffix_cons x p)) he)

/-- `precommit_le_lhp` for chains with consecutive heights -/
theorem precommit_le_lhp_c (cfg : Cfg) {p : List Header} (hc : Consec cfg.genesis p) {x : Header} {h : Nat}
    (hx : precommits cfg p x h = true) : h ≤ lhp cfg (x :: p) x.gen := by
  have hp := (precommits_iff cfg p x h).mp hx
  have hle : h ≤ cfg.genesis + p.length := by
    apply Classical.byContradiction
    intro hgt
    have h0 := pvW_zero_above cfg hc (h := h) (by omega)
    have := prevoteThreshold_pos cfg
    have := hp.2.2.2.2
    omega
  rw [lhp_cons, if_pos ⟨rfl, hp.1⟩]
  refine Nat.le_trans (maxWith_ge _ _ _ h ?_ hp.2.1 (by omega)) (Nat.le_max_right _ _)
  simp [minPc_le_iff]
  exact ⟨⟨hp.2.1, hp.2.2.1, hp.2.2.2.1⟩, hp.2.2.2.2⟩

theorem precommit_once_c (cfg : Cfg) {p : List Header} (hc : Consec cfg.genesis p) {x : Header} {h : Nat}
    (hx : precommits cfg p x h = true) {e : Header} {pe : List Header} (hs : e :: pe <:+ p)
    (hg : e.gen = x.gen) (he : precommits cfg pe e h = true) : False := by
  have hcpe : Consec cfg.genesis pe := hc.suffix ((List.suffix_cons e pe).trans hs)
  have h1 := precommit_le_lhp_c cfg hcpe he
  have h2 := lhp_mono cfg hs e.gen
  have h3 := ((precommits_iff cfg p x h).mp hx).2.2.2.1
  rw [hg] at h1 h2
  omega

theorem pcW_le_wsum_c (cfg : Cfg) {r : List Header} (hc : Consec cfg.genesis r) (h : Nat) :
    ∀ f : Bytes → Bool,
      (∀ x p, x :: p <:+ r → precommits cfg p x h = true → f x.gen = true) →
      pcW cfg r h ≤ wsumB cfg.validators f := by
  induction r with
  | nil => intro f _; simp [pcW]
  | cons x p ih =>
    intro f hf
    rw [pcW_cons]
    by_cases hx : precommits cfg p x h = true
    · have h1 := ih hc.2 (fun c => f c && !(decide (c = x.gen))) (by
        intro e pe hs he
        have : e.gen ≠ x.gen := fun hg => precommit_once_c cfg hc.2 hx hs hg he
        simp [this]
        exact hf e pe (hs.trans (List.suffix_cons x p)) he)
      have h2 := wsumB_remove cfg.validators f x.gen (hf x p (List.suffix_refl _) hx)
      rw [if_pos hx, weightOf_eq]
      omega
    · rw [if_neg hx]
      exact ih hc.2 f (fun e pe hs he => hf e pe (hs.trans (List.suffix_cons x p)) he)

/-- the core for the node's rules: a block whose precommit quorum was reached inside the window is an
ancestor of every block of the tree that reaches, inside its window, a prevote quorum at the same
or a greater height -/
theorem no_conflicting_prevote_quorum_w (cfg : Cfg) (bs lim : Nat) (M N : List Header → Nat)
    (hM : NodeHeights cfg bs lim M N) (Tr : List (List Header)) (byz : Bytes → Bool)
    (hval : ∀ t ∈ Tr, WValid cfg bs M t) (hlim : ∀ t ∈ Tr, cfg.genesis + t.length < lim)
    (hthr : wsumB cfg.validators byz + totalWeight cfg < cfg.precommitThreshold + prevoteThreshold cfg)
    (hhon : ∀ v ∈ cfg.validators, byz v.address = false → HonestR Tr v.address)
    {t0 b : List Header} (ht0 : InTree Tr t0) (hb : b <:+ t0)
    (hw0 : winLo cfg bs t0 < cfg.genesis + b.length)
    (hq : cfg.precommitThreshold ≤ pcW cfg t0 (cfg.genesis + b.length)) :
    ∀ (n : Nat) (t1 : List Header), t1.length = n → InTree Tr t1 →
      ∀ h, cfg.genesis + b.length ≤ h → winLo cfg bs t1 < h → prevoteThreshold cfg ≤ pvW cfg t1 h →
        b <:+ t1 := by
  have hvalid : ∀ {t}, InTree Tr t → WValid cfg bs M t := by
    intro t ht
    obtain ⟨u, hu, htu⟩ := ht
    exact wvalid_suffix (hval u hu) htu
  have hlimit : ∀ {t}, InTree Tr t → cfg.genesis + t.length < lim := by
    intro t ht
    obtain ⟨u, hu, htu⟩ := ht
    have := hlim u hu
    have := htu.length_le
    omega
  intro n
  induction n using Nat.strongRecOn with
  | _ n ih =>
    intro t1 hlen ht1 h hh hw1 hpv
    have hv0 := hvalid ht0
    have hv1 := hvalid ht1
    have hc0 := wvalid_consec hv0
    have hc1 := wvalid_consec hv1
    rw [winLo_eq] at hw0 hw1
    let f : Bytes → Bool := fun a => @decide (∃ x p, x :: p <:+ t0 ∧ x.gen = a ∧
      precommits cfg p x (cfg.genesis + b.length) = true) (Classical.propDecidable _)
    let g : Bytes → Bool := fun a => @decide (∃ y q, y :: q <:+ t1 ∧ y.gen = a ∧
      prevotes cfg y h = true) (Classical.propDecidable _)
    have h1 : pcW cfg t0 (cfg.genesis + b.length) ≤ wsumB cfg.validators f :=
      pcW_le_wsum_c cfg hc0 _ f (by
        intro x p hs hx
        simp only [f, decide_eq_true_eq]
        exact ⟨x, p, hs, rfl, hx⟩)
    have h2 : pvW cfg t1 h ≤ wsumB cfg.validators g :=
      pvW_le_wsum_w hM hv1 (hlimit ht1) _ (by omega) g (by
        intro y q hs hy
        simp only [g, decide_eq_true_eq]
        exact ⟨y, q, hs, rfl, hy⟩)
    obtain ⟨v, hv, hfv, hgv, hbv⟩ := quorum_honest cfg.validators f g byz
      cfg.precommitThreshold (prevoteThreshold cfg) (Nat.le_trans hq h1) (Nat.le_trans hpv h2)
      (by unfold totalWeight at hthr; exact hthr)
    have hon := hhon v hv hbv
    simp only [f, decide_eq_true_eq] at hfv
    simp only [g, decide_eq_true_eq] at hgv
    obtain ⟨x, p, hsX, hxg, hxpc⟩ := hfv
    obtain ⟨y, q, hsY, hyg, hypv⟩ := hgv
    have hX : InTree Tr (x :: p) := ht0.suffix hsX
    have hY : InTree Tr (y :: q) := ht1.suffix hsY
    have hpt0 : p <:+ t0 := (List.suffix_cons x p).trans hsX
    have hqt1 : q <:+ t1 := (List.suffix_cons y q).trans hsY
    have hP : InTree Tr p := ht0.suffix hpt0
    have hQ : InTree Tr q := ht1.suffix hqt1
    have pcs := (precommits_iff cfg p x _).mp hxpc
    have pvs := (prevotes_iff cfg y h).mp hypv
    have hcp := wvalid_consec (hvalid hP)
    have hcq := wvalid_consec (hvalid hQ)
    have hpos : cfg.genesis + b.length ≤ cfg.genesis + p.length := by
      apply Classical.byContradiction
      intro hgt
      have h0 := pvW_zero_above cfg hcp (h := cfg.genesis + b.length) (by omega)
      have := prevoteThreshold_pos cfg
      have := pcs.2.2.2.2
      omega
    have hbp : b <:+ p := suffix_of_suffix_le hb hpt0 (by omega)
    have hyh := (hvalid hY).1
    have hlp := hpt0.length_le
    by_cases heq : x :: p = y :: q
    · exact (hbp.trans (List.suffix_cons x p)).trans (heq ▸ hsY)
    · rcases hon.legit hX hY hxg hyg heq with hl | hl
      · -- X before Y
        have hxm := (hvalid hX).2.1
        have hym := (hvalid hY).2.1
        have hMp : cfg.genesis + b.length ≤ M p :=
          hM.m_inwin p _ hcp (hlimit hP) (by rw [winLo_eq]; omega) pcs.2.2.2.2
        unfold C07LegitSucc toHdr at hl
        simp only at hl
        have hmq : cfg.genesis + b.length ≤ M q := by omega
        rcases hM.m_att q hcq (hlimit hQ) with h' | ⟨q', hq', hwq', hquo⟩
        · omega
        · have hlt : q'.length < n := by
            have h1 := hsY.length_le
            have h2 := hq'.length_le
            simp at h1
            omega
          exact ((ih q'.length hlt q' rfl (hQ.suffix hq') (M q) hmq hwq' hquo).trans hq').trans hqt1
      · -- Y before X
        by_cases hYX : y :: q <:+ p
        · have : b <:+ y :: q := suffix_of_suffix_le hbp hYX (by simp; omega)
          exact this.trans hsY
        · exfalso
          unfold C07LegitSucc toHdr at hl
          simp only at hl
          have hA := hnpLoop_ge hon hP hY hyg hYX pvs.1 (p.length + 1) x.mhg hl.1
          have hA' : y.height ≤ hnp p x := by unfold hnp; rw [hxg]; exact hA
          omega

/-- finality safety for the node's rules (newest-first chains): the blocks at the node's
`maxHeightPrecommitted` of two tips are comparable -/
theorem finality_safety_w (cfg : Cfg) (bs lim : Nat) (M N : List Header → Nat)
    (hM : NodeHeights cfg bs lim M N) (Tr : List (List Header)) (byz : Bytes → Bool)
    (hval : ∀ t ∈ Tr, WValid cfg bs M t) (hlim : ∀ t ∈ Tr, cfg.genesis + t.length < lim)
    (hpc : 0 < cfg.precommitThreshold)
    (hthr : wsumB cfg.validators byz + totalWeight cfg < cfg.precommitThreshold + prevoteThreshold cfg)
    (hhon : ∀ v ∈ cfg.validators, byz v.address = false → HonestR Tr v.address)
    {t1 t2 b1 b2 : List Header} (ht1 : t1 ∈ Tr) (ht2 : t2 ∈ Tr)
    (hb1 : b1 <:+ t1) (hl1 : cfg.genesis + b1.length = N t1)
    (hb2 : b2 <:+ t2) (hl2 : cfg.genesis + b2.length = N t2) :
    b1 <:+ b2 ∨ b2 <:+ b1 := by
  have key : ∀ {t0 t b : List Header}, t0 ∈ Tr → t ∈ Tr → N t0 ≤ N t → b <:+ t0 →
      cfg.genesis + b.length = N t0 → b <:+ t := by
    intro t0 t b ht0 ht hle hb hbl
    have hi0 : InTree Tr t0 := ⟨t0, ht0, List.suffix_refl _⟩
    have hi : InTree Tr t := ⟨t, ht, List.suffix_refl _⟩
    have hc0 := wvalid_consec (hval t0 ht0)
    have hc := wvalid_consec (hval t ht)
    cases b with
    | nil => exact List.nil_suffix
    | cons y b' =>
      have hlen : (y :: b').length = b'.length + 1 := rfl
      rcases hM.n_att t0 hc0 (hlim t0 ht0) with h0 | ⟨t0', ht0', hw0, hq0⟩
      · omega
      rcases hM.n_att t hc (hlim t ht) with h1 | ⟨t', ht', hw1, hq1⟩
      · omega
      -- a precommitter for `N t` on `t'`
      obtain ⟨x, p, hs, hx⟩ := pcW_pos_exists cfg (r := t') (h := N t) (by omega)
      have pcs := (precommits_iff cfg p x _).mp hx
      have hpt' : p <:+ t' := (List.suffix_cons x p).trans hs
      have hb' : y :: b' <:+ t0' := by
        -- `b` has height `N t0 > winLo t0'`, hence `≤` the height of `t0'`
        have hc0' := hc0.suffix ht0'
        have hle' : cfg.genesis + (y :: b').length ≤ cfg.genesis + t0'.length := by
          apply Classical.byContradiction
          intro hgt
          have h0 := pcW_zero_above cfg hc0' (h := N t0) (by omega)
          omega
        exact suffix_of_suffix_le hb ht0' (by omega)
      rw [← hbl] at hw0 hq0
      have hwp : winLo cfg bs p < N t := by
        rw [winLo_eq] at hw1 ⊢
        have := hpt'.length_le
        omega
      have := no_conflicting_prevote_quorum_w cfg bs lim M N hM Tr byz hval hlim hthr hhon (hi0.suffix ht0') hb' hw0 hq0
        p.length p rfl ((hi.suffix ht').suffix hpt') (N t) (by omega) hwp pcs.2.2.2.2
      exact (this.trans hpt').trans ht'
  by_cases hle : N t1 ≤ N t2
  · left
    exact suffix_of_suffix_le (key ht1 ht2 hle hb1 hl1) hb2 (by omega)
  · right
    exact suffix_of_suffix_le (key ht2 ht1 (by omega) hb2 hl2) hb1 (by omega)

/-! ### the node's heights as functions of the chain -/

/-- the node's `maxHeightPrevoted` after the chain `p` (newest first), starting from state `s0` -/
def nodeMhp (s0 : State) (g : Nat) (p : List Header) : Nat :=
  match runChain s0 p.reverse with
  | some s => s.mhp
  | none => g

/-- the node's `maxHeightPrecommitted` after the chain `p` -/
def nodeMhpc (s0 : State) (g : Nat) (p : List Header) : Nat :=
  match runChain s0 p.reverse with
  | some s => s.mhpc
  | none => g

/-- the state of the node after a chain with consecutive heights below `2^32` -/
theorem node_state (cfg : Cfg) (bs : Nat) (hbs : 0 < bs) (P : Params) (addrs : List Bytes)
    (hst : Static cfg P addrs) (s0 : State) (hI : WInv cfg bs P addrs [] s0) (p : List Header)
    (hc : Consec cfg.genesis p) (hl : cfg.genesis + p.length + 1 < u32) :
    ∃ s, runChain s0 p.reverse = some s ∧ WInv cfg bs P addrs p s := by
  have hh : HeightsFrom (cfg.genesis + ([] : List Header).length + 1) p.reverse :=
    heightsFrom_of_consec p.reverse [] (by simpa using hc)
  obtain ⟨s, hs, hIs, _, _⟩ := runChain_window cfg bs hbs P addrs hst p.reverse [] s0 hI trivial hh
    (by simp only [List.length_reverse, List.length_nil]; omega)
  exact ⟨s, hs, by simpa using hIs⟩

theorem nodeHeights_of_init (cfg : Cfg) (bs : Nat) (hbs : 0 < bs) (P : Params) (addrs : List Bytes)
    (hst : Static cfg P addrs) (s0 : State) (hI : WInv cfg bs P addrs [] s0) :
    NodeHeights cfg bs (u32 - 1) (nodeMhp s0 cfg.genesis) (nodeMhpc s0 cfg.genesis) := by
  constructor
  · intro p hc hl
    obtain ⟨s, hs, hIs⟩ := node_state cfg bs hbs P addrs hst s0 hI p hc (by omega)
    unfold nodeMhp; rw [hs]
    exact hIs.mhp_att'
  · intro x p hc hl
    simp only [List.length_cons] at hl
    obtain ⟨s, hs, hIs⟩ := node_state cfg bs hbs P addrs hst s0 hI p hc.2 (by omega)
    obtain ⟨s', hs', _, hm, _⟩ := process_window cfg bs hbs P addrs hst x p s hIs hc (by omega)
    unfold nodeMhp
    rw [hs]
    have : runChain s0 (x :: p).reverse = some s' := by
      rw [List.reverse_cons, runChain_append, hs]
      show runChain s [x] = some s'
      rw [runChain, hs']; rfl
    rw [this]
    exact hm
  · intro p h hc hl hw hq
    obtain ⟨s, hs, hIs⟩ := node_state cfg bs hbs P addrs hst s0 hI p hc (by omega)
    unfold nodeMhp; rw [hs]
    exact hIs.mhp_inwin h hw hq
  · intro r hc hl
    obtain ⟨s, hs, hIs⟩ := node_state cfg bs hbs P addrs hst s0 hI r hc (by omega)
    unfold nodeMhpc; rw [hs]
    exact hIs.mhpc_att'

end LiskVerif.BFTSpec

namespace LiskVerif.BFTSpecDyn
open LiskVerif LiskVerif.BFT LiskVerif.BFTSpec

/-- the numerical "bounded change" condition between the parameters `P0` of a block and the
parameters `P1` of a conflicting block at the same or a greater height -/
def Bound (byz : Bytes → Bool) (P0 P1 : PSet) : Prop :=
  wsumB P1.validators byz + P0.total + gain P0 P1 < P0.precommitThreshold + P1.pvThr

/-- `CrossOK` from the numerical condition on the parameters of every pair of conflicting blocks
`y :: b'` (lower) and `z :: c'` (at least as high) of the tree -/
theorem crossOK_of_bound (D : DynCfg) (Tr : List (List Header)) (byz : Bytes → Bool)
    (hnd : ∀ p, InTree Tr p → ((D.par p).validators.map (·.address)).Nodup)
    (hhon : ∀ p, InTree Tr p → ∀ v ∈ (D.par p).validators, byz v.address = false → HonestR Tr v.address)
    (hb : ∀ (y : Header) (b' : List Header) (z : Header) (c' : List Header),
      InTree Tr (y :: b') → InTree Tr (z :: c') → b'.length ≤ c'.length → ¬ (y :: b' <:+ z :: c') →
      Bound byz (D.par b') (D.par c')) : CrossOK D Tr := by
  intro t0 t1 b ht0 ht1 hbs hnb h hh hle
  cases b with
  | nil => exact absurd List.nil_suffix hnb
  | cons y b' =>
    have hP0 : parAt D t0 (D.genesis + (y :: b').length) = D.par b' := by
      rw [parAt_suffix D hbs (by omega)]
      unfold parAt
      have : D.genesis + (y :: b').length + 1 - (D.genesis + (y :: b').length) = 1 := by omega
      rw [this]; rfl
    simp only [List.length_cons] at hh
    -- the block of height `h` on `t1`
    have hd : D.genesis + t1.length - h < t1.length := by omega
    have hc : t1.drop (D.genesis + t1.length - h) =
        t1[D.genesis + t1.length - h] :: t1.drop (D.genesis + t1.length + 1 - h) := by
      rw [List.drop_eq_getElem_cons hd]
      congr 2
      omega
    have hcs : t1[D.genesis + t1.length - h] :: t1.drop (D.genesis + t1.length + 1 - h) <:+ t1 := by
      rw [← hc]; exact List.drop_suffix _ _
    have hP1 : parAt D t1 h = D.par (t1.drop (D.genesis + t1.length + 1 - h)) := rfl
    rw [hP0, hP1]
    have hc'in : InTree Tr (t1.drop (D.genesis + t1.length + 1 - h)) := ht1.suffix (List.drop_suffix _ _)
    apply crossQ_of_bound Tr _ _ byz (hnd _ hc'in) (hhon _ hc'in)
    apply hb y b' _ _ (ht0.suffix hbs) (ht1.suffix hcs)
    · simp only [List.length_drop]; omega
    · intro hsuf
      exact hnb (hsuf.trans hcs)

end LiskVerif.BFTSpecDyn
