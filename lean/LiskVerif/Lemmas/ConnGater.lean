/-
Helper lemmas for the connection gater / rate limiter models (association lists, one-step facts).
-/
import LiskVerif.Model.RateLimit

namespace LiskVerif.ConnGater

/-! ### the score table -/

def keys (m : Scores) : List IP := m.map Prod.fst

/-- a Go map has one entry per key -/
def NoDupKeys (m : Scores) : Prop := (keys m).Nodup

theorem find_none_of_not_mem {m : Scores} {ip : IP} (h : ip ∉ keys m) : find m ip = none := by
  induction m with
  | nil => rfl
  | cons e r ih =>
    obtain ⟨k, v⟩ := e
    simp only [keys, List.map_cons, List.mem_cons, not_or] at h
    have hk : k ≠ ip := fun hh => h.1 hh.symm
    simp only [find, hk, if_false]
    exact ih h.2

theorem find_put (m : Scores) (ip : IP) (v : PeerInfo) (ip' : IP) :
    find (put m ip v) ip' = if ip = ip' then some v else find m ip' := by
  induction m with
  | nil =>
    simp only [put, find]
  | cons e r ih =>
    obtain ⟨k, w⟩ := e
    by_cases hk : k = ip
    · subst hk
      simp only [put, if_true, find]
      by_cases h : k = ip' <;> simp [h]
    · simp only [put, hk, if_false, find, ih]
      by_cases h1 : k = ip'
      · subst h1
        have : ¬ ip = k := fun hh => hk hh.symm
        simp [this]
      · simp [h1]

theorem mem_keys_put (m : Scores) (ip : IP) (v : PeerInfo) (k : IP) :
    k ∈ keys (put m ip v) ↔ k = ip ∨ k ∈ keys m := by
  induction m with
  | nil => simp [put, keys]
  | cons e r ih =>
    obtain ⟨a, w⟩ := e
    by_cases ha : a = ip
    · subst ha
      simp only [put, if_true, keys, List.map_cons, List.mem_cons]
      constructor
      · intro h; exact Or.inr h
      · intro h
        rcases h with h | h
        · exact Or.inl h
        · exact h
    · simp only [put, ha, if_false]
      simp only [keys, List.map_cons, List.mem_cons] at ih ⊢
      rw [ih]
      constructor
      · rintro (h | h | h)
        · exact Or.inr (Or.inl h)
        · exact Or.inl h
        · exact Or.inr (Or.inr h)
      · rintro (h | h | h)
        · exact Or.inr (Or.inl h)
        · exact Or.inl h
        · exact Or.inr (Or.inr h)

theorem nodup_put {m : Scores} (h : NoDupKeys m) (ip : IP) (v : PeerInfo) : NoDupKeys (put m ip v) := by
  induction m with
  | nil => simp [put, NoDupKeys, keys]
  | cons e r ih =>
    obtain ⟨a, w⟩ := e
    simp only [NoDupKeys, keys, List.map_cons, List.nodup_cons] at h
    by_cases ha : a = ip
    · subst ha
      simp only [put, if_true, NoDupKeys, keys, List.map_cons, List.nodup_cons]
      exact h
    · simp only [put, ha, if_false, NoDupKeys, keys, List.map_cons, List.nodup_cons]
      refine ⟨?_, ih h.2⟩
      intro hm
      have := (mem_keys_put r ip v a).1 hm
      rcases this with h1 | h1
      · exact ha h1
      · exact h.1 h1

theorem nodup_filter {m : Scores} (h : NoDupKeys m) (p : IP × PeerInfo → Bool) :
    NoDupKeys (m.filter p) := by
  induction m with
  | nil => simpa [NoDupKeys, keys] using h
  | cons e r ih =>
    simp only [NoDupKeys, keys, List.map_cons, List.nodup_cons] at h
    by_cases hp : p e = true
    · simp only [List.filter, hp, NoDupKeys, keys, List.map_cons, List.nodup_cons]
      refine ⟨?_, ih h.2⟩
      intro hm
      apply h.1
      simp only [List.mem_map] at hm ⊢
      obtain ⟨x, hx, hxe⟩ := hm
      exact ⟨x, (List.mem_filter.1 hx).1, hxe⟩
    · have hp' : p e = false := by simpa using hp
      simp only [List.filter, hp']
      exact ih h.2

/-- lookup after a value-based filter (needs unique keys) -/
theorem find_filter {m : Scores} (h : NoDupKeys m) (p : PeerInfo → Bool) (ip : IP) :
    find (m.filter fun e => p e.2) ip = (find m ip).filter p := by
  induction m with
  | nil => simp [find]
  | cons e r ih =>
    obtain ⟨k, v⟩ := e
    simp only [NoDupKeys, keys, List.map_cons, List.nodup_cons] at h
    have ihr := ih h.2
    by_cases hk : k = ip
    · subst hk
      have hnone : find r k = none := find_none_of_not_mem h.1
      by_cases hp : p v = true
      · simp [List.filter, hp, find, Option.filter]
      · have hp' : p v = false := by simpa using hp
        simp only [List.filter, hp', find, if_true, Option.filter]
        rw [ihr, hnone]
        simp [Option.filter]
    · by_cases hp : p v = true
      · simp only [List.filter, hp, find, hk, if_false]
        exact ihr
      · have hp' : p v = false := by simpa using hp
        simp only [List.filter, hp', find, hk, if_false]
        exact ihr

/-! ### block list -/

theorem mem_blockAddr (g : Gater) (ip k : IP) :
    k ∈ (blockAddr g ip).blocked ↔ k = ip ∨ k ∈ g.blocked := by
  unfold blockAddr
  by_cases h : ip ∈ g.blocked
  · simp only [h, if_true]
    constructor
    · intro hk; exact Or.inr hk
    · rintro (hk | hk)
      · subst hk; exact h
      · exact hk
  · simp only [h, if_false, List.mem_append, List.mem_singleton]
    constructor
    · rintro (hk | hk)
      · exact Or.inr hk
      · exact Or.inl hk
    · rintro (hk | hk)
      · exact Or.inr hk
      · exact Or.inl hk

theorem mem_unblockAddr (g : Gater) (ip k : IP) :
    k ∈ (unblockAddr g ip).blocked ↔ k ≠ ip ∧ k ∈ g.blocked := by
  unfold unblockAddr
  simp only [List.mem_filter, ne_eq, decide_eq_true_eq]
  constructor
  · rintro ⟨a, b⟩; exact ⟨b, a⟩
  · rintro ⟨a, b⟩; exact ⟨b, a⟩

@[simp] theorem blockAddr_peerScore (g : Gater) (ip : IP) : (blockAddr g ip).peerScore = g.peerScore := by
  unfold blockAddr; split <;> rfl
@[simp] theorem blockAddr_started (g : Gater) (ip : IP) : (blockAddr g ip).started = g.started := by
  unfold blockAddr; split <;> rfl
@[simp] theorem blockAddr_expSecs (g : Gater) (ip : IP) : (blockAddr g ip).expSecs = g.expSecs := by
  unfold blockAddr; split <;> rfl

def blockAll (g : Gater) (l : List (Option IP)) : Gater :=
  l.foldl (fun g o => match o with | some ip => blockAddr g ip | none => g) g

theorem blockAll_fields (l : List (Option IP)) (g : Gater) :
    (blockAll g l).peerScore = g.peerScore ∧ (blockAll g l).started = g.started
      ∧ (blockAll g l).expSecs = g.expSecs := by
  induction l generalizing g with
  | nil => exact ⟨rfl, rfl, rfl⟩
  | cons o r ih =>
    cases o with
    | none => exact ih g
    | some ip =>
      have := ih (blockAddr g ip)
      simpa [blockAll, List.foldl] using this

theorem mem_blockAll (l : List (Option IP)) (g : Gater) (k : IP) :
    k ∈ (blockAll g l).blocked ↔ some k ∈ l ∨ k ∈ g.blocked := by
  induction l generalizing g with
  | nil => simp [blockAll]
  | cons o r ih =>
    cases o with
    | none =>
      have := ih g
      simp only [blockAll, List.foldl] at this ⊢
      rw [this]
      simp
    | some ip =>
      have := ih (blockAddr g ip)
      simp only [blockAll, List.foldl] at this ⊢
      rw [this, mem_blockAddr]
      simp only [List.mem_cons, Option.some.injEq]
      constructor
      · rintro (h | h | h)
        · exact Or.inl (Or.inr h)
        · exact Or.inl (Or.inl h)
        · exact Or.inr h
      · rintro ((h | h) | h)
        · exact Or.inr (Or.inl h)
        · exact Or.inl h
        · exact Or.inr (Or.inr h)

theorem blacklist_eq (g : Gater) (l : List (Option IP)) :
    (blacklist g l).1 = if l.any (·.isNone) then g else blockAll g l := by
  unfold blacklist blockAll
  split <;> rfl

/-! ### one-step facts about addPenalty -/

theorem addPenalty_ok {g : Gater} (hs : g.started = true) (now : Nat) (ip : IP) (pid : Option Nat)
    (score : Int) :
    addPenalty g now ⟨some ip, pid⟩ score =
      (let old := find g.peerScore ip
       let newScore := match old with | some i => i.score + score | none => score
       let oldExp := match old with | some i => i.expiration | none => -1
       let exp : Int := if newScore ≥ maxPenaltyScore then ((now + g.expSecs : Nat) : Int) else oldExp
       ({ g with peerScore := put g.peerScore ip ⟨newScore, exp⟩ }, .ok newScore)) := by
  unfold addPenalty
  rw [hs]
  rfl

theorem addPenalty_fields (g : Gater) (now : Nat) (a : Addr) (s : Int) :
    (addPenalty g now a s).1.started = g.started ∧ (addPenalty g now a s).1.expSecs = g.expSecs
      ∧ (addPenalty g now a s).1.blocked = g.blocked := by
  unfold addPenalty
  by_cases hs : g.started = true
  · cases h : a.ip with
    | none => simp [hs]
    | some ip => simp [hs]
  · have : g.started = false := by simpa using hs
    simp [this]

theorem addPenalty_find_other (g : Gater) (now : Nat) (a : Addr) (s : Int) (ip : IP)
    (h : a.ip ≠ some ip) :
    find (addPenalty g now a s).1.peerScore ip = find g.peerScore ip := by
  unfold addPenalty
  by_cases hs : g.started = true
  · cases ha : a.ip with
    | none => simp [hs]
    | some ip' =>
      have hne : ip' ≠ ip := by
        intro hh; apply h; rw [ha, hh]
      simp [hs, find_put, hne]
  · have : g.started = false := by simpa using hs
    simp [this]

theorem addPenalty_nodup (g : Gater) (now : Nat) (a : Addr) (s : Int) (h : NoDupKeys g.peerScore) :
    NoDupKeys (addPenalty g now a s).1.peerScore := by
  unfold addPenalty
  by_cases hs : g.started = true
  · cases ha : a.ip with
    | none => simpa [hs] using h
    | some ip' => simpa [hs] using nodup_put h ip' _
  · have : g.started = false := by simpa using hs
    simpa [this] using h

end LiskVerif.ConnGater

namespace LiskVerif.RateLimit
open LiskVerif.ConnGater

/-! ### counters -/

theorem getCount_setCount (l : List (Nat × Nat)) (p v p' : Nat) :
    getCount (setCount l p v) p' = if p = p' then v else getCount l p' := by
  induction l with
  | nil => simp [setCount, getCount]
  | cons e r ih =>
    obtain ⟨a, c⟩ := e
    by_cases ha : a = p
    · subst ha
      simp only [setCount, if_true, getCount]
      by_cases h : a = p' <;> simp [h]
    · simp only [setCount, ha, if_false, getCount, ih]
      by_cases h1 : a = p'
      · subst h1
        have : ¬ p = a := fun hh => ha hh.symm
        simp [this]
      · simp [h1]

theorem findCounter_updCounter (cs : List Counter) (n : String) (f : Counter → Counter)
    (hf : ∀ c, (f c).name = c.name) (n' : String) :
    findCounter (updCounter cs n f) n' =
      if n = n' then (findCounter cs n).map f else findCounter cs n' := by
  induction cs with
  | nil => simp [updCounter, findCounter]
  | cons c r ih =>
    by_cases hc : c.name = n
    · subst hc
      simp only [updCounter, if_true, findCounter, hf]
      by_cases h1 : c.name = n' <;> simp [h1]
    · simp only [updCounter, hc, if_false, findCounter, ih]
      by_cases h1 : c.name = n'
      · have : ¬ n = n' := fun hh => hc (hh ▸ h1)
        simp [h1, this]
      · simp [h1]

theorem findCounter_map (cs : List Counter) (f : Counter → Counter)
    (hf : ∀ c, (f c).name = c.name) (n : String) :
    findCounter (cs.map f) n = (findCounter cs n).map f := by
  induction cs with
  | nil => simp [findCounter]
  | cons c r ih =>
    simp only [List.map_cons, findCounter, hf]
    by_cases h : c.name = n <;> simp [h, ih]

end LiskVerif.RateLimit
