/-
Facts about the bins of `updateSubtree` (Model/SMTImpl.lean): what every consumer of `BinsOK` needs (number of
bins, number of pairs, the only pair, the split in halves), `bytes.IsBitSet` reads the key bit, and the bins made
by `binIndexes` / `mkBins` satisfy `BinsOK` for the writes of the batch.
Core Lean only.
-/
import LiskVerif.Lemmas.SMTImplSem

namespace LiskVerif.SMTImpl
open LiskVerif LiskVerif.SMT

/-! ### consumers of `BinsOK` -/

/-- facts every consumer of `BinsOK` needs -/
theorem BinsOK.length {rem : Nat} {bins : List (List KV)} {ops : List Entry} (h : BinsOK rem bins ops) :
    bins.length = 2 ^ rem := by
  induction rem generalizing bins ops with
  | zero => simp only [BinsOK] at h; subst h; simp
  | succ rem ih =>
    obtain ⟨bl, br, hb, hl, _, hr⟩ := h
    have := ih hr
    subst hb
    rw [List.length_append, hl, this, Nat.pow_succ]; omega

theorem bins_binTotal_append (a b : List (List KV)) : binTotal (a ++ b) = binTotal a + binTotal b := by
  simp [binTotal]

/-- paths of the writes are long enough: every write has at least `rem` bits left -/
theorem BinsOK.total {rem : Nat} {bins : List (List KV)} {ops : List Entry} (h : BinsOK rem bins ops)
    (hp : ∀ o ∈ ops, rem ≤ o.path.length) : binTotal bins = ops.length := by
  induction rem generalizing bins ops with
  | zero => simp only [BinsOK] at h; subst h; simp [binTotal]
  | succ rem ih =>
    obtain ⟨bl, br, hb, _, hl, hr⟩ := h
    subst hb
    have h1 := ih hl (by
      intro o ho
      obtain ⟨e, he, hpe, _, _⟩ := mem_goL.mp ho
      have := hp e he
      rw [hpe] at this; simp only [List.length_cons] at this; omega)
    have h2 := ih hr (by
      intro o ho
      obtain ⟨e, he, hpe, _, _⟩ := mem_goR.mp ho
      have := hp e he
      rw [hpe] at this; simp only [List.length_cons] at this; omega)
    have h3 := length_goL_add_goR ops (by
      intro e he hn
      have := hp e he
      rw [hn] at this; simp at this)
    rw [bins_binTotal_append, h1, h2, h3]

theorem bins_firstKV_append_some {a : List (List KV)} {x : KV} (h : firstKV a = some x) (b : List (List KV)) :
    firstKV (a ++ b) = some x := by
  induction a with
  | nil => simp [firstKV] at h
  | cons c r ih =>
    cases c with
    | nil => simp only [firstKV, List.cons_append] at h ⊢; exact ih h
    | cons y t => simpa [firstKV] using h

theorem bins_firstKV_append_nils {a : List (List KV)} (h : ∀ c ∈ a, c = []) (b : List (List KV)) :
    firstKV (a ++ b) = firstKV b := by
  induction a with
  | nil => rfl
  | cons c r ih =>
    have hc : c = [] := h c (by simp)
    subst hc
    simp only [firstKV, List.cons_append]
    exact ih (fun c hc => h c (List.mem_cons_of_mem _ hc))

/-- no writes: all bins are empty -/
theorem bins_BinsOK_nil {rem : Nat} {bins : List (List KV)} (h : BinsOK rem bins []) : ∀ c ∈ bins, c = [] := by
  induction rem generalizing bins with
  | zero => simp only [BinsOK] at h; subst h; simp
  | succ rem ih =>
    obtain ⟨bl, br, hb, _, hl, hr⟩ := h
    subst hb
    intro c hc
    rcases List.mem_append.mp hc with hc | hc
    · exact ih hl c hc
    · exact ih hr c hc

theorem BinsOK.firstKV_single {rem : Nat} {bins : List (List KV)} {o : Entry} (h : BinsOK rem bins [o])
    (hp : rem ≤ o.path.length) : firstKV bins = some (kvOf o) := by
  induction rem generalizing bins o with
  | zero => simp only [BinsOK] at h; subst h; simp [firstKV]
  | succ rem ih =>
    obtain ⟨bl, br, hb, _, hl, hr⟩ := h
    subst hb
    match hpath : o.path with
    | [] => rw [hpath] at hp; simp at hp
    | false :: r =>
      rw [goL_cons_false o [] r hpath] at hl
      have := ih hl (by rw [hpath] at hp; simpa using hp)
      exact bins_firstKV_append_some this br
    | true :: r =>
      rw [goL_cons_true o [] r hpath] at hl
      rw [goR_cons_true o [] r hpath] at hr
      have := ih hr (by rw [hpath] at hp; simpa using hp)
      rw [bins_firstKV_append_nils (bins_BinsOK_nil hl)]
      exact this

theorem BinsOK.take_drop {rem : Nat} {bins : List (List KV)} {ops : List Entry} (h : BinsOK (rem + 1) bins ops) :
    BinsOK rem (bins.take (bins.length / 2)) (goL ops) ∧ BinsOK rem (bins.drop (bins.length / 2)) (goR ops) := by
  obtain ⟨bl, br, hb, hll, hl, hr⟩ := h
  have hrl := hr.length
  subst hb
  have : (bl ++ br).length / 2 = bl.length := by
    rw [List.length_append, hll, hrl]; omega
  rw [this, List.take_left', List.drop_left']
  · exact ⟨hl, hr⟩
  · rfl
  · rfl

/-! ### key bits -/

theorem bins_keyBits_getElem? (k : Bytes) (i : Nat) :
    (keyBits k)[i]? = (k[i / 8]?).map (fun x => x.toNat.testBit (7 - i % 8)) := by
  induction k generalizing i with
  | nil => simp [keyBits]
  | cons b r ih =>
    match i with
    | 0 | 1 | 2 | 3 | 4 | 5 | 6 | 7 => simp [keyBits, byteBits]
    | j + 8 =>
      have h1 : (j + 8) / 8 = j / 8 + 1 := by omega
      have h2 : (j + 8) % 8 = j % 8 := by omega
      rw [h1, h2, List.getElem?_cons_succ, ← ih j]
      show (byteBits b ++ keyBits r)[j + 8]? = _
      rw [List.getElem?_append_right (by simp [byteBits_length])]
      simp [byteBits_length]

/-- `bytes.IsBitSet` reads the key bit -/
theorem isBitSet_keyBits (k : Bytes) (i : Nat) (b : Bool) (h : (keyBits k)[i]? = some b) : isBitSet k i = .ok b := by
  rw [bins_keyBits_getElem?] at h
  unfold isBitSet
  cases hk : k[i / 8]? with
  | none => rw [hk] at h; simp at h
  | some x => rw [hk] at h; simp only [Option.map_some, Option.some.injEq] at h; simp [h]

/-! ### the bins of `updateSubtree` -/

/-- the number written by the first `n` bits of a path, most significant first -/
def bins_val : Nat → Bits → Nat
  | 0, _ => 0
  | _ + 1, [] => 0
  | n + 1, b :: r => (if b then 2 ^ n else 0) + bins_val n r

theorem bins_val_lt (n : Nat) (p : Bits) : bins_val n p < 2 ^ n := by
  induction n generalizing p with
  | zero => simp [bins_val]
  | succ n ih =>
    cases p with
    | nil => simp only [bins_val]; exact Nat.two_pow_pos _
    | cons b r =>
      have := ih r
      simp only [bins_val, Nat.pow_succ]
      split <;> omega

/-- the writes split by the number their next `rem` bits write -/
def bins_of (rem : Nat) (ops : List Entry) : List (List KV) :=
  (List.range (2 ^ rem)).map fun i => (ops.filter fun o => bins_val rem o.path == i).map kvOf

theorem bins_of_left (rem : Nat) (ops : List Entry) (hp : ∀ o ∈ ops, o.path ≠ []) (i : Nat) (hi : i < 2 ^ rem) :
    (ops.filter fun o => bins_val (rem + 1) o.path == i).map kvOf =
      ((goL ops).filter fun o => bins_val rem o.path == i).map kvOf := by
  induction ops with
  | nil => simp
  | cons o t ih =>
    have iht := ih (fun x hx => hp x (List.mem_cons_of_mem _ hx))
    match hpath : o.path with
    | [] => exact absurd hpath (hp o (by simp))
    | false :: r =>
      rw [goL_cons_false o t r hpath]
      simp only [List.filter_cons, hpath, bins_val, Bool.false_eq_true, ↓reduceIte, Nat.zero_add]
      split
      · simp only [List.map_cons, iht]; rfl
      · exact iht
    | true :: r =>
      rw [goL_cons_true o t r hpath]
      have : (bins_val (rem + 1) o.path == i) = false := by
        rw [hpath]; simp only [bins_val, ↓reduceIte, beq_eq_false_iff_ne, ne_eq]; omega
      rw [List.filter_cons, this]
      exact iht

theorem bins_of_right (rem : Nat) (ops : List Entry) (hp : ∀ o ∈ ops, o.path ≠ []) (i : Nat) :
    (ops.filter fun o => bins_val (rem + 1) o.path == 2 ^ rem + i).map kvOf =
      ((goR ops).filter fun o => bins_val rem o.path == i).map kvOf := by
  induction ops with
  | nil => simp
  | cons o t ih =>
    have iht := ih (fun x hx => hp x (List.mem_cons_of_mem _ hx))
    match hpath : o.path with
    | [] => exact absurd hpath (hp o (by simp))
    | true :: r =>
      rw [goR_cons_true o t r hpath]
      have : (bins_val (rem + 1) o.path == 2 ^ rem + i) = (bins_val rem r == i) := by
        rw [hpath]; simp only [bins_val, ↓reduceIte]
        rw [Bool.eq_iff_iff]; simp only [beq_iff_eq]; omega
      simp only [List.filter_cons, this]
      split
      · simp only [List.map_cons, iht]; rfl
      · exact iht
    | false :: r =>
      rw [goR_cons_false o t r hpath]
      have : (bins_val (rem + 1) o.path == 2 ^ rem + i) = false := by
        rw [hpath]; simp only [bins_val, Bool.false_eq_true, ↓reduceIte, Nat.zero_add, beq_eq_false_iff_ne, ne_eq]
        have := bins_val_lt rem r
        omega
      rw [List.filter_cons, this]
      exact iht

/-- splitting the writes by their next `rem` bits gives bins that are `BinsOK` -/
theorem bins_of_ok (rem : Nat) (ops : List Entry) (hp : ∀ o ∈ ops, rem ≤ o.path.length) :
    BinsOK rem (bins_of rem ops) ops := by
  induction rem generalizing ops with
  | zero =>
    simp only [BinsOK, bins_of, bins_val, Nat.pow_zero, List.range_one, List.map_cons, List.map_nil, beq_self_eq_true]
    rw [List.filter_eq_self.mpr (by simp)]
  | succ rem ih =>
    have hne : ∀ o ∈ ops, o.path ≠ [] := by
      intro o ho hn
      have := hp o ho
      rw [hn] at this; simp at this
    have hL := ih (goL ops) (by
      intro o ho
      obtain ⟨e, he, hpe, _, _⟩ := mem_goL.mp ho
      have := hp e he
      rw [hpe] at this; simp only [List.length_cons] at this; omega)
    have hR := ih (goR ops) (by
      intro o ho
      obtain ⟨e, he, hpe, _, _⟩ := mem_goR.mp ho
      have := hp e he
      rw [hpe] at this; simp only [List.length_cons] at this; omega)
    refine ⟨bins_of rem (goL ops), bins_of rem (goR ops), ?_, by simp [bins_of], hL, hR⟩
    have h2 : 2 ^ (rem + 1) = 2 ^ rem + 2 ^ rem := by rw [Nat.pow_succ]; omega
    unfold bins_of
    rw [h2, List.range_add, List.map_append, List.map_map]
    congr 1
    · apply List.map_congr_left
      intro i hi
      exact bins_of_left rem ops hne i (List.mem_range.mp hi)
    · apply List.map_congr_left
      intro i _
      exact bins_of_right rem ops hne i

/-! #### the bin index is the number written by the next key bits -/

theorem bins_keyBits_drop (k : Bytes) (b : Nat) : (keyBits k).drop (8 * b) = keyBits (k.drop b) := by
  induction b generalizing k with
  | zero => simp
  | succ b ih =>
    cases k with
    | nil => simp [keyBits]
    | cons x r =>
      have : 8 * (b + 1) = (byteBits x).length + 8 * b := by rw [byteBits_length]; omega
      show (byteBits x ++ keyBits r).drop (8 * (b + 1)) = _
      rw [this, List.drop_append, List.drop_of_length_le (by omega), Nat.add_sub_cancel_left, ih]
      simp

theorem bins_bit (n k : Nat) : (if n.testBit k = true then 2 ^ k else 0) = 2 ^ k * (n / 2 ^ k % 2) := by
  rw [Nat.testBit_eq_decide_div_mod_eq]
  rcases Nat.mod_two_eq_zero_or_one (n / 2 ^ k) with h | h <;> simp [h]

theorem bins_val_byte8 (x : UInt8) (r : Bits) : bins_val 8 (byteBits x ++ r) = x.toNat := by
  have hx : x.toNat < 256 := x.toNat_lt
  simp only [byteBits, bins_val, List.cons_append, bins_bit]
  omega

theorem bins_val_hi4 (x : UInt8) (r : Bits) : bins_val 4 (byteBits x ++ r) = x.toNat / 16 := by
  have hx : x.toNat < 256 := x.toNat_lt
  have h := fun k => bins_bit (x.toNat / 16) k
  have e7 : x.toNat.testBit 7 = (x.toNat / 16).testBit 3 := by
    rw [Nat.testBit_eq_decide_div_mod_eq, Nat.testBit_eq_decide_div_mod_eq]; congr 2; omega
  have e6 : x.toNat.testBit 6 = (x.toNat / 16).testBit 2 := by
    rw [Nat.testBit_eq_decide_div_mod_eq, Nat.testBit_eq_decide_div_mod_eq]; congr 2; omega
  have e5 : x.toNat.testBit 5 = (x.toNat / 16).testBit 1 := by
    rw [Nat.testBit_eq_decide_div_mod_eq, Nat.testBit_eq_decide_div_mod_eq]; congr 2; omega
  have e4 : x.toNat.testBit 4 = (x.toNat / 16).testBit 0 := by
    rw [Nat.testBit_eq_decide_div_mod_eq, Nat.testBit_eq_decide_div_mod_eq]; congr 2; omega
  simp only [byteBits, bins_val, List.cons_append, e7, e6, e5, e4, bins_bit]
  omega

theorem bins_val_lo4 (x : UInt8) (r : Bits) : bins_val 4 ((byteBits x ++ r).drop 4) = x.toNat % 16 := by
  simp only [byteBits, bins_val, List.cons_append, List.drop_succ_cons, List.drop_zero, bins_bit]
  omega

theorem bins_getBinIndex (c : Cfg) (height : Nat) (key : Bytes)
    (hs : (c.sth = 8 ∧ height % 8 = 0) ∨ (c.sth = 4 ∧ (height % 8 = 0 ∨ height % 8 = 4)))
    (hk : height + c.sth ≤ 8 * key.length) :
    getBinIndex c key height = .ok (bins_val c.sth ((keyBits key).drop height)) := by
  have hb : height / 8 < key.length := by rcases hs with ⟨h, _⟩ | ⟨h, _⟩ <;> omega
  obtain ⟨x, hget, hdrop⟩ : ∃ x, key[height / 8]? = some x ∧
      key.drop (height / 8) = x :: key.drop (height / 8 + 1) :=
    ⟨key[height / 8], List.getElem?_eq_getElem hb, List.drop_eq_getElem_cons hb⟩
  rcases hs with ⟨h8, hm⟩ | ⟨h4, hm⟩
  · have hh : height = 8 * (height / 8) := by omega
    have hd : (keyBits key).drop height = byteBits x ++ keyBits (key.drop (height / 8 + 1)) := by
      rw [show (keyBits key).drop height = (keyBits key).drop (8 * (height / 8)) by rw [← hh],
        bins_keyBits_drop, hdrop]; rfl
    rw [hd, h8, bins_val_byte8]
    simp [getBinIndex, h8, hget]
  · rcases hm with hm | hm
    · have hh : height = 8 * (height / 8) := by omega
      have hd : (keyBits key).drop height = byteBits x ++ keyBits (key.drop (height / 8 + 1)) := by
        rw [show (keyBits key).drop height = (keyBits key).drop (8 * (height / 8)) by rw [← hh],
          bins_keyBits_drop, hdrop]; rfl
      rw [hd, h4, bins_val_hi4]
      simp [getBinIndex, h4, hm, hget]
    · have hh : height = 8 * (height / 8) + 4 := by omega
      have hd : (keyBits key).drop height = (byteBits x ++ keyBits (key.drop (height / 8 + 1))).drop 4 := by
        rw [show (keyBits key).drop height = ((keyBits key).drop (8 * (height / 8))).drop 4 by
          rw [List.drop_drop, ← hh], bins_keyBits_drop, hdrop]; rfl
      rw [hd, h4, bins_val_lo4]
      simp [getBinIndex, h4, hm, hget]

theorem bins_binIndexes (c : Cfg) (height : Nat) (kvs : List KV)
    (hs : (c.sth = 8 ∧ height % 8 = 0) ∨ (c.sth = 4 ∧ (height % 8 = 0 ∨ height % 8 = 4)))
    (hk : ∀ kv ∈ kvs, height + c.sth ≤ 8 * kv.1.length) :
    binIndexes c height kvs = .ok (kvs.map fun kv => (bins_val c.sth ((keyBits kv.1).drop height), kv)) := by
  induction kvs with
  | nil => rfl
  | cons kv r ih =>
    have h1 := bins_getBinIndex c height kv.1 hs (hk kv (by simp))
    have h2 := ih (fun x hx => hk x (List.mem_cons_of_mem _ hx))
    simp only [binIndexes, h1, h2, List.map_cons]
    rfl

/-- the bins made by `updateSubtree` (8-bit subtrees at a byte boundary, 4-bit subtrees at a nibble boundary) -/
theorem mkBins_ok (c : Cfg) (height : Nat) (kvs : List KV)
    (hs : (c.sth = 8 ∧ height % 8 = 0) ∨ (c.sth = 4 ∧ (height % 8 = 0 ∨ height % 8 = 4)))
    (hk : ∀ kv ∈ kvs, height + c.sth ≤ 8 * kv.1.length) :
    ∃ ikvs, binIndexes c height kvs = .ok ikvs ∧ BinsOK c.sth (mkBins c.maxNodes ikvs) (kvs.map (opOf height)) := by
  refine ⟨_, bins_binIndexes c height kvs hs hk, ?_⟩
  have hok := bins_of_ok c.sth (kvs.map (opOf height)) (by
    intro o ho
    obtain ⟨kv, hkv, rfl⟩ := List.mem_map.mp ho
    have := hk kv hkv
    simp only [opOf, List.length_drop, keyBits_length]
    omega)
  have : mkBins c.maxNodes (kvs.map fun kv => (bins_val c.sth ((keyBits kv.1).drop height), kv)) =
      bins_of c.sth (kvs.map (opOf height)) := by
    unfold mkBins bins_of Cfg.maxNodes
    apply List.map_congr_left
    intro i _
    simp only [List.filter_map, List.map_map]
    rfl
  rw [this]
  exact hok

end LiskVerif.SMTImpl

#print axioms LiskVerif.SMTImpl.mkBins_ok
#print axioms LiskVerif.SMTImpl.BinsOK.length
#print axioms LiskVerif.SMTImpl.BinsOK.total
#print axioms LiskVerif.SMTImpl.BinsOK.firstKV_single
#print axioms LiskVerif.SMTImpl.BinsOK.take_drop
#print axioms LiskVerif.SMTImpl.isBitSet_keyBits
