/-
The database as a function of the chain: `spec`, the volatile keys, and the pointwise effect of
`processValidated` / `deleteBlock` on the database.
-/
import LiskVerif.Lemmas.NodeBatch

namespace LiskVerif.Node
open LiskVerif LiskVerif.DiffDB

abbrev Chain := List (Block × Exec)

/-- every database key that belongs to block `b` -/
def allKeys (b : Block) : List Bytes :=
  [kDiff b.hdr.height, kHeader b.hdr.id, kHeight b.hdr.height, kTxs b.hdr.id, kAssets b.hdr.id,
   kEvents b.hdr.height] ++ b.txs.map (fun t => kTx t.1)

def isStateKey (k : Bytes) : Prop := k.head? = some pState

/-- Keys on which `delete (apply B)` may differ from the state before: the finalized-height
marker, temporary blocks, state diffs of heights below the finalized height `fin` and the event
keys that the pruning scan of `saveBlock` returns for a bound `m ≤ fin`. -/
def Vol (fin : Nat) (k : Bytes) : Prop :=
  k = kFin ∨ k.head? = some 7 ∨ (k.head? = some 51 ∧ decU32 (k.drop 1) < fin) ∨
  (∃ m, m ≤ fin ∧ inRange (kEvents 0) (kEvents m) k = true)

theorem Vol_mono {f f' : Nat} (h : f ≤ f') {k : Bytes} (hv : Vol f k) : Vol f' k := by
  rcases hv with h1 | h1 | ⟨h1, h2⟩ | ⟨m, h1, h2⟩
  · exact Or.inl h1
  · exact Or.inr (Or.inl h1)
  · exact Or.inr (Or.inr (Or.inl ⟨h1, by omega⟩))
  · exact Or.inr (Or.inr (Or.inr ⟨m, by omega, h2⟩))

theorem inRange_events_head {a b : Nat} {k : Bytes} (h : inRange (kEvents a) (kEvents b) k = true) :
    k.head? = some 9 := by
  unfold inRange at h
  simp only [Bool.and_eq_true] at h
  exact head_of_between 9 _ _ k h.1 h.2

theorem Vol_not_state {f : Nat} {k : Bytes} (hv : Vol f k) : ¬ isStateKey k := by
  unfold isStateKey pState
  rcases hv with h1 | h1 | ⟨h1, _⟩ | ⟨m, _, h2⟩
  · subst h1; simp [kFin]
  · rw [h1]; simp
  · rw [h1]; simp
  · rw [inRange_events_head h2]; simp

theorem allKeys_not_state {b : Block} {k : Bytes} (h : k ∈ allKeys b) : ¬ isStateKey k := by
  unfold isStateKey pState
  unfold allKeys at h
  simp only [List.mem_append, List.mem_cons, List.mem_map, List.not_mem_nil, or_false] at h
  rcases h with (h | h | h | h | h | h) | ⟨t, _, h⟩
  all_goals (subst h; simp [kDiff, kHeader, kHeight, kTxs, kAssets, kEvents, kTx])

theorem clookup_some_mem (c : Cache) (k : Bytes) (cv : CV) (h : clookup c k = some cv) :
    (k, cv) ∈ c := by
  induction c with
  | nil => simp [clookup] at h
  | cons e r ih =>
    obtain ⟨a, b⟩ := e
    simp only [clookup] at h
    by_cases hk : a = k
    · simp [hk] at h; subst hk; subst h; exact List.mem_cons_self
    · simp [hk] at h; exact List.mem_cons_of_mem _ (ih h)

theorem stateVal_none_of_not_state (ov : Cache) (hs : ∀ e ∈ ov, e.1.head? = some pState) (k : Bytes)
    (hk : ¬ isStateKey k) : stateVal ov k = none := by
  apply stateVal_none_of_not_key
  cases hc : clookup ov k with
  | none => rfl
  | some cv => exact absurd (hs _ (clookup_some_mem ov k cv hc)) hk

/-! ### the database as a function of the chain -/

/-- the writes of `processValidated` that are not volatile -/
def persistOps (cd : Codecs) (b : Block) (x : Exec) : List BOp :=
  .set (kDiff b.hdr.height) (cd.encDiff (diffOf x.overlay)) :: blockSetOps b x.events

/-- the persistent content of the database after the blocks of `c` (newest first) were applied
on top of the database `base` -/
def spec (cd : Codecs) (base : Store) : Chain → Bytes → Option Bytes
  | [], k => slookup base k
  | (b, x) :: c, k =>
    match bval (persistOps cd b x) k with
    | some v => v
    | none =>
      match stateVal x.overlay k with
      | some v => v
      | none => spec cd base c k

theorem persistOps_keys (cd : Codecs) (b : Block) (x : Exec) :
    ∀ op ∈ persistOps cd b x, op.key ∈ allKeys b := by
  intro op hop
  unfold persistOps blockSetOps at hop
  unfold allKeys
  by_cases ht : b.txs.isEmpty = true <;> by_cases he : x.events.isEmpty = true <;>
    by_cases ha : b.assets.isEmpty = true <;>
    simp only [ht, he, ha, if_true, if_false, List.mem_cons, List.mem_append, List.mem_map,
      List.not_mem_nil, or_false, false_or, List.append_nil, Bool.false_eq_true] at hop ⊢
  all_goals
    repeat' (apply Or.elim hop <;> (clear hop; intro hop))
  all_goals first
    | (obtain ⟨t, ht', hop⟩ := hop; subst hop; right; exact ⟨t, ht', rfl⟩)
    | (subst hop; simp [BOp.key])

theorem removeOps_keys (b : Block) (st : Bool) :
    ∀ op ∈ BOp.del (kDiff b.hdr.height) :: removeBlockOps b st,
      op.key ∈ allKeys b ∨ op.key = kTemp b.hdr.height := by
  intro op hop
  unfold removeBlockOps at hop
  unfold allKeys
  by_cases ht : b.txs.isEmpty = true <;> by_cases ha : b.assets.isEmpty = true <;> cases st <;>
    simp only [ht, ha, if_true, if_false, List.mem_cons, List.mem_append, List.mem_map,
      List.not_mem_nil, or_false, false_or, List.append_nil, Bool.false_eq_true] at hop ⊢
  all_goals
    repeat' (apply Or.elim hop <;> (clear hop; intro hop))
  all_goals first
    | (obtain ⟨t, ht', hop⟩ := hop; subst hop; left; right; exact ⟨t, ht', rfl⟩)
    | (subst hop; simp [BOp.key])

theorem spec_cons_other (cd : Codecs) (base : Store) (b : Block) (x : Exec) (c : Chain) (k : Bytes)
    (hs : ∀ e ∈ x.overlay, e.1.head? = some pState)
    (hk : k ∉ allKeys b) (hst : ¬ isStateKey k) :
    spec cd base ((b, x) :: c) k = spec cd base c k := by
  simp only [spec]
  have h1 : bval (persistOps cd b x) k = none :=
    bval_none _ _ (fun op hop he => hk (by rw [← he]; exact persistOps_keys cd b x op hop))
  rw [h1, stateVal_none_of_not_state _ hs k hst]

end LiskVerif.Node

namespace LiskVerif.Node
open LiskVerif LiskVerif.DiffDB

/-! ### processValidated, key by key -/

/-- the finalized height `processValidated` stores -/
def nextFin (fin mhpc : Nat) : Nat := if fin < mhpc then mhpc else fin

theorem le_nextFin (fin mhpc : Nat) : fin ≤ nextFin fin mhpc := by unfold nextFin; split <;> omega

theorem nextFin_eq_max (fin mhpc : Nat) : nextFin fin mhpc = max fin mhpc := by
  unfold nextFin; split <;> omega

theorem diffPrune_vol (db : Store) (mh : Nat) : ∀ op ∈ diffPruneOps db mh, Vol mh op.key := by
  intro op hop
  unfold diffPruneOps at hop
  simp only [List.mem_map, List.mem_filter, decide_eq_true_eq] at hop
  obtain ⟨kv, ⟨hmem, hlt⟩, rfl⟩ := hop
  have := (C12_db_iterate_mem db [51] false kv).mp hmem
  exact Or.inr (Or.inr (Or.inl ⟨(hasPrefix_one kv.1 51).mp this.2, hlt⟩))

theorem eventPrune_vol (cfg : Cfg) (db : Store) (h nf : Nat) :
    ∀ op ∈ eventPruneOps cfg db h nf, Vol nf op.key := by
  intro op hop
  unfold eventPruneOps at hop
  split at hop
  · simp only at hop
    split at hop
    · simp only [List.mem_map] at hop
      obtain ⟨kv, hmem, rfl⟩ := hop
      have := (C12_db_range_mem db _ _ false kv).mp hmem
      refine Or.inr (Or.inr (Or.inr ⟨eventPruneBound cfg h nf, ?_, ?_⟩))
      · unfold eventPruneBound; omega
      · unfold inRange; simp [this.2.1, this.2.2, BOp.key]
    · cases hop
  · cases hop

theorem applyOps_bval (cd : Codecs) (cfg : Cfg) (db : Store) (fin : Nat) (b : Block) (x : Exec)
    (rt : Bool) (k : Bytes) (hk : ¬ Vol (nextFin fin x.mhpc) k) :
    bval (applyOps cd cfg db fin b x rt) k = bval (persistOps cd b x) k := by
  have hne : ∀ op : BOp, Vol (nextFin fin x.mhpc) op.key → op.key ≠ k := by
    intro op hv he; exact hk (he ▸ hv)
  have h1 : bval (if decide (fin < x.mhpc) = true then diffPruneOps db x.mhpc else []) k = none := by
    apply bval_none
    intro op hop
    split at hop
    · rename_i hr
      have hr' : fin < x.mhpc := by simpa using hr
      apply hne
      have := diffPrune_vol db x.mhpc op hop
      simpa [nextFin, hr'] using this
    · cases hop
  have h2 : bval (eventPruneOps cfg db b.hdr.height (nextFin fin x.mhpc)) k = none :=
    bval_none _ _ (fun op hop => hne op (eventPrune_vol cfg db _ _ op hop))
  have h3 : bval (if rt = true then [BOp.del (kTemp b.hdr.height)] else []) k = none := by
    apply bval_none
    intro op hop
    split at hop
    · simp only [List.mem_cons, List.not_mem_nil, or_false] at hop
      subst hop
      apply hne
      exact Or.inr (Or.inl (by simp [BOp.key, kTemp]))
    · cases hop
  have h4 : bval [BOp.set kFin (encU32 (nextFin fin x.mhpc))] k = none := by
    apply bval_none
    intro op hop
    simp only [List.mem_cons, List.not_mem_nil, or_false] at hop
    subst hop
    exact hne _ (Or.inl rfl)
  unfold applyOps saveBlockOps persistOps
  simp only [nextFin] at h2 h4 ⊢
  have e : (BOp.set (kDiff b.hdr.height) (cd.encDiff (diffOf x.overlay)) :: blockSetOps b x.events) =
      [BOp.set (kDiff b.hdr.height) (cd.encDiff (diffOf x.overlay))] ++ blockSetOps b x.events := rfl
  rw [e]
  simp only [decide_eq_true_eq] at h1 ⊢
  simp only [bval_append, h1, h2, h3, h4]

end LiskVerif.Node
