/-
  More lemmas for C13 (Model/Crash.lean). Nothing here changes the model; the definitions below are
  *specification-level* additions on top of it:

  1. `StepOK` / `delta`: monitor-accepted runs, their durable effect, independence of the batches a
     former step left in process memory; crash points inside a *sequence* of steps.
  2. `Storage` / `PebbleAssumption`: an abstract durable store as the engine sees pebble, with the
     ONE assumption the property rests on stated as a `Prop`: `Apply(batch, Sync)` of a batch of
     ANY size is all-or-nothing at a crash, and a crash while no `Apply` is in flight (this
     includes a crash while the store is being re-opened) loses nothing. `SMach` runs the model's
     events on such a store; `CrashAt` are the states a restart can find (crash between two events
     or inside a `Write`).
  3. `walStorage`: a write-ahead-log instance (records, a torn tail that recovery discards) that
     satisfies the assumption; `opwiseStorage`: a store that applies a batch key by key and does not.
  4. `Reach`: executions with any number of steps, crashes and restarts.
  5. `Stmt.sites`: all action sites of a skeleton; every action of every path is one of them.
  6. The restart decision of `Executer.Init` on the abstract node database.
-/
import LiskVerif.Lemmas.Crash

namespace LiskVerif.Crash

/-! ## 1. Accepted runs and sequences of steps -/

section Steps
variable {κ ν : Type}

/-- a run the single-write monitor accepts from its initial state: what `singleWrite s` gives for
    every path of `s` -/
def StepOK (evs : List (Ev κ ν)) : Prop := ∃ st', runMon St.init (evs.map Ev.abs) = some st'

theorem stepOK_of_singleWrite {s : Stmt} (hs : singleWrite s = true) {evs : List (Ev κ ν)} {o : Out}
    (hex : Exec s (evs.map Ev.abs) o) : StepOK evs := by
  obtain ⟨st', h, _⟩ := accept_of_singleWriteFrom hs hex
  exact ⟨st', h⟩

/-- the durable effect of a run: the batches it appends to an empty history -/
def delta (evs : List (Ev κ ν)) : List (List (Op κ ν)) := ((⟨[], []⟩ : Mach κ ν).run evs).hist

theorem hist_of_accept {p : List (Ev κ ν)} {st1 : St} (h : runMon St.init (p.map Ev.abs) = some st1)
    (m0 : Mach κ ν) :
    (st1.written = true → (m0.run p).hist = m0.hist ++ [stagedOps p]) ∧
    (st1.written = false → (m0.run p).hist = m0.hist) :=
  final_of_accept p none st1 h m0 (fun _ h => by cases h)

/-- the effect of an accepted run does not depend on what former steps left in process memory -/
theorem run_hist_delta {evs : List (Ev κ ν)} (hok : StepOK evs) (m : Mach κ ν) :
    (m.run evs).hist = m.hist ++ delta evs := by
  obtain ⟨st', h⟩ := hok
  unfold delta
  cases hw : st'.written with
  | false =>
    rw [(hist_of_accept h m).2 hw, (hist_of_accept h ⟨[], []⟩).2 hw]; simp
  | true =>
    rw [(hist_of_accept h m).1 hw, (hist_of_accept h ⟨[], []⟩).1 hw]; simp

/-- the effect of an accepted run is nothing or ONE batch with everything it staged -/
theorem delta_cases {evs : List (Ev κ ν)} (hok : StepOK evs) :
    delta evs = [] ∨ delta evs = [stagedOps evs] := by
  obtain ⟨st', h⟩ := hok
  unfold delta
  cases hw : st'.written with
  | false => left; exact (hist_of_accept h ⟨[], []⟩).2 hw
  | true => right; rw [(hist_of_accept h ⟨[], []⟩).1 hw]; simp

/-- **before or after**: at any crash point of an accepted run, from any machine state, the durable
    history is the one before the run or the one after the complete run -/
theorem prefix_hist_cases {cur p : List (Ev κ ν)} (hok : StepOK cur) (hp : p <+: cur) (m : Mach κ ν) :
    (m.run p).hist = m.hist ∨ (m.run p).hist = (m.run cur).hist := by
  obtain ⟨q, rfl⟩ := hp
  obtain ⟨st', h⟩ := hok
  have h' := h
  rw [List.map_append] at h'
  obtain ⟨st1, h1, h2⟩ := runMon_append_split h'
  cases hw : st1.written with
  | false => exact Or.inl ((hist_of_accept h1 m).2 hw)
  | true =>
    right
    obtain ⟨hq, hw'⟩ := no_staging_after_write q st1 st' hw h2
    rw [(hist_of_accept h1 m).1 hw, (hist_of_accept h m).1 hw', stagedOps_append, hq, List.append_nil]

theorem stepOK_prefix {cur p : List (Ev κ ν)} (hok : StepOK cur) (hp : p <+: cur) : StepOK p := by
  obtain ⟨q, rfl⟩ := hp
  obtain ⟨st', h⟩ := hok
  rw [List.map_append] at h
  obtain ⟨st1, h1, _⟩ := runMon_append_split h
  exact ⟨st1, h1⟩

/-- a prefix of `a ++ b` is a prefix of `a` or `a` followed by a prefix of `b` -/
theorem prefix_append_cases {α : Type} : ∀ (a b p : List α), p <+: a ++ b →
    p <+: a ∨ ∃ t, p = a ++ t ∧ t <+: b
  | [], b, p, h => Or.inr ⟨p, rfl, h⟩
  | x :: a, b, [], _ => Or.inl (List.nil_prefix)
  | x :: a, b, y :: p, h => by
    rw [List.cons_append, List.cons_prefix_cons] at h
    obtain ⟨rfl, h⟩ := h
    cases prefix_append_cases a b p h with
    | inl h1 => exact Or.inl (List.cons_prefix_cons.mpr ⟨rfl, h1⟩)
    | inr h1 =>
      obtain ⟨t, rfl, ht⟩ := h1
      exact Or.inr ⟨t, rfl, ht⟩

/-- a crash point inside a non-empty sequence of steps lies in one of them: the steps before it
    are complete -/
theorem prefix_flatten_split {α : Type} : ∀ (steps : List (List α)) (p : List α), steps ≠ [] →
    p <+: steps.flatten →
    ∃ pre cur post p', steps = pre ++ cur :: post ∧ p = pre.flatten ++ p' ∧ p' <+: cur
  | [], _, h, _ => absurd rfl h
  | c :: r, p, _, hp => by
    rw [List.flatten_cons] at hp
    cases prefix_append_cases c r.flatten p hp with
    | inl h => exact ⟨[], c, r, p, rfl, by simp, h⟩
    | inr h =>
      obtain ⟨t, rfl, ht⟩ := h
      by_cases hr : r = []
      · subst hr
        simp only [List.flatten_nil, List.prefix_nil] at ht
        subst ht
        exact ⟨[], c, [], c, rfl, by simp, List.prefix_refl _⟩
      · obtain ⟨pre, cur, post, p', e1, e2, e3⟩ := prefix_flatten_split r t hr ht
        refine ⟨c :: pre, cur, post, p', by rw [e1]; rfl, by rw [e2]; simp, e3⟩

/-- the durable history after a sequence of accepted steps -/
theorem runs_hist : ∀ (steps : List (List (Ev κ ν))), (∀ evs, evs ∈ steps → StepOK evs) →
    ∀ m : Mach κ ν, (m.run steps.flatten).hist = m.hist ++ steps.flatMap delta
  | [], _, m => by simp [Mach.run]
  | c :: r, h, m => by
    rw [List.flatten_cons, run_append, runs_hist r (fun e he => h e (List.mem_cons_of_mem _ he)),
      run_hist_delta (h c List.mem_cons_self)]
    simp [List.flatMap_cons]

end Steps

/-! ## 2. Abstract durable store; the assumption on pebble -/

/-- a durable store as the engine sees pebble through `pkg/db` -/
structure Storage (σ κ ν : Type) where
  /-- the database content a process that opens the store sees -/
  content : σ → DBOf κ ν
  /-- `DB.Write(batch)` = `pebble.Apply(batch, Sync)` has returned -/
  apply : σ → List (Op κ ν) → σ
  /-- what a restart may find if the process died while no `Apply` was in flight (in particular:
      while a former crash was being recovered) -/
  crashIdle : σ → σ → Prop
  /-- what a restart may find if the process died inside `Apply(batch, Sync)` -/
  crashApply : σ → List (Op κ ν) → σ → Prop

/-- **The assumption on pebble** (trusted, not proved about pebble): a synced `Apply` of a batch —
    of ANY size, `b` is an arbitrary list — is durable once it returned and all-or-nothing if the
    process dies inside it; dying while idle / while recovering loses nothing. -/
structure PebbleAssumption {σ κ ν : Type} [DecidableEq κ] (S : Storage σ κ ν) : Prop where
  apply_content : ∀ s b, S.content (S.apply s b) = applyBatch (S.content s) b
  crash_idle : ∀ s s', S.crashIdle s s' → S.content s' = S.content s
  crash_apply : ∀ s b s', S.crashApply s b s' →
    S.content s' = S.content s ∨ S.content s' = applyBatch (S.content s) b

/-- the process: a store and the batches in process memory -/
structure SMach (σ κ ν : Type) where
  store : σ
  pend : List (String × List (Op κ ν))

section StorageMachine
variable {σ κ ν : Type}

def SMach.pendOf (m : SMach σ κ ν) (b : String) : List (Op κ ν) := (m.pend.lookup b).getD []

/-- the model's events on a store (same as `Mach.step`, the history replaced by the store) -/
def SMach.step (S : Storage σ κ ν) (m : SMach σ κ ν) : Ev κ ν → SMach σ κ ν
  | .newBatch b => { m with pend := (b, []) :: m.pend }
  | .batchOp b op => { m with pend := (b, m.pendOf b ++ [op]) :: m.pend }
  | .write b => { m with store := S.apply m.store (m.pendOf b) }
  | .direct op => { m with store := S.apply m.store [op] }
  | .other _ => m

def SMach.run (S : Storage σ κ ν) (m : SMach σ κ ν) (evs : List (Ev κ ν)) : SMach σ κ ν :=
  evs.foldl (SMach.step S) m

theorem srun_append (S : Storage σ κ ν) (m : SMach σ κ ν) (p q : List (Ev κ ν)) :
    SMach.run S m (p ++ q) = SMach.run S (SMach.run S m p) q := by
  simp [SMach.run, List.foldl_append]

/-- the store states a restart can find when the process dies somewhere in the run `evs`:
    between two events, inside a `Write`, or inside a direct `Set`/`Del` -/
inductive CrashAt (S : Storage σ κ ν) (m0 : SMach σ κ ν) (evs : List (Ev κ ν)) : σ → Prop where
  | idle (p : List (Ev κ ν)) (s' : σ) : p <+: evs → S.crashIdle (SMach.run S m0 p).store s' →
      CrashAt S m0 evs s'
  | inWrite (p : List (Ev κ ν)) (b : String) (s' : σ) : p ++ [Ev.write b] <+: evs →
      S.crashApply (SMach.run S m0 p).store ((SMach.run S m0 p).pendOf b) s' → CrashAt S m0 evs s'
  | inDirect (p : List (Ev κ ν)) (op : Op κ ν) (s' : σ) : p ++ [Ev.direct op] <+: evs →
      S.crashApply (SMach.run S m0 p).store [op] s' → CrashAt S m0 evs s'

variable [DecidableEq κ]

/-- simulation by the model's history machine -/
def Sim (S : Storage σ κ ν) (c0 : DBOf κ ν) (m : SMach σ κ ν) (mm : Mach κ ν) : Prop :=
  m.pend = mm.pend ∧ S.content m.store = dbOf c0 mm.hist

theorem sim_step {S : Storage σ κ ν} (hS : PebbleAssumption S) {c0 : DBOf κ ν} {m : SMach σ κ ν}
    {mm : Mach κ ν} (h : Sim S c0 m mm) (e : Ev κ ν) : Sim S c0 (SMach.step S m e) (mm.step e) := by
  obtain ⟨hp, hc⟩ := h
  have hpo : ∀ b, m.pendOf b = mm.pendOf b := fun b => by simp [SMach.pendOf, Mach.pendOf, hp]
  cases e with
  | newBatch b => exact ⟨by simp [SMach.step, Mach.step, hp], hc⟩
  | batchOp b op => exact ⟨by simp [SMach.step, Mach.step, hp, hpo], hc⟩
  | write b =>
    refine ⟨hp, ?_⟩
    simp only [SMach.step, Mach.step]
    rw [hS.apply_content, dbOf_append_one, hc, hpo]
  | direct op =>
    refine ⟨hp, ?_⟩
    simp only [SMach.step, Mach.step]
    rw [hS.apply_content, dbOf_append_one, hc]
  | other a => exact ⟨hp, hc⟩

theorem sim_run {S : Storage σ κ ν} (hS : PebbleAssumption S) {c0 : DBOf κ ν} :
    ∀ (evs : List (Ev κ ν)) {m : SMach σ κ ν} {mm : Mach κ ν}, Sim S c0 m mm →
      Sim S c0 (SMach.run S m evs) (mm.run evs)
  | [], _, _, h => h
  | e :: l, _, _, h => by
    simpa [SMach.run, Mach.run] using sim_run hS l (sim_step hS h e)

/-- the content of the store after a run is the model's database after the same run -/
theorem srun_content {S : Storage σ κ ν} (hS : PebbleAssumption S) (m : SMach σ κ ν)
    (evs : List (Ev κ ν)) :
    S.content (SMach.run S m evs).store =
      dbOf (S.content m.store) ((⟨[], m.pend⟩ : Mach κ ν).run evs).hist :=
  (sim_run hS evs (c0 := S.content m.store) (m := m) (mm := ⟨[], m.pend⟩) ⟨rfl, rfl⟩).2

/-- **Refinement of the crash semantics.** Whatever a restart finds after the process died anywhere
    in a run — also inside a `Write` — has the content of the store at some event boundary of the
    run: the model's "a crash leaves the history at a prefix of the run" loses no behaviour. No
    hypothesis on the run. -/
theorem crashAt_refines {S : Storage σ κ ν} (hS : PebbleAssumption S) {m0 : SMach σ κ ν}
    {evs : List (Ev κ ν)} {s' : σ} (h : CrashAt S m0 evs s') :
    ∃ q, q <+: evs ∧ S.content s' = S.content (SMach.run S m0 q).store := by
  cases h with
  | idle p s' hp hc => exact ⟨p, hp, hS.crash_idle _ _ hc⟩
  | inWrite p b s' hp hc =>
    cases hS.crash_apply _ _ _ hc with
    | inl h => exact ⟨p, List.IsPrefix.trans (List.prefix_append _ _) hp, h⟩
    | inr h =>
      refine ⟨p ++ [Ev.write b], hp, ?_⟩
      rw [h, srun_append]
      simp [SMach.run, SMach.step, hS.apply_content]
  | inDirect p op s' hp hc =>
    cases hS.crash_apply _ _ _ hc with
    | inl h => exact ⟨p, List.IsPrefix.trans (List.prefix_append _ _) hp, h⟩
    | inr h =>
      refine ⟨p ++ [Ev.direct op], hp, ?_⟩
      rw [h, srun_append]
      simp [SMach.run, SMach.step, hS.apply_content]

/-- the content after an accepted step: the old content with the step's effect applied -/
theorem srun_step_content {S : Storage σ κ ν} (hS : PebbleAssumption S) (m : SMach σ κ ν)
    {evs : List (Ev κ ν)} (hok : StepOK evs) :
    S.content (SMach.run S m evs).store = dbOf (S.content m.store) (delta evs) := by
  rw [srun_content hS, run_hist_delta hok]; rfl

/-- at an event boundary inside an accepted step the store has the content before the step or the
    content after the complete step -/
theorem srun_prefix_cases {S : Storage σ κ ν} (hS : PebbleAssumption S) (m : SMach σ κ ν)
    {evs q : List (Ev κ ν)} (hok : StepOK evs) (hq : q <+: evs) :
    S.content (SMach.run S m q).store = S.content m.store ∨
    S.content (SMach.run S m q).store = S.content (SMach.run S m evs).store := by
  rw [srun_content hS, srun_content hS]
  cases prefix_hist_cases hok hq (⟨[], m.pend⟩ : Mach κ ν) with
  | inl h1 => left; rw [h1]; rfl
  | inr h1 => right; rw [h1]

/-- **before or after, on the store**: a restart after a crash anywhere in an accepted step (from
    any process state) finds the content before the step or the content after the complete step -/
theorem crashAt_before_or_after {S : Storage σ κ ν} (hS : PebbleAssumption S) (m : SMach σ κ ν)
    {evs : List (Ev κ ν)} (hok : StepOK evs) {s' : σ} (h : CrashAt S m evs s') :
    S.content s' = S.content m.store ∨ S.content s' = S.content (SMach.run S m evs).store := by
  obtain ⟨q, hq, hc⟩ := crashAt_refines hS h
  rw [hc]
  exact srun_prefix_cases hS m hok hq

end StorageMachine

/-! ## 3. A write-ahead-log store (satisfies the assumption) and a key-by-key store (does not) -/

section Wal
variable {κ ν : Type}

/-- a WAL record: a complete batch record (checksum good) or a torn one (a partial write) -/
inductive Rec (κ ν : Type) where
  | full (b : List (Op κ ν))
  | torn

/-- log replay: complete records in order; the first torn record and everything behind it is
    discarded -/
def recoverWal : List (Rec κ ν) → List (List (Op κ ν))
  | .full b :: r => b :: recoverWal r
  | _ => []

/-- the log as recovery leaves it (torn tail truncated) -/
def cleanWal (w : List (Rec κ ν)) : List (Rec κ ν) := (recoverWal w).map Rec.full

theorem recoverWal_full_append (l : List (List (Op κ ν))) (r : List (Rec κ ν)) :
    recoverWal (l.map Rec.full ++ r) = l ++ recoverWal r := by
  induction l with
  | nil => rfl
  | cons b l ih => simp [recoverWal, ih]

theorem recoverWal_full (l : List (List (Op κ ν))) : recoverWal (l.map Rec.full) = l := by
  have := recoverWal_full_append l ([] : List (Rec κ ν))
  simpa [recoverWal] using this

/-- a torn record and whatever follows it is invisible -/
theorem recoverWal_append_torn : ∀ (w junk : List (Rec κ ν)),
    recoverWal (w ++ Rec.torn :: junk) = recoverWal w
  | [], _ => rfl
  | .full b :: r, junk => by simp [recoverWal, recoverWal_append_torn r junk]
  | .torn :: r, junk => rfl

/-- recovery is idempotent: recovering a recovered log changes nothing -/
theorem recoverWal_clean (w : List (Rec κ ν)) : recoverWal (cleanWal w) = recoverWal w :=
  recoverWal_full _

/-- dying inside `Apply(b, Sync)`: the record did not reach the disk; or it reached it completely
    (synced, or unsynced but it survived); or a part of it did (torn), possibly followed by stale
    bytes of a recycled log file -/
inductive WalCrashApply (w : List (Rec κ ν)) (b : List (Op κ ν)) : List (Rec κ ν) → Prop where
  | lost : WalCrashApply w b (cleanWal w)
  | durable : WalCrashApply w b (cleanWal w ++ [Rec.full b])
  | tornTail (junk : List (Rec κ ν)) : WalCrashApply w b (cleanWal w ++ Rec.torn :: junk)

/-- the variant of the property text, "unsynced data lost": no torn tail -/
inductive WalCrashApplyStrict (w : List (Rec κ ν)) (b : List (Op κ ν)) : List (Rec κ ν) → Prop where
  | lost : WalCrashApplyStrict w b (cleanWal w)
  | durable : WalCrashApplyStrict w b (cleanWal w ++ [Rec.full b])

/-- dying while idle or while recovering: the log as it was, the log already truncated by the
    interrupted recovery, or with unreadable bytes behind it -/
inductive WalCrashIdle (w : List (Rec κ ν)) : List (Rec κ ν) → Prop where
  | same : WalCrashIdle w w
  | cleaned : WalCrashIdle w (cleanWal w)
  | junk (j : List (Rec κ ν)) : WalCrashIdle w (w ++ Rec.torn :: j)

variable [DecidableEq κ]

/-- write-ahead-log store over a base database: `Apply` appends ONE record per batch, whatever
    its size -/
def walStorage (base : DBOf κ ν) : Storage (List (Rec κ ν)) κ ν where
  content w := dbOf base (recoverWal w)
  apply w b := cleanWal w ++ [Rec.full b]
  crashIdle := WalCrashIdle
  crashApply := WalCrashApply

def walStorageStrict (base : DBOf κ ν) : Storage (List (Rec κ ν)) κ ν where
  content w := dbOf base (recoverWal w)
  apply w b := cleanWal w ++ [Rec.full b]
  crashIdle w w' := w' = w
  crashApply := WalCrashApplyStrict

theorem wal_assumption (base : DBOf κ ν) : PebbleAssumption (walStorage base) where
  apply_content w b := by
    simp only [walStorage, cleanWal]
    rw [recoverWal_full_append]
    simp [recoverWal, dbOf_append_one]
  crash_idle w w' h := by
    cases h with
    | same => rfl
    | cleaned => simp only [walStorage]; rw [recoverWal_clean]
    | junk j => simp only [walStorage]; rw [recoverWal_append_torn]
  crash_apply w b w' h := by
    cases h with
    | lost => left; simp only [walStorage]; rw [recoverWal_clean]
    | durable =>
      right
      simp only [walStorage, cleanWal]
      rw [recoverWal_full_append]
      simp [recoverWal, dbOf_append_one]
    | tornTail junk =>
      left
      simp only [walStorage]
      rw [recoverWal_append_torn, recoverWal_clean]

theorem wal_assumption_strict (base : DBOf κ ν) : PebbleAssumption (walStorageStrict base) where
  apply_content := (wal_assumption base).apply_content
  crash_idle w w' h := by cases h; rfl
  crash_apply w b w' h := by
    cases h with
    | lost => exact (wal_assumption base).crash_apply w b _ .lost
    | durable => exact (wal_assumption base).crash_apply w b _ .durable

/-- a store that applies a batch key by key (no batch atomicity): dying inside `Apply` leaves any
    prefix of the batch applied -/
def opwiseStorage : Storage (DBOf κ ν) κ ν where
  content db := db
  apply db b := applyBatch db b
  crashIdle db db' := db' = db
  crashApply db b db' := ∃ k, k ≤ b.length ∧ db' = applyBatch db (b.take k)

end Wal

/-! ## 4. Executions with crashes and restarts -/

section Reach
variable {σ κ ν : Type} [DecidableEq κ]

/-- process states reachable from a store `s0` by complete steps, by dying anywhere inside a step
    (or idle) and restarting with empty process memory, and by dying again while restarting.
    `Step c evs`: the runs the node may perform as one step on a database with content `c`. -/
inductive Reach (S : Storage σ κ ν) (Step : DBOf κ ν → List (Ev κ ν) → Prop) (s0 : σ) :
    SMach σ κ ν → Prop where
  | init : Reach S Step s0 ⟨s0, []⟩
  | step {m : SMach σ κ ν} {evs : List (Ev κ ν)} : Reach S Step s0 m → Step (S.content m.store) evs →
      Reach S Step s0 (SMach.run S m evs)
  | crash {m : SMach σ κ ν} {evs : List (Ev κ ν)} {s' : σ} : Reach S Step s0 m →
      Step (S.content m.store) evs → CrashAt S m evs s' → Reach S Step s0 ⟨s', []⟩
  | recrash {m : SMach σ κ ν} {s' : σ} : Reach S Step s0 m → S.crashIdle m.store s' →
      Reach S Step s0 ⟨s', []⟩

/-- **Crash-free invariants are crash invariants.** An invariant of the database content that
    every complete step preserves holds in every state reachable with any number of crashes
    (between any two events or inside a `Write`) and restarts. -/
theorem reach_invariant {S : Storage σ κ ν} (hS : PebbleAssumption S)
    {Step : DBOf κ ν → List (Ev κ ν) → Prop} (hok : ∀ c evs, Step c evs → StepOK evs)
    (I : DBOf κ ν → Prop) (hI : ∀ c evs, I c → Step c evs → I (dbOf c (delta evs)))
    {s0 : σ} (h0 : I (S.content s0)) {m : SMach σ κ ν} (h : Reach S Step s0 m) :
    I (S.content m.store) := by
  induction h with
  | init => exact h0
  | step _ hs ih =>
    rw [srun_step_content hS _ (hok _ _ hs)]
    exact hI _ _ ih hs
  | crash _ hs hc ih =>
    cases crashAt_before_or_after hS _ (hok _ _ hs) hc with
    | inl e => simp only; rw [e]; exact ih
    | inr e =>
      simp only
      rw [e, srun_step_content hS _ (hok _ _ hs)]
      exact hI _ _ ih hs
  | recrash _ hc ih => simp only; rw [hS.crash_idle _ _ hc]; exact ih

end Reach

/-! ## 5. Action sites of a skeleton -/

/-- every action site of a skeleton (a call that was not inlined shows up as `unknown`) -/
def Stmt.sites : Stmt → List Act
  | .act a => [a]
  | .seq s t => sites s ++ sites t
  | .choice s t => sites s ++ sites t
  | .loop s => sites s
  | .scope s => sites s
  | .tryCall c a b => sites c ++ sites a ++ sites b
  | .call f _ => [.unknown ("call " ++ f)]
  | _ => []

/-- every action on every path of a skeleton is one of its sites -/
theorem exec_sub_sites {s : Stmt} {tr : List Act} {o : Out} (h : Exec s tr o) :
    ∀ a, a ∈ tr → a ∈ s.sites := by
  induction h with
  | skip | ret | retErr | brk | cont | loopDone => intro a ha; cases ha
  | act a => intro a' ha; simpa [Stmt.sites] using ha
  | seqFall _ _ ih1 ih2 =>
    intro a ha
    simp only [Stmt.sites, List.mem_append] at *
    exact ha.imp (ih1 a) (ih2 a)
  | seqStop _ _ ih => intro a ha; simp only [Stmt.sites, List.mem_append]; exact Or.inl (ih a ha)
  | choiceL _ ih => intro a ha; simp only [Stmt.sites, List.mem_append]; exact Or.inl (ih a ha)
  | choiceR _ ih => intro a ha; simp only [Stmt.sites, List.mem_append]; exact Or.inr (ih a ha)
  | loopIter _ _ _ ih1 ih2 =>
    intro a ha
    simp only [List.mem_append] at ha
    cases ha with
    | inl h => simpa [Stmt.sites] using ih1 a h
    | inr h => exact ih2 a h
  | loopBrk _ ih => intro a ha; simpa [Stmt.sites] using ih a ha
  | loopStop _ _ ih => intro a ha; simpa [Stmt.sites] using ih a ha
  | scope _ ih => intro a ha; simpa [Stmt.sites] using ih a ha
  | tryErr _ _ ih1 ih2 =>
    intro a ha
    simp only [Stmt.sites, List.mem_append] at *
    exact ha.elim (fun h => Or.inl (Or.inl (ih1 a h))) (fun h => Or.inl (Or.inr (ih2 a h)))
  | tryOk _ _ _ ih1 ih2 =>
    intro a ha
    simp only [Stmt.sites, List.mem_append] at *
    exact ha.elim (fun h => Or.inl (Or.inl (ih1 a h))) (fun h => Or.inr (ih2 a h))

def Act.isStaging : Act → Bool
  | .batchSet _ | .batchDel _ => true
  | _ => false

def Act.isDirect : Act → Bool
  | .directSet | .directDel => true
  | _ => false

def Act.isWrite : Act → Bool
  | .write _ => true
  | _ => false

/-- the batch a mutating action goes to -/
def Act.target : Act → Option String
  | .batchSet b | .batchDel b | .write b | .newBatch b => some b
  | _ => none

/-- the first `Write` of a run -/
def splitAtWrite {κ ν : Type} : List (Ev κ ν) → Option (List (Ev κ ν) × String × List (Ev κ ν))
  | [] => none
  | e :: l => match e with
    | .write b => some ([], b, l)
    | e => (splitAtWrite l).map fun r => (e :: r.1, r.2.1, r.2.2)

theorem splitAtWrite_sound {κ ν : Type} : ∀ (evs p : List (Ev κ ν)) (b : String) (q : List (Ev κ ν)),
    splitAtWrite evs = some (p, b, q) → evs = p ++ Ev.write b :: q
  | [], _, _, _, h => by simp [splitAtWrite] at h
  | e :: l, p, b, q, h => by
    cases e with
    | write b' =>
      simp only [splitAtWrite, Option.some.injEq, Prod.mk.injEq] at h
      obtain ⟨rfl, rfl, rfl⟩ := h
      rfl
    | newBatch _ | batchOp _ _ | direct _ | other _ =>
      simp only [splitAtWrite] at h
      cases hr : splitAtWrite l with
      | none => rw [hr] at h; simp at h
      | some r =>
        obtain ⟨p', b', q'⟩ := r
        rw [hr] at h
        simp only [Option.map_some, Option.some.injEq, Prod.mk.injEq] at h
        obtain ⟨rfl, rfl, rfl⟩ := h
        rw [splitAtWrite_sound l p' b' q' hr]
        rfl

/-! ## 6. Restart (`Executer.Init`) on the abstract node database -/

/-- what `Executer.Init` stages at start for a node configured with genesis block id `gid`:
    `GenesisBlockExist` looks up the height index at the genesis height; absent → the genesis block
    is processed (`processGenesisBlock`); present with the same id → nothing is written; present
    with another id → `Init` fails (nothing is written). `PrepareCache` only reads. -/
def restartBatch (gid : Nat) (db : NodeDB) : Option (List (Op Key Val)) :=
  match db (.index 0) with
  | none => some (genesisBatch gid)
  | some (.id i) => if i = gid then some [] else none
  | some _ => none

/-- the database after a complete restart -/
def restartDB (gid : Nat) (db : NodeDB) : Option NodeDB := (restartBatch gid db).map (applyBatch db)

/-- the databases a node with genesis id `gid` can be started on: a fresh one, or one that satisfies
    the restart invariant and has this genesis block at the bottom of the height index -/
def Recoverable (gid : Nat) (db : NodeDB) : Prop :=
  db = emptyDB ∨ ∃ tip f, NodeInv db tip f ∧ db (.index 0) = some (.id gid)

theorem dbOf_append {κ ν} [DecidableEq κ] (db0 : DBOf κ ν) (a b : List (List (Op κ ν))) :
    dbOf db0 (a ++ b) = dbOf (dbOf db0 a) b := by
  simp [dbOf, List.foldl_append]

def Op.key {κ ν : Type} : Op κ ν → κ
  | .set k _ => k
  | .del k => k

/-- a key no operation of the batch names keeps its value -/
theorem applyBatch_untouched {κ ν : Type} [DecidableEq κ] :
    ∀ (L : List (Op κ ν)) (db : DBOf κ ν) (k : κ), (∀ op, op ∈ L → op.key ≠ k) → applyBatch db L k = db k
  | [], _, _, _ => rfl
  | op :: L, db, k, h => by
    have h1 : applyBatch db (op :: L) k = applyBatch (applyOp db op) L k := rfl
    rw [h1, applyBatch_untouched L _ k (fun o ho => h o (List.mem_cons_of_mem _ ho))]
    have hk := h op List.mem_cons_self
    cases op with
    | set k' v => simp only [applyOp]; rw [if_neg (fun e => hk e.symm)]
    | del k' => simp only [applyOp]; rw [if_neg (fun e => hk e.symm)]

/-- two batches have the same effect on a database if they agree on the keys they name -/
theorem effect_eq_of_keys {κ ν : Type} [DecidableEq κ] (db : DBOf κ ν) (L B : List (Op κ ν))
    (h : ∀ k, k ∈ L.map Op.key ++ B.map Op.key → applyBatch db L k = applyBatch db B k) :
    applyBatch db L = applyBatch db B := by
  funext k
  by_cases hk : k ∈ L.map Op.key ++ B.map Op.key
  · exact h k hk
  · rw [List.mem_append, not_or] at hk
    rw [applyBatch_untouched L db k (fun op ho e => hk.1 (List.mem_map.mpr ⟨op, ho, e⟩)),
      applyBatch_untouched B db k (fun op ho e => hk.2 (List.mem_map.mpr ⟨op, ho, e⟩))]

theorem genesis_index0 (gid : Nat) : applyBatch emptyDB (genesisBatch gid) (.index 0) = some (.id gid) := by
  simp [applyBatch, applyOp, genesisBatch, emptyDB]

theorem add_keeps_genesis {db : NodeDB} {tip id newFin gid : Nat} {pruned : List Nat}
    (h : db (.index 0) = some (.id gid)) :
    applyBatch db (addBatch tip id newFin pruned) (.index 0) = some (.id gid) := by
  rw [add_lookup]; simp [h]

theorem remove_keeps_genesis {db : NodeDB} {tip f id gid : Nat} (hf : f < tip)
    (h : db (.index 0) = some (.id gid)) :
    applyBatch db (removeBatch tip id) (.index 0) = some (.id gid) := by
  rw [remove_lookup]; simp [show (0 : Nat) ≠ tip by omega, h]

/-- the restart invariant determines tip and finalized height -/
theorem nodeInv_unique {db : NodeDB} {t1 f1 t2 f2 : Nat} (h1 : NodeInv db t1 f1) (h2 : NodeInv db t2 f2) :
    t1 = t2 ∧ f1 = f2 := by
  have a := h1.bft; rw [h2.bft] at a
  have b := h1.fin; rw [h2.fin] at b
  simp only [Option.some.injEq, Val.num.injEq] at a b
  exact ⟨a.symm, b.symm⟩

end LiskVerif.Crash
