/-
Varint lemmas: `readUint (putUvarint n ++ rest) = (n, size)` for every `n < 2^64`.
-/
import LiskVerif.Model.Codec
import Mathlib.Tactic.Ring
import Mathlib.Tactic.Linarith
import Mathlib.Tactic.NormNum

namespace LiskVerif.Codec

theorem putUvarint_lt (n : Nat) (h : n < 128) : putUvarint n = [UInt8.ofNat n] := by
  rw [putUvarint]; simp [h]

theorem putUvarint_ge (n : Nat) (h : ¬ n < 128) :
    putUvarint n = UInt8.ofNat (n % 128 + 128) :: putUvarint (n / 128) := by
  rw [putUvarint]; simp [h]

theorem putUvarint_length_pos (n : Nat) : 0 < (putUvarint n).length := by
  by_cases h : n < 128
  · rw [putUvarint_lt n h]; simp
  · rw [putUvarint_ge n h]; simp

/-- `varintShortestSize n = j` from the magnitude of `n` -/
theorem shortest_of_bounds (n j : Nat) (hj1 : 1 ≤ j) (hj : j ≤ 10) (hn : n < 2 ^ 64)
    (hlo : j = 1 ∨ 2 ^ (7 * (j - 1)) ≤ n) (hhi : j = 10 ∨ n < 2 ^ (7 * j)) :
    varintShortestSize n = j := by
  unfold varintShortestSize
  have e : j = 1 ∨ j = 2 ∨ j = 3 ∨ j = 4 ∨ j = 5 ∨ j = 6 ∨ j = 7 ∨ j = 8 ∨ j = 9 ∨ j = 10 := by omega
  rcases e with rfl | rfl | rfl | rfl | rfl | rfl | rfl | rfl | rfl | rfl <;>
    norm_num at hlo hhi hn ⊢ <;> (repeat' split) <;> omega

theorem pow7_succ (k : Nat) : 2 ^ (7 * (k + 1)) = 128 * 2 ^ (7 * k) := by
  rw [Nat.mul_add, Nat.pow_add]; norm_num; ring

theorem u8_ofNat_toNat (n : Nat) (h : n < 256) : (UInt8.ofNat n).toNat = n := by
  simp [UInt8.toNat_ofNat, Nat.mod_eq_of_lt h]

/-- the reading loop on the encoding of `m`, started after `k` bytes with accumulator `acc` -/
theorem readUintLoop_put (m : Nat) : ∀ (fuel k acc : Nat) (rest : Bytes),
    acc < 2 ^ (7 * k) → acc + m * 2 ^ (7 * k) < 2 ^ 64 → (k = 0 ∨ 0 < m) →
    (putUvarint m).length ≤ fuel → k + (putUvarint m).length ≤ 10 →
    readUintLoop (putUvarint m ++ rest) fuel k acc =
      .ok (acc + m * 2 ^ (7 * k), k + (putUvarint m).length) := by
  induction m using Nat.strongRecOn with
  | _ m ih =>
    intro fuel k acc rest hacc htot hk hfuel hlen
    have hP : 0 < 2 ^ (7 * k) := Nat.pos_of_ne_zero (by positivity)
    by_cases hm : m < 128
    · rw [putUvarint_lt m hm] at hfuel hlen ⊢
      simp only [List.length_singleton] at hfuel hlen
      obtain ⟨fuel', rfl⟩ : ∃ f, fuel = f + 1 := ⟨fuel - 1, by omega⟩
      have hb : (UInt8.ofNat m).toNat = m := u8_ofNat_toNat m (by omega)
      simp only [List.singleton_append, readUintLoop, hb, List.length_singleton]
      have hk9 : ¬ (k + 1 = 10 ∧ m > 1) := by
        rintro ⟨h9, h1⟩
        have : k = 9 := by omega
        subst this
        norm_num at htot
        omega
      have hmod : m % 128 = m := Nat.mod_eq_of_lt hm
      have hacc' : (acc + m * 2 ^ (7 * k)) % 2 ^ 64 = acc + m * 2 ^ (7 * k) := Nat.mod_eq_of_lt htot
      simp only [hk9, if_false, hmod, hacc', hm, if_true]
      have hs : varintShortestSize (acc + m * 2 ^ (7 * k)) = k + 1 := by
        apply shortest_of_bounds _ _ (by omega) (by omega) htot
        · rcases hk with rfl | hpos
          · left; rfl
          · right
            simp only [Nat.add_sub_cancel]
            nlinarith
        · by_cases h10 : k + 1 = 10
          · left; exact h10
          · right
            rw [pow7_succ]
            nlinarith
      simp [hs]
    · rw [putUvarint_ge m hm] at hfuel hlen ⊢
      simp only [List.length_cons] at hfuel hlen
      obtain ⟨fuel', rfl⟩ : ∃ f, fuel = f + 1 := ⟨fuel - 1, by omega⟩
      have hb : (UInt8.ofNat (m % 128 + 128)).toNat = m % 128 + 128 :=
        u8_ofNat_toNat _ (by omega)
      simp only [List.cons_append, readUintLoop, hb]
      have hk8 : k ≤ 8 := by
        by_contra hc
        have hk9 : 9 ≤ k := by omega
        have : 2 ^ (7 * 9) ≤ 2 ^ (7 * k) := Nat.pow_le_pow_right (by norm_num) (by omega)
        norm_num at this
        nlinarith
      have hk9 : ¬ (k + 1 = 10 ∧ m % 128 + 128 > 1) := by omega
      have hmod : (m % 128 + 128) % 128 = m % 128 := by omega
      have hdm : m = m % 128 + 128 * (m / 128) := by omega
      have hlt : acc + m % 128 * 2 ^ (7 * k) < 2 ^ 64 := by
        have : m % 128 ≤ m := Nat.mod_le _ _
        nlinarith
      have hacc' : (acc + m % 128 * 2 ^ (7 * k)) % 2 ^ 64 = acc + m % 128 * 2 ^ (7 * k) :=
        Nat.mod_eq_of_lt hlt
      have hnl : ¬ (m % 128 + 128 < 128) := by omega
      simp only [hk9, if_false, hmod, hacc', hnl]
      have hdiv : m / 128 < m := by omega
      have hdpos : 0 < m / 128 := by omega
      have key := ih (m / 128) hdiv fuel' (k + 1) (acc + m % 128 * 2 ^ (7 * k)) rest
        (by rw [pow7_succ]; have := Nat.mod_lt m (by norm_num : 128 > 0); nlinarith)
        (by rw [pow7_succ]; nlinarith)
        (Or.inr hdpos) (by omega) (by omega)
      rw [key]
      congr 1
      rw [pow7_succ]
      refine Prod.ext ?_ (by simp; omega)
      simp only
      nlinarith

/-- Round trip of varints: reading the encoding of any `n < 2^64` returns `n` and its length. -/
theorem readUint_putUvarint (n : Nat) (hn : n < 2 ^ 64) (rest : Bytes)
    (hlen : (putUvarint n).length ≤ 10) :
    readUint (putUvarint n ++ rest) = .ok (n, (putUvarint n).length) := by
  unfold readUint
  have := readUintLoop_put n 10 0 0 rest (by norm_num) (by simpa using hn) (Or.inl rfl) hlen (by omega)
  simpa using this

/-- the encoding of a 64-bit value has at most 10 bytes -/
theorem putUvarint_length_le (n : Nat) : ∀ k, n < 2 ^ (7 * k) → 1 ≤ k → (putUvarint n).length ≤ k := by
  induction n using Nat.strongRecOn with
  | _ n ih =>
    intro k hk h1
    by_cases hm : n < 128
    · rw [putUvarint_lt n hm]; simpa using h1
    · rw [putUvarint_ge n hm]
      simp only [List.length_cons]
      have hk2 : 2 ≤ k := by
        by_contra hc
        have : k = 1 := by omega
        subst this
        norm_num at hk
        omega
      obtain ⟨k', rfl⟩ : ∃ k', k = k' + 1 := ⟨k - 1, by omega⟩
      have := ih (n / 128) (by omega) k' (by rw [pow7_succ] at hk; omega) (by omega)
      omega

theorem putUvarint_length_le_10 (n : Nat) (hn : n < 2 ^ 64) : (putUvarint n).length ≤ 10 :=
  putUvarint_length_le n 10 (by norm_num at hn ⊢; omega) (by norm_num)

end LiskVerif.Codec

namespace LiskVerif.Codec

theorem shortest_lower (n j : Nat) (h : varintShortestSize n = j) : j = 1 ∨ 2 ^ (7 * (j - 1)) ≤ n := by
  unfold varintShortestSize at h
  (repeat' split at h) <;> subst h <;> norm_num at * <;> omega

theorem u8_ofNat_toNat_self (x : UInt8) : UInt8.ofNat x.toNat = x := by
  apply UInt8.toNat_inj.mp
  simp [UInt8.toNat_ofNat, Nat.mod_eq_of_lt x.toNat_lt]

/-- Canonical form: whatever `readUintLoop` accepts is the encoding of the value it returns. -/
theorem readUintLoop_canonical : ∀ (fuel : Nat) (b : Bytes) (k acc v size : Nat),
    readUintLoop b fuel k acc = .ok (v, size) → acc < 2 ^ (7 * k) → k + fuel ≤ 10 →
    ∃ m, v = acc + m * 2 ^ (7 * k) ∧ size = k + (putUvarint m).length ∧
      b.take (size - k) = putUvarint m ∧ (k = 0 ∨ 0 < m) ∧ v < 2 ^ 64 := by
  intro fuel
  induction fuel with
  | zero => intro b k acc v size h; simp [readUintLoop] at h
  | succ fuel ih =>
    intro b k acc v size h hacc hfuel
    cases b with
    | nil => simp [readUintLoop] at h
    | cons x rest =>
      have hP : 0 < 2 ^ (7 * k) := Nat.pos_of_ne_zero (by positivity)
      simp only [readUintLoop] at h
      by_cases hoor : k + 1 = 10 ∧ x.toNat > 1
      · simp [hoor] at h
      · simp only [hoor, if_false] at h
        have hxlt : x.toNat < 256 := x.toNat_lt
        -- no wrap-around of the accumulator
        have hnowrap : acc + x.toNat % 128 * 2 ^ (7 * k) < 2 ^ 64 := by
          by_cases hk9 : k = 9
          · subst hk9
            have hx1 : x.toNat ≤ 1 := by omega
            have : x.toNat % 128 ≤ 1 := by omega
            norm_num at hacc ⊢
            nlinarith
          · have hk8 : k ≤ 8 := by omega
            have h1 : 2 ^ (7 * (k + 1)) ≤ 2 ^ 63 := Nat.pow_le_pow_right (by norm_num) (by omega)
            rw [pow7_succ] at h1
            have : x.toNat % 128 < 128 := Nat.mod_lt _ (by norm_num)
            norm_num at h1 ⊢
            nlinarith
        rw [Nat.mod_eq_of_lt hnowrap] at h
        by_cases hx : x.toNat < 128
        · simp only [hx, if_true] at h
          have hxm : x.toNat % 128 = x.toNat := Nat.mod_eq_of_lt hx
          rw [hxm] at h hnowrap
          by_cases hs : varintShortestSize (acc + x.toNat * 2 ^ (7 * k)) ≠ k + 1
          · simp [hs] at h
          · simp only [hs, if_false] at h
            have hs' : varintShortestSize (acc + x.toNat * 2 ^ (7 * k)) = k + 1 := by
              by_contra hc; exact hs hc
            injection h with h
            injection h with hv hsize
            refine ⟨x.toNat, hv.symm, ?_, ?_, ?_, hv ▸ hnowrap⟩
            · rw [putUvarint_lt _ hx]; simp [← hsize]
            · rw [putUvarint_lt _ hx, ← hsize]
              simp [u8_ofNat_toNat_self]
            · by_cases hk0 : k = 0
              · left; exact hk0
              · right
                rcases shortest_lower _ _ hs' with h1 | h1
                · omega
                · simp only [Nat.add_sub_cancel] at h1
                  by_contra hc
                  have : x.toNat = 0 := by omega
                  rw [this] at h1
                  omega
        · simp only [hx, if_false] at h
          have hk8 : k ≤ 8 := by omega
          have hacc' : acc + x.toNat % 128 * 2 ^ (7 * k) < 2 ^ (7 * (k + 1)) := by
            rw [pow7_succ]
            have : x.toNat % 128 < 128 := Nat.mod_lt _ (by norm_num)
            nlinarith
          obtain ⟨m', hv, hsize, htake, hpos, hv64⟩ :=
            ih rest (k + 1) _ v size h hacc' (by omega)
          have hm'pos : 0 < m' := by omega
          refine ⟨x.toNat % 128 + 128 * m', ?_, ?_, ?_, Or.inr (by omega), hv64⟩
          · rw [hv, pow7_succ]; ring
          · have hge : ¬ (x.toNat % 128 + 128 * m' < 128) := by omega
            rw [putUvarint_ge _ hge]
            have : (x.toNat % 128 + 128 * m') / 128 = m' := by omega
            simp only [List.length_cons, this]
            omega
          · have hge : ¬ (x.toNat % 128 + 128 * m' < 128) := by omega
            rw [putUvarint_ge _ hge]
            have h1 : (x.toNat % 128 + 128 * m') / 128 = m' := by omega
            have h2 : (x.toNat % 128 + 128 * m') % 128 + 128 = x.toNat := by omega
            rw [h1, h2, u8_ofNat_toNat_self]
            have hsz : size - k = (size - (k + 1)) + 1 := by
              have := putUvarint_length_pos m'
              omega
            rw [hsz, List.take_succ_cons, htake]

/-- Canonical varints: if `readUint` accepts a prefix of `b` as value `n` of `size` bytes, that
prefix is exactly `putUvarint n` (shortest form, no overflow), and `n < 2^64`. -/
theorem readUint_canonical (b : Bytes) (n size : Nat) (h : readUint b = .ok (n, size)) :
    b.take size = putUvarint n ∧ size = (putUvarint n).length ∧ n < 2 ^ 64 := by
  unfold readUint at h
  obtain ⟨m, hv, hsize, htake, _, hv64⟩ := readUintLoop_canonical 10 b 0 0 n size h (by norm_num) (by norm_num)
  have : n = m := by simpa using hv
  subst this
  exact ⟨by simpa using htake, by simpa using hsize, hv64⟩

end LiskVerif.Codec
