/-
C17 — more lemmas about the fixed request/response protocol (Model/ReqResp.lean):
* `step_shape`: what one action does to the lists of requester / handler threads and to the lock;
* second invariant `Inv2` (outcome bookkeeping, one entry per key of `resCh`);
* thread ranks (`tRank`) and the global measure `gMeasure`;
* infinite executions, strong fairness, and the liveness argument;
* the adversarial environment (forged responses) with its invariant `InvA`;
* the widened-lock variant `stepW` (registration critical section extended over `mp.send`).
-/
import LiskVerif.Props.C17

namespace LiskVerif.ReqResp

/-! ### what one action does -/

/-- the thread that executes an action (`none` for the environment) -/
def actor : Action → Option Tid
  | .rStep i | .rSendOk i | .rSendErr i | .rRecv i | .rTimeout i | .rCancel i => some (.req i)
  | .hStep j => some (.hdl j)
  | _ => none

/-- thread actions that do not depend on the remote peer / the network: everything except the
return of `mp.send` (which may block for as long as the peer pleases) -/
def Action.isLocal : Action → Bool
  | .rStep _ | .rRecv _ | .rTimeout _ | .rCancel _ | .hStep _ => true
  | _ => false

/-- the possible effects of a requester's own statement on its record -/
def ownNext (s : State) (r r' : Req) : Prop :=
  (r.pc = .start ∧ r' = { r with pc := .regLock, id := s.nextId, buf := none, out := none, arrived := false }) ∨
  (r.pc = .regLock ∧ s.lock = none ∧ r' = { r with pc := .regStore }) ∨
  (r.pc = .regStore ∧ r' = { r with pc := .regUnlock }) ∨
  (r.pc = .regUnlock ∧ r' = { r with pc := .send }) ∨
  (r.pc = .send ∧ r' = { r with pc := .wait }) ∨
  (r.pc = .send ∧ r' = { r with pc := .unLock, out := some .sendErr }) ∨
  (r.pc = .wait ∧ ∃ m, r.buf = some m ∧ r' = { r with pc := .unLock, out := some (.got m), buf := none }) ∨
  (r.pc = .wait ∧ r.buf = none ∧ r' = { r with pc := .unLock, out := some .timeout }) ∨
  (r.pc = .wait ∧ r' = { r with pc := .unLock, out := some .cancelled }) ∨
  (r.pc = .unLock ∧ s.lock = none ∧ r' = { r with pc := .unDelete }) ∨
  (r.pc = .unDelete ∧ r' = { r with pc := .unUnlock }) ∨
  (r.pc = .unUnlock ∧ r' = afterAttempt r)

/-- the effect of a handler's channel send on the record of the channel's owner -/
def dlvNext (r r' : Req) : Prop :=
  ∃ m, r' = { r with buf := if r.buf = none then some m else r.buf, arrived := r.arrived || r.pc == .wait }

/-- the possible effects of a handler's own statement on its record -/
def hdlNext (s : State) (h h' : Hdl) : Prop :=
  h'.msg = h.msg ∧
  ((h.pc = .lock ∧ s.lock = none ∧ h'.pc = .lookup) ∨
   (h.pc = .lookup ∧ ((∃ ch, h'.pc = .deliver ch) ∨ h'.pc = .unlock)) ∨
   ((∃ ch, h.pc = .deliver ch) ∧ h'.pc = .unlock) ∨
   (h.pc = .unlock ∧ h'.pc = .done))

theorem step_shape (P : Nat → Nat) (s s' : State) (a : Action) (hstep : step P s a = some s') :
    (∃ i r r', actor a = some (.req i) ∧ s.reqs[i]? = some r ∧ s'.reqs = s.reqs.set i r' ∧
        s'.hdls = s.hdls ∧ ownNext s r r') ∨
    (∃ j h h', a = .hStep j ∧ s.hdls[j]? = some h ∧ s'.hdls = s.hdls.set j h' ∧ hdlNext s h h' ∧
        (s'.reqs = s.reqs ∨
         ∃ ch r r', h.pc = .deliver ch ∧ s.reqs[ch]? = some r ∧ s'.reqs = s.reqs.set ch r' ∧ dlvNext r r')) ∨
    (actor a = none ∧ s'.lock = s.lock ∧ s'.resCh = s.resCh ∧
        ((s'.reqs = s.reqs ∧ (s'.hdls = s.hdls ∨ ∃ m, a = .nDeliver m ∧ ∃ x, s'.hdls = s.hdls ++ [⟨.lock, x⟩])) ∨
         (∃ b, a = .spawn b ∧ s'.reqs = s.reqs ++ [newReq b] ∧ s'.hdls = s.hdls))) := by
  cases a with
  | hStep j =>
    right; left
    obtain ⟨h, hh, hc⟩ := hStep_cases P s s' j hstep
    refine ⟨j, h, ?_⟩
    rcases hc with ⟨hpc, hl, rfl⟩ | ⟨ch, hpc, hl, rfl⟩ | ⟨hpc, hl, rfl⟩ | ⟨ch, r, hpc, hr, rfl⟩ | ⟨ch, hpc, hr, rfl⟩ | ⟨hpc, rfl⟩
    · exact ⟨_, rfl, hh, rfl, ⟨rfl, Or.inl ⟨hpc, hl, rfl⟩⟩, Or.inl rfl⟩
    · exact ⟨_, rfl, hh, rfl, ⟨rfl, Or.inr (Or.inl ⟨hpc, Or.inl ⟨ch, rfl⟩⟩)⟩, Or.inl rfl⟩
    · exact ⟨_, rfl, hh, rfl, ⟨rfl, Or.inr (Or.inl ⟨hpc, Or.inr rfl⟩)⟩, Or.inl rfl⟩
    · exact ⟨_, rfl, hh, rfl, ⟨rfl, Or.inr (Or.inr (Or.inl ⟨⟨ch, hpc⟩, rfl⟩))⟩,
        Or.inr ⟨ch, r, _, hpc, hr, rfl, ⟨h.msg, rfl⟩⟩⟩
    · exact ⟨_, rfl, hh, rfl, ⟨rfl, Or.inr (Or.inr (Or.inl ⟨⟨ch, hpc⟩, rfl⟩))⟩, Or.inl rfl⟩
    · exact ⟨_, rfl, hh, rfl, ⟨rfl, Or.inr (Or.inr (Or.inr ⟨hpc, rfl⟩))⟩, Or.inl rfl⟩
  | rStep i =>
    left
    simp only [step] at hstep
    cases hr : s.reqs[i]? with
    | none => simp [hr] at hstep
    | some r =>
      simp only [hr, stepReq] at hstep
      refine ⟨i, r, ?_⟩
      cases hpc : r.pc <;> simp only [hpc] at hstep
      case start => cases hstep; exact ⟨_, rfl, hr, rfl, rfl, Or.inl ⟨hpc, rfl⟩⟩
      case regLock =>
        split at hstep
        · next hl => cases hstep; exact ⟨_, rfl, hr, rfl, rfl, Or.inr (Or.inl ⟨hpc, hl, rfl⟩)⟩
        · cases hstep
      case regStore => cases hstep; exact ⟨_, rfl, hr, rfl, rfl, Or.inr (Or.inr (Or.inl ⟨hpc, rfl⟩))⟩
      case regUnlock => cases hstep; exact ⟨_, rfl, hr, rfl, rfl, Or.inr (Or.inr (Or.inr (Or.inl ⟨hpc, rfl⟩)))⟩
      case unLock =>
        split at hstep
        · next hl =>
          cases hstep
          exact ⟨_, rfl, hr, rfl, rfl, by simp [ownNext, hpc, hl]⟩
        · cases hstep
      case unDelete => cases hstep; exact ⟨_, rfl, hr, rfl, rfl, by simp [ownNext, hpc]⟩
      case unUnlock => cases hstep; exact ⟨_, rfl, hr, rfl, rfl, by simp [ownNext, hpc]⟩
      all_goals cases hstep
  | rSendOk i =>
    left
    simp only [step] at hstep
    cases hr : s.reqs[i]? with
    | none => simp [hr] at hstep
    | some r =>
      simp only [hr] at hstep
      split at hstep
      · next hpc => cases hstep; exact ⟨i, r, _, rfl, hr, rfl, rfl, by simp [ownNext, hpc]⟩
      · cases hstep
  | rSendErr i =>
    left
    simp only [step] at hstep
    cases hr : s.reqs[i]? with
    | none => simp [hr] at hstep
    | some r =>
      simp only [hr] at hstep
      split at hstep
      · next hpc => cases hstep; exact ⟨i, r, _, rfl, hr, rfl, rfl, by simp [ownNext, hpc]⟩
      · cases hstep
  | rRecv i =>
    left
    simp only [step] at hstep
    cases hr : s.reqs[i]? with
    | none => simp [hr] at hstep
    | some r =>
      simp only [hr] at hstep
      split at hstep
      · next hpc =>
        cases hb : r.buf with
        | none => simp [hb] at hstep
        | some m =>
          simp only [hb] at hstep; cases hstep
          exact ⟨i, r, _, rfl, hr, rfl, rfl, by simp [ownNext, hpc, hb]⟩
      · cases hstep
  | rTimeout i =>
    left
    simp only [step] at hstep
    cases hr : s.reqs[i]? with
    | none => simp [hr] at hstep
    | some r =>
      simp only [hr] at hstep
      split at hstep
      · next hpc => cases hstep; exact ⟨i, r, _, rfl, hr, rfl, rfl, by simp [ownNext, hpc.1, hpc.2]⟩
      · cases hstep
  | rCancel i =>
    left
    simp only [step] at hstep
    cases hr : s.reqs[i]? with
    | none => simp [hr] at hstep
    | some r =>
      simp only [hr] at hstep
      split at hstep
      · next hpc => cases hstep; exact ⟨i, r, _, rfl, hr, rfl, rfl, by simp [ownNext, hpc]⟩
      · cases hstep
  | nRespond id =>
    right; right
    simp only [step, stepEnv] at hstep
    split at hstep
    · cases hstep; exact ⟨rfl, rfl, rfl, Or.inl ⟨rfl, Or.inl rfl⟩⟩
    · cases hstep
  | nDup k =>
    right; right
    simp only [step, stepEnv] at hstep
    split at hstep
    · cases hstep; exact ⟨rfl, rfl, rfl, Or.inl ⟨rfl, Or.inl rfl⟩⟩
    · cases hstep
  | nDrop k =>
    right; right
    simp only [step, stepEnv] at hstep
    split at hstep
    · cases hstep; exact ⟨rfl, rfl, rfl, Or.inl ⟨rfl, Or.inl rfl⟩⟩
    · cases hstep
  | nDeliver k =>
    right; right
    simp only [step, stepEnv] at hstep
    split at hstep
    · next m _ => cases hstep; exact ⟨rfl, rfl, rfl, Or.inl ⟨rfl, Or.inr ⟨k, rfl, m, rfl⟩⟩⟩
    · cases hstep
  | spawn b =>
    right; right
    simp only [step, stepEnv] at hstep
    cases hstep
    exact ⟨rfl, rfl, rfl, Or.inr ⟨b, rfl, rfl, rfl⟩⟩

/-- effect of any action on requester `i` -/
theorem req_effect (P : Nat → Nat) (s s' : State) (a : Action) (hstep : step P s a = some s')
    (i : Nat) (r : Req) (hr : s.reqs[i]? = some r) :
    ∃ r', s'.reqs[i]? = some r' ∧
      ((actor a = some (.req i) ∧ ownNext s r r') ∨
       (actor a ≠ some (.req i) ∧ (r' = r ∨ dlvNext r r'))) := by
  have hlt : i < s.reqs.length := (List.getElem?_eq_some_iff.mp hr).1
  rcases step_shape P s s' a hstep with ⟨k, rk, rk', hact, hk, hreqs, _, hown⟩ |
      ⟨j, h, h', rfl, _, _, _, hq⟩ | ⟨hact, _, _, hq⟩
  · by_cases hki : k = i
    · subst hki
      rw [hr] at hk; cases hk
      exact ⟨rk', by rw [hreqs]; exact List.getElem?_set_self hlt, Or.inl ⟨hact, hown⟩⟩
    · refine ⟨r, by rw [hreqs, List.getElem?_set_ne hki]; exact hr, Or.inr ⟨?_, Or.inl rfl⟩⟩
      rw [hact]; intro h; cases h; exact hki rfl
  · rcases hq with hq | ⟨ch, r0, r0', _, hr0, hreqs, hd⟩
    · exact ⟨r, by rw [hq]; exact hr, Or.inr ⟨by simp [actor], Or.inl rfl⟩⟩
    · by_cases hci : ch = i
      · subst hci
        rw [hr] at hr0; cases hr0
        exact ⟨r0', by rw [hreqs]; exact List.getElem?_set_self hlt, Or.inr ⟨by simp [actor], Or.inr hd⟩⟩
      · exact ⟨r, by rw [hreqs, List.getElem?_set_ne hci]; exact hr, Or.inr ⟨by simp [actor], Or.inl rfl⟩⟩
  · rcases hq with ⟨hq, _⟩ | ⟨b, _, hq, _⟩
    · exact ⟨r, by rw [hq]; exact hr, Or.inr ⟨by simp [hact], Or.inl rfl⟩⟩
    · exact ⟨r, by rw [hq, List.getElem?_append_left hlt]; exact hr, Or.inr ⟨by simp [hact], Or.inl rfl⟩⟩

/-- effect of any action on handler `j` -/
theorem hdl_effect (P : Nat → Nat) (s s' : State) (a : Action) (hstep : step P s a = some s')
    (j : Nat) (h : Hdl) (hh : s.hdls[j]? = some h) :
    ∃ h', s'.hdls[j]? = some h' ∧ ((a = .hStep j ∧ hdlNext s h h') ∨ (a ≠ .hStep j ∧ h' = h)) := by
  have hlt : j < s.hdls.length := (List.getElem?_eq_some_iff.mp hh).1
  rcases step_shape P s s' a hstep with ⟨k, rk, rk', hact, _, _, hhd, _⟩ |
      ⟨k, h0, h0', rfl, hk, hhd, hn, _⟩ | ⟨hact, _, _, hq⟩
  · refine ⟨h, by rw [hhd]; exact hh, Or.inr ⟨?_, rfl⟩⟩
    rintro rfl; simp [actor] at hact
  · by_cases hkj : k = j
    · subst hkj
      rw [hh] at hk; cases hk
      exact ⟨h0', by rw [hhd]; exact List.getElem?_set_self hlt, Or.inl ⟨rfl, hn⟩⟩
    · refine ⟨h, by rw [hhd, List.getElem?_set_ne hkj]; exact hh, Or.inr ⟨?_, rfl⟩⟩
      intro he; cases he; exact hkj rfl
  · have hne : a ≠ .hStep j := by rintro rfl; simp [actor] at hact
    rcases hq with ⟨_, hq | ⟨_, _, x, hq⟩⟩ | ⟨b, _, _, hq⟩
    · exact ⟨h, by rw [hq]; exact hh, Or.inr ⟨hne, rfl⟩⟩
    · exact ⟨h, by rw [hq, List.getElem?_append_left hlt]; exact hh, Or.inr ⟨hne, rfl⟩⟩
    · exact ⟨h, by rw [hq]; exact hh, Or.inr ⟨hne, rfl⟩⟩

/-- the lock only changes hands through `none` -/
theorem lock_some_step (P : Nat → Nat) (s s' : State) (a : Action) (hstep : step P s a = some s')
    (u : Tid) (hl : s.lock = some u) : s'.lock = some u ∨ s'.lock = none := by
  cases a <;> simp only [step] at hstep <;> grind [stepReq, stepHdl, stepEnv, afterAttempt]

/-- `resCh` only changes by a registration or an unregistration of a requester -/
theorem resCh_effect (P : Nat → Nat) (s s' : State) (a : Action) (hstep : step P s a = some s') :
    s'.resCh = s.resCh ∨
    (∃ i r, a = .rStep i ∧ s.reqs[i]? = some r ∧ r.pc = .regStore ∧ s'.resCh = storeId s.resCh r.id i) ∨
    (∃ i r, a = .rStep i ∧ s.reqs[i]? = some r ∧ r.pc = .unDelete ∧ s'.resCh = eraseId s.resCh r.id) := by
  cases a <;> simp only [step] at hstep <;> grind [stepReq, stepHdl, stepEnv, afterAttempt]

/-- where the record of requester `i` in the post-state comes from -/
theorem req_back (P : Nat → Nat) (s s' : State) (a : Action) (hstep : step P s a = some s')
    (i : Nat) (r' : Req) (hr' : s'.reqs[i]? = some r') :
    (∃ r, s.reqs[i]? = some r ∧
      ((actor a = some (.req i) ∧ ownNext s r r') ∨
       (actor a ≠ some (.req i) ∧ (r' = r ∨ dlvNext r r')))) ∨
    (s.reqs[i]? = none ∧ ∃ b, r' = newReq b) := by
  cases hr : s.reqs[i]? with
  | some r =>
    left
    obtain ⟨r'', h1, h2⟩ := req_effect P s s' a hstep i r hr
    rw [hr'] at h1; cases h1
    exact ⟨r, rfl, h2⟩
  | none =>
    right
    refine ⟨rfl, ?_⟩
    have hge : s.reqs.length ≤ i := List.getElem?_eq_none_iff.mp hr
    have hlt' : i < s'.reqs.length := (List.getElem?_eq_some_iff.mp hr').1
    rcases step_shape P s s' a hstep with ⟨k, rk, rk', _, _, hreqs, _, _⟩ |
        ⟨j, h, h', _, _, _, _, hq⟩ | ⟨_, _, _, hq⟩
    · rw [hreqs, List.length_set] at hlt'; omega
    · rcases hq with hq | ⟨ch, r0, r0', _, _, hreqs, _⟩
      · rw [hq] at hlt'; omega
      · rw [hreqs, List.length_set] at hlt'; omega
    · rcases hq with ⟨hq, _⟩ | ⟨b, _, hq, _⟩
      · rw [hq] at hlt'; omega
      · refine ⟨b, ?_⟩
        rw [hq] at hr' hlt'
        simp only [List.length_append, List.length_cons, List.length_nil] at hlt'
        have : i = s.reqs.length := by omega
        subst this
        simpa using hr'.symm

/-- pcs after the `select` / failed send of an attempt -/
def RPc.post : RPc → Bool
  | .unLock | .unDelete | .unUnlock | .done => true
  | _ => false

/-- Second invariant (bookkeeping of outcomes and of the keys of `resCh`). -/
structure Inv2 (s : State) : Prop where
  /-- a requester at the top of its retry loop is new or comes from a timed-out attempt -/
  startOut : ∀ (i : Nat) (r : Req), s.reqs[i]? = some r → r.pc = .start → (r.out = none ∨ r.out = some .timeout)
  /-- once the `select` / `send` was left the attempt has an outcome -/
  postOut : ∀ (i : Nat) (r : Req), s.reqs[i]? = some r → r.pc.post = true → r.out ≠ none
  /-- `request` only returns a timeout when the retry budget is used up -/
  doneBudget : ∀ (i : Nat) (r : Req), s.reqs[i]? = some r → r.pc = .done → r.out = some .timeout → r.retries = 0
  /-- the map has one entry per key -/
  keysNodup : (s.resCh.map Prod.fst).Nodup

theorem keys_eraseId (m : List (Nat × Nat)) (id : Nat) :
    (eraseId m id).map Prod.fst = (m.map Prod.fst).filter (fun k => k != id) := by
  induction m with
  | nil => rfl
  | cons e m ih =>
    simp only [eraseId, List.filter_cons, List.map_cons] at ih ⊢
    by_cases h : e.1 = id <;> simp [h, ih]

theorem keysNodup_erase (m : List (Nat × Nat)) (id : Nat) (h : (m.map Prod.fst).Nodup) :
    ((eraseId m id).map Prod.fst).Nodup := by
  rw [keys_eraseId]; exact h.filter _

theorem keysNodup_store (m : List (Nat × Nat)) (id ch : Nat) (h : (m.map Prod.fst).Nodup) :
    ((storeId m id ch).map Prod.fst).Nodup := by
  simp only [storeId, List.map_cons, List.nodup_cons]
  refine ⟨?_, keysNodup_erase m id h⟩
  rw [keys_eraseId]; simp

theorem afterAttempt_spec (r : Req) :
    (afterAttempt r).id = r.id ∧ (afterAttempt r).buf = r.buf ∧ (afterAttempt r).out = r.out ∧
    (afterAttempt r).arrived = r.arrived ∧
    (((afterAttempt r).pc = .start ∧ r.out = some .timeout ∧ 0 < r.retries ∧
        (afterAttempt r).retries = r.retries - 1) ∨
     ((afterAttempt r).pc = .done ∧ (afterAttempt r).retries = r.retries ∧
        (r.out = some .timeout → r.retries = 0))) := by
  unfold afterAttempt
  split
  · next h => exact ⟨rfl, rfl, rfl, rfl, Or.inl ⟨rfl, h.1, h.2, rfl⟩⟩
  · next h => exact ⟨rfl, rfl, rfl, rfl, Or.inr ⟨rfl, rfl, fun ho => by
      rcases Nat.eq_zero_or_pos r.retries with h0 | h0
      · exact h0
      · exact absurd ⟨ho, h0⟩ h⟩⟩

set_option hygiene false in
/-- split a hypothesis `ownNext s r r'` into its twelve cases (`hp : r.pc = …`, `r'` substituted) -/
macro "own_cases " h:ident : tactic => `(tactic| (
  unfold ownNext at $h:ident
  rcases $h:ident with ⟨hp, rfl⟩ | ⟨hp, hl, rfl⟩ | ⟨hp, rfl⟩ | ⟨hp, rfl⟩ | ⟨hp, rfl⟩ | ⟨hp, rfl⟩ |
    ⟨hp, m, hb, rfl⟩ | ⟨hp, hb, rfl⟩ | ⟨hp, rfl⟩ | ⟨hp, hl, rfl⟩ | ⟨hp, rfl⟩ | ⟨hp, rfl⟩))

theorem inv2_init : Inv2 init := by
  constructor <;> simp [init]

theorem inv2_step (P : Nat → Nat) (s s' : State) (a : Action) (hI : Inv2 s)
    (hstep : step P s a = some s') : Inv2 s' := by
  constructor
  · intro i r' hr' hpc
    rcases req_back P s s' a hstep i r' hr' with ⟨r, hr, h⟩ | ⟨_, b, rfl⟩
    · have h1 := hI.startOut i r hr
      have h2 := afterAttempt_spec r
      rcases h with ⟨_, hown⟩ | ⟨_, rfl | ⟨m, rfl⟩⟩
      · own_cases hown <;> grind [RPc.post]
      · grind
      · grind
    · simp [newReq]
  · intro i r' hr' hpc
    rcases req_back P s s' a hstep i r' hr' with ⟨r, hr, h⟩ | ⟨_, b, rfl⟩
    · have h1 := hI.postOut i r hr
      have h2 := afterAttempt_spec r
      rcases h with ⟨_, hown⟩ | ⟨_, rfl | ⟨m, rfl⟩⟩
      · own_cases hown <;> grind [RPc.post]
      · grind
      · grind
    · simp [newReq, RPc.post] at hpc
  · intro i r' hr' hpc hout
    rcases req_back P s s' a hstep i r' hr' with ⟨r, hr, h⟩ | ⟨_, b, rfl⟩
    · have h1 := hI.doneBudget i r hr
      have h2 := afterAttempt_spec r
      rcases h with ⟨_, hown⟩ | ⟨_, rfl | ⟨m, rfl⟩⟩
      · own_cases hown <;> grind [RPc.post]
      · grind
      · grind
    · simp [newReq] at hpc
  · rcases resCh_effect P s s' a hstep with h | ⟨i, r, _, _, _, h⟩ | ⟨i, r, _, _, _, h⟩
    · rw [h]; exact hI.keysNodup
    · rw [h]; exact keysNodup_store _ _ _ hI.keysNodup
    · rw [h]; exact keysNodup_erase _ _ hI.keysNodup

theorem inv2_reachable (P : Nat → Nat) (s : State) (h : Reachable P s) : Inv2 s := by
  induction h with
  | init => exact inv2_init
  | step a _ hs ih => exact inv2_step P _ _ a ih hs

theorem reachable_run (P : Nat → Nat) (l : List Action) :
    ∀ s s', Reachable P s → run P s l = some s' → Reachable P s' := by
  induction l with
  | nil => intro s s' hs h; simp [run] at h; subst h; exact hs
  | cons a l ih =>
    intro s s' hs h
    simp only [run] at h
    cases hstep : step P s a with
    | none => simp [hstep] at h
    | some s1 => simp only [hstep] at h; exact ih s1 s' (.step a hs hstep) h

/-! ### ranks and the global measure -/

/-- statements a response handler may still execute -/
def hRank : HPc → Nat
  | .lock => 4 | .lookup => 3 | .deliver _ => 2 | .unlock => 1 | .done => 0

/-- rank of a thread (`none`: no such thread) -/
def tRank (s : State) : Tid → Option Nat
  | .req i => s.reqs[i]?.map C17rank
  | .hdl j => s.hdls[j]?.map (fun h => hRank h.pc)

theorem ownNext_rank (s : State) (r r' : Req) (h : ownNext s r r') : C17rank r' < C17rank r := by
  have h2 := afterAttempt_spec r
  own_cases h <;> simp only [C17rank, C17pcRank, hp] <;> try omega
  rcases h2.2.2.2.2 with ⟨h3, _, h4, h5⟩ | ⟨h3, h4, _⟩
  · rw [h3, h5]; simp only []; omega
  · rw [h3, h4]; simp only []; omega

theorem dlvNext_rank (r r' : Req) (h : dlvNext r r') : C17rank r' = C17rank r := by
  obtain ⟨m, rfl⟩ := h; rfl

theorem hdlNext_rank (s : State) (h h' : Hdl) (hn : hdlNext s h h') : hRank h'.pc < hRank h.pc := by
  obtain ⟨_, hc⟩ := hn
  rcases hc with ⟨h1, _, h2⟩ | ⟨h1, ⟨ch, h2⟩ | h2⟩ | ⟨⟨ch, h1⟩, h2⟩ | ⟨h1, h2⟩ <;> simp [h1, h2, hRank]

/-- every action leaves the rank of every thread unchanged or smaller; the thread that executes the
action gets a strictly smaller rank -/
theorem tRank_step (P : Nat → Nat) (s s' : State) (a : Action) (hstep : step P s a = some s')
    (t : Tid) (k : Nat) (hk : tRank s t = some k) :
    ∃ k', tRank s' t = some k' ∧ k' ≤ k ∧ (actor a = some t → k' < k) := by
  cases t with
  | req i =>
    simp only [tRank, Option.map_eq_some_iff] at hk
    obtain ⟨r, hr, rfl⟩ := hk
    obtain ⟨r', hr', hc⟩ := req_effect P s s' a hstep i r hr
    refine ⟨C17rank r', by simp [tRank, hr'], ?_⟩
    rcases hc with ⟨_, hown⟩ | ⟨hne, rfl | hd⟩
    · have := ownNext_rank s r r' hown
      exact ⟨Nat.le_of_lt this, fun _ => this⟩
    · exact ⟨Nat.le_refl _, fun h => absurd h hne⟩
    · rw [dlvNext_rank r r' hd]; exact ⟨Nat.le_refl _, fun h => absurd h hne⟩
  | hdl j =>
    simp only [tRank, Option.map_eq_some_iff] at hk
    obtain ⟨h, hh, rfl⟩ := hk
    obtain ⟨h', hh', hc⟩ := hdl_effect P s s' a hstep j h hh
    refine ⟨hRank h'.pc, by simp [tRank, hh'], ?_⟩
    rcases hc with ⟨_, hn⟩ | ⟨hne, rfl⟩
    · have := hdlNext_rank s h h' hn
      exact ⟨Nat.le_of_lt this, fun _ => this⟩
    · refine ⟨Nat.le_refl _, fun h => ?_⟩
      cases a <;> simp [actor] at h
      subst h; exact absurd rfl hne

/-- total number of statements all threads present may still execute -/
def gMeasure (s : State) : Nat :=
  (s.reqs.map C17rank).sum + (s.hdls.map (fun h => hRank h.pc)).sum

/-- what an environment action adds to the measure: a delivered response starts a handler thread
(4 statements), a new call of `request` with budget `b` may execute `10 * b + 9` statements -/
def envCost : Action → Nat
  | .nDeliver _ => 4
  | .spawn b => 10 * b + 9
  | _ => 0

theorem sum_map_set {α : Type} (f : α → Nat) (l : List α) (i : Nat) (x y : α) (h : l[i]? = some y) :
    ((l.set i x).map f).sum + f y = (l.map f).sum + f x := by
  induction l generalizing i with
  | nil => simp at h
  | cons z l ih =>
    cases i with
    | zero => simp at h; subst h; simp; omega
    | succ i =>
      simp at h
      have := ih i h
      simp only [List.set_cons_succ, List.map_cons, List.sum_cons]
      omega

theorem gMeasure_step (P : Nat → Nat) (s s' : State) (a : Action) (hstep : step P s a = some s') :
    (a.isThread = true → gMeasure s' < gMeasure s) ∧
    (a.isThread = false → gMeasure s' = gMeasure s + envCost a) := by
  rcases step_shape P s s' a hstep with ⟨i, r, r', hact, hr, hreqs, hhd, hown⟩ |
      ⟨j, h, h', rfl, hh, hhd, hn, hq⟩ | ⟨hact, _, _, hq⟩
  · have h1 := sum_map_set C17rank s.reqs i r' r hr
    have h2 := ownNext_rank s r r' hown
    constructor
    · intro _; simp only [gMeasure, hreqs, hhd]; omega
    · intro hf; cases a <;> simp [actor, Action.isThread] at hact hf
  · have h1 := sum_map_set (fun h => hRank h.pc) s.hdls j h' h hh
    have h2 := hdlNext_rank s h h' hn
    constructor
    · intro _
      rcases hq with hq | ⟨ch, r, r', _, hr, hreqs, hd⟩
      · simp only [gMeasure, hq, hhd]; omega
      · have h3 := sum_map_set C17rank s.reqs ch r' r hr
        have h4 := dlvNext_rank r r' hd
        simp only [gMeasure, hreqs, hhd]; omega
    · intro hf; simp [Action.isThread] at hf
  · constructor
    · intro ht; cases a <;> simp [actor, Action.isThread] at hact ht
    · intro _
      rcases hq with ⟨hq, hq2 | ⟨k, rfl, x, hq2⟩⟩ | ⟨b, rfl, hq, hq2⟩
      · have : envCost a = 0 := by
          cases a <;> simp [actor] at hact <;> try rfl
          all_goals (exfalso; simp only [step, stepEnv] at hstep)
          · next k =>
            split at hstep
            · cases hstep; simp at hq2
            · cases hstep
          · next b =>
            cases hstep
            have := congrArg List.length hq
            simp at this
        simp only [gMeasure, hq, hq2, this]; omega
      · simp [gMeasure, hq, hq2, envCost, hRank]; omega
      · simp [gMeasure, hq, hq2, envCost, C17rank, C17pcRank, newReq]; omega

/-- number of thread statements in a schedule -/
def threadSteps (l : List Action) : Nat := (l.filter Action.isThread).length

theorem gMeasure_run (P : Nat → Nat) (l : List Action) :
    ∀ s s', run P s l = some s' → threadSteps l + gMeasure s' ≤ gMeasure s + (l.map envCost).sum := by
  induction l with
  | nil => intro s s' h; simp [run] at h; subst h; simp [threadSteps]
  | cons a l ih =>
    intro s s' h
    simp only [run] at h
    cases hstep : step P s a with
    | none => simp [hstep] at h
    | some s1 =>
      simp only [hstep] at h
      have h1 := ih s1 s' h
      have h2 := gMeasure_step P s s1 a hstep
      cases ht : a.isThread with
      | true =>
        have h3 := h2.1 ht
        simp only [threadSteps, List.filter_cons, ht, if_true, List.length_cons, List.map_cons, List.sum_cons] at h1 ⊢
        omega
      | false =>
        have h3 := h2.2 ht
        simp only [threadSteps, List.filter_cons, ht, List.map_cons, List.sum_cons] at h1 ⊢
        simp only [Bool.false_eq_true, if_false] at h1 ⊢
        omega

/-! ### infinite executions and fairness -/

/-- An infinite execution of the fixed protocol from a reachable state; `α n = none` is a stuttering
step (so finite runs are included). -/
structure Exec (P : Nat → Nat) where
  σ : Nat → State
  α : Nat → Option Action
  start : Reachable P (σ 0)
  next : ∀ n, (∃ a, α n = some a ∧ step P (σ n) a = some (σ (n + 1))) ∨ (α n = none ∧ σ (n + 1) = σ n)

/-- thread `t` can execute a statement that does not depend on the remote peer -/
def localEnabled (P : Nat → Nat) (s : State) (t : Tid) : Prop :=
  ∃ a, actor a = some t ∧ a.isLocal = true ∧ (step P s a).isSome = true

/-- thread `t` executes a statement at position `n` -/
def Exec.takes {P : Nat → Nat} (e : Exec P) (n : Nat) (t : Tid) : Prop :=
  ∃ a, e.α n = some a ∧ actor a = some t

/-- strong fairness for thread `t`: if `t` is again and again able to execute a local statement, it
executes statements again and again.  Nothing is required of the environment, and nothing about the
return of `mp.send` (a requester whose only enabled actions are `rSendOk` / `rSendErr` may stay there
forever). -/
def Exec.Fair {P : Nat → Nat} (e : Exec P) (t : Tid) : Prop :=
  (∀ n, ∃ m, n ≤ m ∧ localEnabled P (e.σ m) t) → (∀ n, ∃ m, n ≤ m ∧ e.takes m t)

theorem Exec.reachable {P : Nat → Nat} (e : Exec P) : ∀ n, Reachable P (e.σ n) := by
  intro n
  induction n with
  | zero => exact e.start
  | succ n ih =>
    rcases e.next n with ⟨a, _, h⟩ | ⟨_, h⟩
    · exact .step a ih h
    · rw [h]; exact ih

theorem Exec.rank_one {P : Nat → Nat} (e : Exec P) (t : Tid) (n k : Nat) (hk : tRank (e.σ n) t = some k) :
    ∃ k', tRank (e.σ (n + 1)) t = some k' ∧ k' ≤ k ∧ (e.takes n t → k' < k) := by
  rcases e.next n with ⟨a, ha, h⟩ | ⟨ha, h⟩
  · obtain ⟨k', h1, h2, h3⟩ := tRank_step P _ _ a h t k hk
    refine ⟨k', h1, h2, ?_⟩
    rintro ⟨a', ha', hact⟩
    rw [ha] at ha'; cases ha'
    exact h3 hact
  · refine ⟨k, by rw [h]; exact hk, Nat.le_refl _, ?_⟩
    rintro ⟨a', ha', _⟩
    rw [ha] at ha'; cases ha'

theorem Exec.rank_mono {P : Nat → Nat} (e : Exec P) (t : Tid) (n k : Nat) (hk : tRank (e.σ n) t = some k) :
    ∀ d, ∃ k', tRank (e.σ (n + d)) t = some k' ∧ k' ≤ k := by
  intro d
  induction d with
  | zero => exact ⟨k, hk, Nat.le_refl _⟩
  | succ d ih =>
    obtain ⟨k1, h1, h2⟩ := ih
    obtain ⟨k2, h3, h4, _⟩ := e.rank_one t (n + d) k1 h1
    exact ⟨k2, h3, Nat.le_trans h4 h2⟩

/-- a thread executes only finitely many statements -/
theorem Exec.finite_steps {P : Nat → Nat} (e : Exec P) (t : Tid) :
    ∀ k n, tRank (e.σ n) t = some k → ∃ N, n ≤ N ∧ ∀ m, N ≤ m → ¬ e.takes m t := by
  intro k
  induction k using Nat.strongRecOn with
  | _ k ih =>
    intro n hk
    by_cases h : ∃ m, n ≤ m ∧ e.takes m t
    · obtain ⟨m, hnm, htk⟩ := h
      obtain ⟨k1, h1, h2⟩ := e.rank_mono t n k hk (m - n)
      have : n + (m - n) = m := by omega
      rw [this] at h1
      obtain ⟨k2, h3, _, h5⟩ := e.rank_one t m k1 h1
      have hlt : k2 < k := Nat.lt_of_lt_of_le (h5 htk) h2
      obtain ⟨N, hN, hno⟩ := ih k2 hlt (m + 1) h3
      exact ⟨N, by omega, hno⟩
    · exact ⟨n, Nat.le_refl _, fun m hm htk => h ⟨m, hm, htk⟩⟩

/-- the record of a handler that executes no statement does not change -/
theorem Exec.hdl_const {P : Nat → Nat} (e : Exec P) (j N : Nat) (h : Hdl)
    (hh : (e.σ N).hdls[j]? = some h) (hno : ∀ m, N ≤ m → ¬ e.takes m (.hdl j)) :
    ∀ d, (e.σ (N + d)).hdls[j]? = some h := by
  intro d
  induction d with
  | zero => exact hh
  | succ d ih =>
    rcases e.next (N + d) with ⟨a, ha, hs⟩ | ⟨_, hs⟩
    · obtain ⟨h', hh', hc⟩ := hdl_effect P _ _ a hs j h ih
      rcases hc with ⟨rfl, _⟩ | ⟨_, rfl⟩
      · exact absurd ⟨_, ha, rfl⟩ (hno (N + d) (by omega))
      · exact hh'
    · show (e.σ (N + d + 1)).hdls[j]? = some h
      rw [hs]; exact ih

/-- the program counter of a requester that executes no statement does not change -/
theorem Exec.req_const {P : Nat → Nat} (e : Exec P) (i N : Nat) (r : Req)
    (hr : (e.σ N).reqs[i]? = some r) (hno : ∀ m, N ≤ m → ¬ e.takes m (.req i)) :
    ∀ d, ∃ r', (e.σ (N + d)).reqs[i]? = some r' ∧ r'.pc = r.pc := by
  intro d
  induction d with
  | zero => exact ⟨r, hr, rfl⟩
  | succ d ih =>
    obtain ⟨r1, hr1, hp1⟩ := ih
    rcases e.next (N + d) with ⟨a, ha, hs⟩ | ⟨_, hs⟩
    · obtain ⟨r', hr', hc⟩ := req_effect P _ _ a hs i r1 hr1
      rcases hc with ⟨hact, _⟩ | ⟨_, rfl | ⟨m, rfl⟩⟩
      · exact absurd ⟨_, ha, hact⟩ (hno (N + d) (by omega))
      · exact ⟨_, hr', hp1⟩
      · exact ⟨_, hr', hp1⟩
    · refine ⟨r1, ?_, hp1⟩
      show (e.σ (N + d + 1)).reqs[i]? = some r1
      rw [hs]; exact hr1

theorem holder_localEnabled (P : Nat → Nat) (s : State) (hs : Reachable P s) (u : Tid)
    (hl : s.lock = some u) : localEnabled P s u ∧ ∃ k, tRank s u = some k := by
  have := C17_lock_holder_never_blocks P s hs u hl
  cases u with
  | req i =>
    obtain ⟨r, hr, _, hen⟩ := this
    exact ⟨⟨.rStep i, rfl, rfl, hen⟩, C17rank r, by simp [tRank, hr]⟩
  | hdl j =>
    obtain ⟨h, hh, _, hen⟩ := this
    exact ⟨⟨.hStep j, rfl, rfl, hen⟩, hRank h.pc, by simp [tRank, hh]⟩

/-- with the lock free, every handler that is not done can execute its next statement -/
theorem hdl_localEnabled (P : Nat → Nat) (s : State) (j : Nat) (h : Hdl) (hh : s.hdls[j]? = some h)
    (hl : s.lock = none) (hnd : h.pc ≠ .done) : localEnabled P s (.hdl j) := by
  refine ⟨.hStep j, rfl, rfl, ?_⟩
  by_cases hp : h.pc = .lock
  · simp [step, hh, stepHdl, hp, hl]
  · exact (C17_only_the_lock_blocks P s).2 j h hh hnd hp

/-- with the lock free, every requester that is neither done nor inside `mp.send` can execute a
local statement -/
theorem req_localEnabled (P : Nat → Nat) (s : State) (i : Nat) (r : Req) (hr : s.reqs[i]? = some r)
    (hl : s.lock = none) (hnd : r.pc ≠ .done) (hns : r.pc ≠ .send) : localEnabled P s (.req i) := by
  cases hpc : r.pc with
  | start => exact ⟨.rStep i, rfl, rfl, by simp [step, hr, stepReq, hpc]⟩
  | regLock => exact ⟨.rStep i, rfl, rfl, by simp [step, hr, stepReq, hpc, hl]⟩
  | regStore => exact ⟨.rStep i, rfl, rfl, by simp [step, hr, stepReq, hpc]⟩
  | regUnlock => exact ⟨.rStep i, rfl, rfl, by simp [step, hr, stepReq, hpc]⟩
  | send => exact absurd hpc hns
  | wait =>
    cases hb : r.buf with
    | none => exact ⟨.rTimeout i, rfl, rfl, by simp [step, hr, hpc, hb]⟩
    | some m => exact ⟨.rRecv i, rfl, rfl, by simp [step, hr, hpc, hb]⟩
  | unLock => exact ⟨.rStep i, rfl, rfl, by simp [step, hr, stepReq, hpc, hl]⟩
  | unDelete => exact ⟨.rStep i, rfl, rfl, by simp [step, hr, stepReq, hpc]⟩
  | unUnlock => exact ⟨.rStep i, rfl, rfl, by simp [step, hr, stepReq, hpc]⟩
  | done => exact absurd hpc hnd

/-- in an execution that is fair to every thread, `resMu` is free again and again -/
theorem Exec.lock_eventually_free {P : Nat → Nat} (e : Exec P) (hf : ∀ t, e.Fair t) (n : Nat) :
    ∃ m, n ≤ m ∧ (e.σ m).lock = none := by
  apply Classical.byContradiction
  intro hno
  have hno' : ∀ m, n ≤ m → (e.σ m).lock ≠ none := fun m hm hl => hno ⟨m, hm, hl⟩
  cases hl : (e.σ n).lock with
  | none => exact hno' n (Nat.le_refl _) hl
  | some u =>
    have hpers : ∀ d, (e.σ (n + d)).lock = some u := by
      intro d
      induction d with
      | zero => exact hl
      | succ d ih =>
        rcases e.next (n + d) with ⟨a, _, hs⟩ | ⟨_, hs⟩
        · rcases lock_some_step P _ _ a hs u ih with h | h
          · exact h
          · exact absurd h (hno' (n + d + 1) (by omega))
        · show (e.σ (n + d + 1)).lock = some u
          rw [hs]; exact ih
    obtain ⟨_, k, hk⟩ := holder_localEnabled P _ (e.reachable n) u hl
    obtain ⟨N, _, hN⟩ := e.finite_steps u k n hk
    have hen : ∀ n', ∃ m, n' ≤ m ∧ localEnabled P (e.σ m) u := by
      intro n'
      exact ⟨n + n', by omega, (holder_localEnabled P _ (e.reachable _) u (hpers n')).1⟩
    obtain ⟨m, hm, htk⟩ := hf u hen N
    exact hN m hm htk

/-- Liveness of the response handlers: in an execution that is fair to every thread, every
invocation of `onResponse` returns — whatever the environment does and however many requesters
hang inside `mp.send`. -/
theorem Exec.hdl_terminates {P : Nat → Nat} (e : Exec P) (hf : ∀ t, e.Fair t) (n j : Nat) (h : Hdl)
    (hh : (e.σ n).hdls[j]? = some h) :
    ∃ m h', n ≤ m ∧ (e.σ m).hdls[j]? = some h' ∧ h'.pc = .done ∧ h'.msg = h.msg := by
  have hk : tRank (e.σ n) (.hdl j) = some (hRank h.pc) := by simp [tRank, hh]
  obtain ⟨N, hnN, hno⟩ := e.finite_steps (.hdl j) _ n hk
  -- the message of a handler never changes
  have hmsg : ∀ d, ∃ h', (e.σ (n + d)).hdls[j]? = some h' ∧ h'.msg = h.msg := by
    intro d
    induction d with
    | zero => exact ⟨h, hh, rfl⟩
    | succ d ih =>
      obtain ⟨h1, hh1, hm1⟩ := ih
      rcases e.next (n + d) with ⟨a, _, hs⟩ | ⟨_, hs⟩
      · obtain ⟨h', hh', hc⟩ := hdl_effect P _ _ a hs j h1 hh1
        rcases hc with ⟨_, hn, _⟩ | ⟨_, rfl⟩
        · exact ⟨h', hh', hn.trans hm1⟩
        · exact ⟨_, hh', hm1⟩
      · refine ⟨h1, ?_, hm1⟩
        show (e.σ (n + d + 1)).hdls[j]? = some h1
        rw [hs]; exact hh1
  obtain ⟨hN, hhN, hmN⟩ := hmsg (N - n)
  have hNeq : n + (N - n) = N := by omega
  rw [hNeq] at hhN
  have hconst := e.hdl_const j N hN hhN hno
  by_cases hd : hN.pc = .done
  · exact ⟨N, hN, hnN, hhN, hd, hmN⟩
  · exfalso
    have hen : ∀ n', ∃ m, n' ≤ m ∧ localEnabled P (e.σ m) (.hdl j) := by
      intro n'
      obtain ⟨m, hm, hl⟩ := e.lock_eventually_free hf (N + n')
      refine ⟨m, by omega, ?_⟩
      have h1 := hconst (m - N)
      have : N + (m - N) = m := by omega
      rw [this] at h1
      exact hdl_localEnabled P _ j hN h1 hl hd
    obtain ⟨m, hm, htk⟩ := hf _ hen N
    exact hno m hm htk

/-- Liveness of the requesters: in an execution that is fair to every thread, every call of
`request` returns, unless it stays inside `mp.send` forever. -/
theorem Exec.req_terminates {P : Nat → Nat} (e : Exec P) (hf : ∀ t, e.Fair t) (n i : Nat) (r : Req)
    (hr : (e.σ n).reqs[i]? = some r) :
    (∃ m r', n ≤ m ∧ (e.σ m).reqs[i]? = some r' ∧ r'.pc = .done) ∨
    (∃ m, n ≤ m ∧ ∀ k, m ≤ k → ∃ r', (e.σ k).reqs[i]? = some r' ∧ r'.pc = .send) := by
  have hk : tRank (e.σ n) (.req i) = some (C17rank r) := by simp [tRank, hr]
  obtain ⟨N, hnN, hno⟩ := e.finite_steps (.req i) _ n hk
  obtain ⟨kN, hkN, _⟩ := e.rank_mono (.req i) n _ hk (N - n)
  have hNeq : n + (N - n) = N := by omega
  rw [hNeq] at hkN
  simp only [tRank, Option.map_eq_some_iff] at hkN
  obtain ⟨rN, hrN, _⟩ := hkN
  have hconst := e.req_const i N rN hrN hno
  by_cases hd : rN.pc = .done
  · exact Or.inl ⟨N, rN, hnN, hrN, hd⟩
  · by_cases hsnd : rN.pc = .send
    · right
      refine ⟨N, hnN, fun k hk => ?_⟩
      obtain ⟨r', h1, h2⟩ := hconst (k - N)
      have : N + (k - N) = k := by omega
      rw [this] at h1
      exact ⟨r', h1, h2.trans hsnd⟩
    · exfalso
      have hen : ∀ n', ∃ m, n' ≤ m ∧ localEnabled P (e.σ m) (.req i) := by
        intro n'
        obtain ⟨m, hm, hl⟩ := e.lock_eventually_free hf (N + n')
        refine ⟨m, by omega, ?_⟩
        obtain ⟨r', h1, h2⟩ := hconst (m - N)
        have : N + (m - N) = m := by omega
        rw [this] at h1
        exact req_localEnabled P _ i r' h1 hl (by rw [h2]; exact hd) (by rw [h2]; exact hsnd)
      obtain ⟨m, hm, htk⟩ := hf _ hen N
      exact hno m hm htk

/-! ### adversarial network: forged responses -/

/-- Reachable states when the network, in addition to answering, duplicating, delaying and dropping,
may inject ANY response from the set `F` (forged responses: any id — registered, finished, not yet
issued — and any payload). -/
inductive ReachableA (P : Nat → Nat) (F : Resp → Prop) : State → Prop
  | init : ReachableA P F init
  | step {s s' : State} (a : Action) : ReachableA P F s → step P s a = some s' → ReachableA P F s'
  | forge {s : State} (m : Resp) : F m → ReachableA P F s → ReachableA P F { s with net := m :: s.net }

/-- a response is the remote handler's answer to its id, or one of the forged ones -/
def okMsg (P : Nat → Nat) (F : Resp → Prop) (m : Resp) : Prop := m.payload = P m.rid ∨ F m

/-- the part of the invariant that survives forged responses -/
structure InvA (P : Nat → Nat) (F : Resp → Prop) (s : State) : Prop where
  lockReq : ∀ (i : Nat) (r : Req), s.reqs[i]? = some r → (r.pc.holds = true ↔ s.lock = some (.req i))
  lockHdl : ∀ (j : Nat) (h : Hdl), s.hdls[j]? = some h → (h.pc.holds = true ↔ s.lock = some (.hdl j))
  lockExR : ∀ i, s.lock = some (.req i) → i < s.reqs.length
  lockExH : ∀ j, s.lock = some (.hdl j) → j < s.hdls.length
  chSound : ∀ (id i : Nat), (id, i) ∈ s.resCh → ∃ r : Req, s.reqs[i]? = some r ∧ r.id = id ∧ r.pc.registered = true
  target : ∀ (j : Nat) (h : Hdl) (ch : Nat), s.hdls[j]? = some h → h.pc = .deliver ch → s.resCh.lookup h.msg.rid = some ch
  bufA : ∀ (i : Nat) (r : Req) (m : Resp), s.reqs[i]? = some r → r.buf = some m → m.rid = r.id ∧ okMsg P F m
  outA : ∀ (i : Nat) (r : Req) (m : Resp), s.reqs[i]? = some r → r.out = some (.got m) → m.rid = r.id ∧ okMsg P F m
  msgA : ∀ (j : Nat) (h : Hdl), s.hdls[j]? = some h → okMsg P F h.msg
  netA : ∀ m : Resp, m ∈ s.net → okMsg P F m

theorem invA_init (P : Nat → Nat) (F : Resp → Prop) : InvA P F init := by
  constructor <;> simp [init]


macro "invA_fields " hI:ident : tactic => `(tactic| (
  constructor
  · have := ($hI).lockReq; have := ($hI).lockHdl; have := ($hI).lockExR; have := ($hI).lockExH; clear $hI
    grind [stepReq, afterAttempt, stepEnv, newReq, RPc.holds, HPc.holds]
  · have := ($hI).lockReq; have := ($hI).lockHdl; have := ($hI).lockExR; have := ($hI).lockExH; clear $hI
    grind [stepReq, afterAttempt, stepEnv, newReq, RPc.holds, HPc.holds]
  · have := ($hI).lockExR; clear $hI
    grind [stepReq, afterAttempt, stepEnv, newReq]
  · have := ($hI).lockExH; clear $hI
    grind [stepReq, afterAttempt, stepEnv, newReq]
  · have := ($hI).chSound; clear $hI
    grind [stepReq, afterAttempt, stepEnv, newReq, RPc.registered, storeId, mem_erase]
  · have := ($hI).target; have := ($hI).lockReq; have := ($hI).lockHdl; clear $hI
    grind [stepReq, afterAttempt, stepEnv, newReq, RPc.holds, HPc.holds, storeId]
  · first
    | assumption
    | (have := ($hI).bufA; clear $hI
       grind [stepReq, afterAttempt, stepEnv, newReq])
  · have := ($hI).outA; have := ($hI).bufA; clear $hI
    grind [stepReq, afterAttempt, stepEnv, newReq]
  · have := ($hI).msgA; have := ($hI).netA; clear $hI
    grind [stepReq, afterAttempt, stepEnv, newReq, List.mem_of_getElem?]
  · have := ($hI).netA; clear $hI
    grind [stepReq, afterAttempt, stepEnv, newReq, List.mem_of_mem_eraseIdx, okMsg]))

theorem invA_hStep (P : Nat → Nat) (F : Resp → Prop) (s s' : State) (j : Nat) (hI : InvA P F s)
    (hs : step P s (.hStep j) = some s') : InvA P F s' := by
  obtain ⟨h, hh, hc⟩ := hStep_cases P s s' j hs
  clear hs
  rcases hc with ⟨hpc, hl, rfl⟩ | ⟨ch, hpc, hl, rfl⟩ | ⟨hpc, hl, rfl⟩ | ⟨ch, r, hpc, hr, rfl⟩ | ⟨ch, hpc, hr, rfl⟩ | ⟨hpc, rfl⟩
  · invA_fields hI
  · invA_fields hI
  · invA_fields hI
  · have hid : h.msg.rid = r.id := by
      have h1 := mem_of_lookup _ _ _ (hI.target j h ch hh hpc)
      obtain ⟨r0, hr0, hid, _⟩ := hI.chSound _ _ h1
      rw [hr] at hr0; cases hr0
      exact hid.symm
    have hmsg := hI.msgA j h hh
    have hb : ∀ (i : Nat) (r1 : Req) (m : Resp),
        (s.reqs.set ch { r with buf := if r.buf = none then some h.msg else r.buf,
                                arrived := r.arrived || r.pc == .wait })[i]? = some r1 →
        r1.buf = some m → m.rid = r1.id ∧ okMsg P F m := by
      intro i r1 m h1 hm
      have hB := hI.bufA
      by_cases hic : ch = i
      · subst hic
        have hlt : ch < s.reqs.length := (List.getElem?_eq_some_iff.mp hr).1
        rw [List.getElem?_set_self hlt] at h1
        cases h1
        cases hbuf : r.buf with
        | none => simp [hbuf] at hm; subst hm; exact ⟨hid, hmsg⟩
        | some m0 => simp [hbuf] at hm; subst hm; exact hB ch r m0 hr hbuf
      · rw [List.getElem?_set_ne hic] at h1
        exact hB i r1 m h1 hm
    invA_fields hI
  · invA_fields hI
  · invA_fields hI

theorem invA_step (P : Nat → Nat) (F : Resp → Prop) (s s' : State) (a : Action) (hI : InvA P F s)
    (hs : step P s a = some s') : InvA P F s' := by
  cases a with
  | hStep j => exact invA_hStep P F s s' j hI hs
  | rStep i => simp only [step] at hs; invA_fields hI
  | rSendOk i => simp only [step] at hs; invA_fields hI
  | rSendErr i => simp only [step] at hs; invA_fields hI
  | rRecv i => simp only [step] at hs; invA_fields hI
  | rTimeout i => simp only [step] at hs; invA_fields hI
  | rCancel i => simp only [step] at hs; invA_fields hI
  | nRespond id => simp only [step] at hs; invA_fields hI
  | nDup k => simp only [step] at hs; invA_fields hI
  | nDrop k => simp only [step] at hs; invA_fields hI
  | nDeliver k => simp only [step] at hs; invA_fields hI
  | spawn b => simp only [step] at hs; invA_fields hI

theorem invA_forge (P : Nat → Nat) (F : Resp → Prop) (s : State) (m : Resp) (hm : F m)
    (hI : InvA P F s) : InvA P F { s with net := m :: s.net } := by
  refine ⟨hI.lockReq, hI.lockHdl, hI.lockExR, hI.lockExH, hI.chSound, hI.target, hI.bufA, hI.outA,
    hI.msgA, ?_⟩
  intro m' hm'
  rcases List.mem_cons.mp hm' with rfl | h
  · exact Or.inr hm
  · exact hI.netA m' h

theorem invA_reachable (P : Nat → Nat) (F : Resp → Prop) (s : State) (h : ReachableA P F s) :
    InvA P F s := by
  induction h with
  | init => exact invA_init P F
  | step a _ hs ih => exact invA_step P F _ _ a ih hs
  | forge m hm _ ih => exact invA_forge P F _ m hm ih

/-! ### a response that is in the channel is returned -/

theorem cancel_at_wait (P : Nat → Nat) (s s' : State) (a : Action) (hstep : step P s a = some s')
    (i : Nat) (r r' : Req) (hr : s.reqs[i]? = some r) (hw : r.pc = .wait)
    (hact : actor a = some (.req i)) (hr' : s'.reqs[i]? = some r')
    (hc : r'.out = some .cancelled) : a = .rCancel i := by
  cases a <;> simp only [step] at hstep <;> grind [stepReq, stepHdl, stepEnv, afterAttempt, actor]

/-- the attempt with id `x` of a requester with `b` retries left has its response: it is in the
channel while the requester waits, and afterwards it is the outcome (or, if `c`, the caller's own
cancellation is) -/
def Served (P : Nat → Nat) (x b : Nat) (c : Bool) (r : Req) : Prop :=
  r.id = x ∧ r.retries = b ∧
  ((r.pc = .wait ∧ r.buf = some ⟨x, P x⟩) ∨
   (r.pc.post = true ∧ (r.out = some (.got ⟨x, P x⟩) ∨ (c = true ∧ r.out = some .cancelled))))

theorem served_step (P : Nat → Nat) (s s' : State) (a : Action) (hstep : step P s a = some s')
    (i x b : Nat) (c : Bool) (r : Req) (hr : s.reqs[i]? = some r) (hS : Served P x b c r)
    (hc : a = .rCancel i → c = true) :
    ∃ r', s'.reqs[i]? = some r' ∧ Served P x b c r' := by
  obtain ⟨r', hr', h2⟩ := req_effect P s s' a hstep i r hr
  refine ⟨r', hr', ?_⟩
  obtain ⟨hid, hret, hS⟩ := hS
  have h3 := afterAttempt_spec r
  rcases h2 with ⟨hact, hown⟩ | ⟨_, rfl | ⟨m, rfl⟩⟩
  · have hcan := fun hw => cancel_at_wait P s s' a hstep i r r' hr hw hact hr'
    own_cases hown <;> simp only [Served] <;> grind [RPc.post]
  · exact ⟨hid, hret, hS⟩
  · refine ⟨hid, hret, ?_⟩
    rcases hS with ⟨hw, hb⟩ | hp
    · left; simp [hw, hb]
    · right; exact hp

theorem served_run (P : Nat → Nat) (l : List Action) :
    ∀ (s s' : State), run P s l = some s' → ∀ (i x b : Nat) (c : Bool) (r : Req),
      s.reqs[i]? = some r → Served P x b c r → (Action.rCancel i ∈ l → c = true) →
      ∃ r', s'.reqs[i]? = some r' ∧ Served P x b c r' := by
  induction l with
  | nil => intro s s' h i x b c r hr hS _; simp [run] at h; subst h; exact ⟨r, hr, hS⟩
  | cons a l ih =>
    intro s s' h i x b c r hr hS hc
    simp only [run] at h
    cases hstep : step P s a with
    | none => simp [hstep] at h
    | some s1 =>
      simp only [hstep] at h
      obtain ⟨r1, hr1, hS1⟩ := served_step P s s1 a hstep i x b c r hr hS
        (fun ha => hc (by simp [ha]))
      exact ih s1 s' h i x b c r1 hr1 hS1 (fun hm => hc (List.mem_cons_of_mem _ hm))

/-! ### the widened-lock variant -/

/-- requester statements when the registration critical section is extended over `mp.send`:
`Lock; resCh[id] = ch; send; (on error: delete(resCh, id);) Unlock` -/
def stepReqW (s : State) (i : Nat) (r : Req) : Option State :=
  match r.pc with
  | .regStore =>   -- `resCh[id] = ch`, then straight into `mp.send` with `resMu` still held
    some { s with resCh := storeId s.resCh r.id i, reqs := s.reqs.set i { r with pc := .send } }
  | .regUnlock =>  -- the `Unlock` after the send: return the send error, or enter the select
    if r.out = some .sendErr then some { s with lock := none, reqs := s.reqs.set i (afterAttempt r) }
    else some { s with lock := none, reqs := s.reqs.set i { r with pc := .wait } }
  | _ => stepReq s i r

def stepW (P : Nat → Nat) (s : State) (a : Action) : Option State :=
  match a with
  | .rStep i => match s.reqs[i]? with
    | some r => stepReqW s i r
    | none => none
  | .rSendOk i => match s.reqs[i]? with
    | some r => if r.pc = .send then some { s with sent := r.id :: s.sent, reqs := s.reqs.set i { r with pc := .regUnlock } } else none
    | none => none
  | .rSendErr i => match s.reqs[i]? with
    | some r =>
      if r.pc = .send then
        some { s with resCh := eraseId s.resCh r.id, reqs := s.reqs.set i { r with pc := .regUnlock, out := some .sendErr } }
      else none
    | none => none
  | a => step P s a

def runW (P : Nat → Nat) (s : State) : List Action → Option State
  | [] => some s
  | a :: as => match stepW P s a with
    | some s' => runW P s' as
    | none => none

/-- the layer is stalled behind requester 1, which sits in `mp.send` holding `resMu` -/
structure StuckW (s : State) : Prop where
  lock : s.lock = some (.req 1)
  r1 : ∃ r, s.reqs[1]? = some r ∧ r.pc = .send
  r0 : ∃ r, s.reqs[0]? = some r ∧ r.buf = none ∧
    ((r.pc = .wait ∧ r.out = none) ∨ (r.pc = .unLock ∧ (r.out = some .timeout ∨ r.out = some .cancelled)))
  hs : ∀ (j : Nat) (h : Hdl), s.hdls[j]? = some h → h.pc = .lock
  rs : ∀ (i : Nat) (r : Req), i ≠ 0 → i ≠ 1 → s.reqs[i]? = some r → r.pc = .start ∨ r.pc = .regLock

theorem stuckW_step (P : Nat → Nat) (s s' : State) (a : Action) (hS : StuckW s)
    (hne : a ≠ .rSendOk 1 ∧ a ≠ .rSendErr 1) (h : stepW P s a = some s') : StuckW s' := by
  obtain ⟨h1, h2, h3, h4, h5⟩ := hS
  cases a <;> simp only [stepW, step] at h <;> constructor <;>
    grind [stepReqW, stepReq, stepHdl, stepEnv, afterAttempt, newReq]


theorem stuckW_run (P : Nat → Nat) (l : List Action) :
    ∀ (s s' : State), StuckW s → (∀ a ∈ l, a ≠ .rSendOk 1 ∧ a ≠ .rSendErr 1) →
      runW P s l = some s' → StuckW s' := by
  induction l with
  | nil => intro s s' hS _ h; simp [runW] at h; subst h; exact hS
  | cons a l ih =>
    intro s s' hS hne h
    simp only [runW] at h
    cases hstep : stepW P s a with
    | none => simp [hstep] at h
    | some s1 =>
      simp only [hstep] at h
      exact ih s1 s' (stuckW_step P s s1 a hS (hne a (by simp)) hstep)
        (fun b hb => hne b (List.mem_cons_of_mem _ hb)) h

/-! ### a finite run, continued by stuttering, as an execution -/

/-- the state after the first `n` actions of a schedule (the last state once the schedule is used up) -/
def stateAt (P : Nat → Nat) (s : State) : List Action → Nat → State
  | [], _ => s
  | _ :: _, 0 => s
  | a :: as, n + 1 => match step P s a with
    | some s' => stateAt P s' as n
    | none => s

theorem stateAt_next (P : Nat → Nat) (l : List Action) :
    ∀ (s s' : State), run P s l = some s' → ∀ n,
      (∃ a, l[n]? = some a ∧ step P (stateAt P s l n) a = some (stateAt P s l (n + 1))) ∨
      (l[n]? = none ∧ stateAt P s l (n + 1) = stateAt P s l n) := by
  induction l with
  | nil => intro s s' _ n; right; exact ⟨rfl, rfl⟩
  | cons a l ih =>
    intro s s' h n
    simp only [run] at h
    cases hstep : step P s a with
    | none => simp [hstep] at h
    | some s1 =>
      simp only [hstep] at h
      cases n with
      | zero =>
        left
        refine ⟨a, rfl, ?_⟩
        cases l <;> simp [stateAt, hstep]
      | succ n =>
        have := ih s1 s' h n
        simpa [stateAt, hstep] using this

theorem stateAt_end (P : Nat → Nat) (l : List Action) :
    ∀ (s s' : State), run P s l = some s' → ∀ n, l.length ≤ n → stateAt P s l n = s' := by
  induction l with
  | nil => intro s s' h n _; simp [run] at h; subst h; rfl
  | cons a l ih =>
    intro s s' h n hn
    simp only [run] at h
    cases hstep : step P s a with
    | none => simp [hstep] at h
    | some s1 =>
      simp only [hstep] at h
      cases n with
      | zero => simp at hn
      | succ n =>
        simp only [stateAt, hstep]
        exact ih s1 s' h n (by simpa using hn)

/-- the execution that follows the schedule `l` from the initial state and then stutters -/
def Exec.ofRun (P : Nat → Nat) (l : List Action) (s' : State) (h : run P init l = some s') : Exec P where
  σ := stateAt P init l
  α := fun n => l[n]?
  start := by cases l <;> exact .init
  next := stateAt_next P l init s' h

/-- an execution that ends (by stuttering) in a state where no local statement is enabled is fair to
every thread -/
theorem Exec.ofRun_fair (P : Nat → Nat) (l : List Action) (s' : State) (h : run P init l = some s')
    (hq : ∀ a, a.isLocal = true → step P s' a = none) (t : Tid) : (Exec.ofRun P l s' h).Fair t := by
  intro hen
  exfalso
  obtain ⟨m, hm, a, _, hloc, hsome⟩ := hen l.length
  have : (Exec.ofRun P l s' h).σ m = s' := stateAt_end P l init s' h m hm
  rw [this, hq a hloc] at hsome
  simp at hsome

end LiskVerif.ReqResp
