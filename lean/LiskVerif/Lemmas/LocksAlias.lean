/-
Race freedom with owned (handed-out) memory regions: the lockset invariant of `Lemmas/Locks.lean`
re-proved for the criterion `obsLsOwned` of `Model/Alias.lean`.
-/
import LiskVerif.Lemmas.Locks
import LiskVerif.Model.Alias

namespace LiskVerif.Alias
open LiskVerif.Locks

theorem pathLsOwnedFrom_cons (g : List (String × String)) (own : Owner) (k : Nat) (h : Held) (a : Prim)
    (p : Path) : pathLsOwnedFrom g own k h (a :: p) =
      (obsLsOwned g own k (h, a) && pathLsOwnedFrom g own k (heldAfter h a) p) := by
  simp [pathLsOwnedFrom, trace]

/-- every thread's remaining program satisfies the criterion from its current lock set -/
def AllLsOwned (g : List (String × String)) (own : Owner) (s : State) : Prop :=
  ∀ (k : Nat) (t : Thread), s[k]? = some t → pathLsOwnedFrom g own k t.held t.prog = true

theorem allLsOwned_init (g : List (String × String)) (own : Owner) (ps : List Path)
    (h : ∀ (k : Nat) (p : Path), ps[k]? = some p → pathLsOwned g own k p = true) :
    AllLsOwned g own (initState ps) := by
  intro k t hk
  simp only [initState, List.getElem?_map, Option.map_eq_some_iff] at hk
  obtain ⟨p, hp, rfl⟩ := hk
  exact h k p hp

theorem allLsOwned_step {g : List (String × String)} {own : Owner} {s s' : State} {i : Nat}
    (hok : AllLsOwned g own s) (hs : stepT s i = some s') : AllLsOwned g own s' := by
  obtain ⟨t, t', hi, ht, rfl⟩ := stepT_some hs
  intro k x hx
  rcases getElem?_set_cases hx with ⟨rfl, rfl⟩ | ⟨_, hx'⟩
  · have hto := hok k t hi
    rcases stepThread_shape ht with ⟨h1, h2⟩ | ⟨a, rest, hp, h1, h2⟩
    · rw [h1, h2]; exact hto
    · rw [hp, pathLsOwnedFrom_cons] at hto
      rw [h1, h2]
      simp only [Bool.and_eq_true] at hto
      exact hto.2
  · exact hok k x hx'

theorem lockset_write {g : List (String × String)} {h : Held} {x : String}
    (hl : obsLockset g (h, Prim.write x) = true) : ∃ m, g.lookup x = some m ∧ (m, Mode.W) ∈ h := by
  simp only [obsLockset] at hl
  cases hg : g.lookup x with
  | none => simp [hg] at hl
  | some m => simp only [hg] at hl; exact ⟨m, rfl, holdsW_iff.mp hl⟩

theorem lockset_read {g : List (String × String)} {h : Held} {x : String}
    (hl : obsLockset g (h, Prim.read x) = true) : ∃ m md, g.lookup x = some m ∧ (m, md) ∈ h := by
  simp only [obsLockset] at hl
  cases hg : g.lookup x with
  | none => simp [hg] at hl
  | some m =>
    simp only [hg] at hl
    obtain ⟨e, he, hm⟩ := holds_iff.mp hl
    exact ⟨m, e.2, rfl, by rw [← hm]; exact he⟩

/-- the head access of thread `k` satisfies the criterion -/
theorem head_ok {g : List (String × String)} {own : Owner} {s : State} (hls : AllLsOwned g own s)
    {k : Nat} {t : Thread} (hk : s[k]? = some t) {a : Prim} {rest : Path} (hp : t.prog = a :: rest) :
    obsLsOwned g own k (t.held, a) = true := by
  have := hls k t hk
  rw [hp, pathLsOwnedFrom_cons] at this
  simp only [Bool.and_eq_true] at this
  exact this.1

theorem no_race_of_inv_owned {g : List (String × String)} {own : Owner} {s : State}
    (hls : AllLsOwned g own s) (hex : Excl s) (i j : Nat) : raceAt s i j = false := by
  cases hr : raceAt s i j with
  | false => rfl
  | true =>
    exfalso
    unfold raceAt at hr
    cases hi : s[i]? with
    | none => simp [hi] at hr
    | some ti =>
      cases hj : s[j]? with
      | none => simp [hi, hj] at hr
      | some tj =>
        simp only [hi, hj] at hr
        cases hpi : ti.prog with
        | nil => simp [hpi] at hr
        | cons a ra =>
          cases hpj : tj.prog with
          | nil => simp [hpi, hpj] at hr
          | cons b rb =>
            simp only [hpi, hpj, Bool.and_eq_true, bne_iff_ne, ne_eq] at hr
            obtain ⟨hij, hc⟩ := hr
            have hai := head_ok hls hi hpi
            have hbj := head_ok hls hj hpj
            cases a <;> cases b <;> simp [conflict] at hc
            all_goals
              subst hc
              simp only [obsLsOwned] at hai hbj
              split at hai
              · -- an owned region: both threads would have to be its owner
                rename_i o ho
                simp only [ho] at hbj
                have h1 : o = i := by simpa using hai
                have h2 : o = j := by simpa using hbj
                exact hij (h1.symm.trans h2)
              · rename_i ho
                simp only [ho] at hbj
                first
                  | (obtain ⟨m, md, hl, hm⟩ := lockset_read hai
                     obtain ⟨m', hl', hm'⟩ := lockset_write hbj
                     rw [hl] at hl'; injection hl' with hmm; subst hmm
                     exact hex j i tj ti m md (fun h => hij h.symm) hj hi hm' hm)
                  | (obtain ⟨m, hl, hm⟩ := lockset_write hai
                     obtain ⟨m', md, hl', hm'⟩ := lockset_read hbj
                     rw [hl] at hl'; injection hl' with hmm; subst hmm
                     exact hex i j ti tj m md hij hi hj hm hm')
                  | (obtain ⟨m, hl, hm⟩ := lockset_write hai
                     obtain ⟨m', hl', hm'⟩ := lockset_write hbj
                     rw [hl] at hl'; injection hl' with hmm; subst hmm
                     exact hex i j ti tj m Mode.W hij hi hj hm hm')

/-- **Race freedom with handed-out results.** Thread `k` runs `ps[k]`; every access is either to a
region owned by the accessing thread or satisfies the lockset discipline. Then no reachable state has
two distinct threads about to perform conflicting accesses. -/
theorem race_free_owned (g : List (String × String)) (own : Owner) (ps : List Path)
    (h : ∀ (k : Nat) (p : Path), ps[k]? = some p → pathLsOwned g own k p = true)
    (s : State) (hr : Reachable (initState ps) s) (i j : Nat) : raceAt s i j = false :=
  no_race_of_inv_owned
    (reachable_induction (allLsOwned_init g own ps h) (fun _ _ _ hok hs => allLsOwned_step hok hs) s hr)
    (mutual_exclusion ps s hr) i j

end LiskVerif.Alias
