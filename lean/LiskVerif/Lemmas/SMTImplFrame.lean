/-
Frame lemmas for the representation relation (Lemmas/SMTImplRep.lean): the association-list database, monotonicity
of `Arr` in the store relation, fuel, and: deleting / writing a record whose key is not the record key of any group
at or below `es` keeps `es` represented.
-/
import LiskVerif.Lemmas.SMTImplRep

namespace LiskVerif.SMTImpl
open LiskVerif LiskVerif.SMT

/-! the association-list database -/

theorem frame_dbDel_cons (kv : Bytes × Bytes) (r : DB) (k : Bytes) :
    dbDel (kv :: r) k = if kv.1 = k then dbDel r k else kv :: dbDel r k := by
  by_cases hk : kv.1 = k <;> simp [dbDel, hk]

theorem dbGet_dbDel_ne (db : DB) {k h : Bytes} (hne : k ≠ h) : dbGet (dbDel db k) h = dbGet db h := by
  induction db with
  | nil => rfl
  | cons kv r ih =>
    rw [frame_dbDel_cons]
    by_cases hk : kv.1 = k
    · have hh : ¬ kv.1 = h := fun e => hne (hk.symm.trans e)
      rw [if_pos hk, ih, dbGet, if_neg hh]
    · rw [if_neg hk, dbGet, dbGet, ih]

theorem dbGet_dbDel_self (db : DB) (k : Bytes) : dbGet (dbDel db k) k = none := by
  induction db with
  | nil => rfl
  | cons kv r ih =>
    rw [frame_dbDel_cons]
    by_cases hk : kv.1 = k
    · rw [if_pos hk, ih]
    · rw [if_neg hk, dbGet, if_neg hk, ih]

theorem dbGet_dbSet_ne (db : DB) {k h : Bytes} (v : Bytes) (hne : k ≠ h) :
    dbGet (dbSet db k v) h = dbGet db h := by
  simp [dbSet, dbGet, hne, dbGet_dbDel_ne db hne]

theorem dbGet_dbSet_self (db : DB) (k v : Bytes) : dbGet (dbSet db k v) k = some v := by
  simp [dbSet, dbGet]

/-! monotonicity of `Arr` in the store relation -/

theorem ArrTip.mono {H : HashFn} {S S' : Nat → List Entry → Bytes → Prop} {rem d : Nat} {n : Node} {es : List Entry}
    (hS : ∀ h, 2 ≤ es.length → S d es h → S' d es h) (h : ArrTip H S rem d n es) : ArrTip H S' rem d n es := by
  cases h with
  | empty => exact ArrTip.empty
  | leaf e hv => exact ArrTip.leaf e hv
  | stub es h0 h2 hs => exact ArrTip.stub es h0 h2 (hS _ h2 hs)

/-- the stubs of a tree rooted with `rem` levels left sit at the relative positions `y` of length `rem` and hold the
groups `descend y es` (at least two entries), with `d - rem` key bits left -/
theorem Arr.mono_stubs {H : HashFn} {S S' : Nat → List Entry → Bytes → Prop} {rem d : Nat} {t : LT} {es : List Entry}
    (h : Arr H S rem d t es)
    (hS : ∀ (y : Bits) (hh : Bytes), y.length = rem → 2 ≤ (descend y es).length →
      S (d - rem) (descend y es) hh → S' (d - rem) (descend y es) hh) : Arr H S' rem d t es := by
  induction h with
  | tip rem d n es ht =>
    cases ht with
    | empty => exact Arr.tip _ _ _ _ ArrTip.empty
    | leaf e hv => exact Arr.tip _ _ _ _ (ArrTip.leaf e hv)
    | stub es h0 h2 hs =>
      subst h0
      exact Arr.tip _ _ _ _ (ArrTip.stub es rfl h2 (hS [] _ rfl h2 hs))
  | br rem d l r es _ _ ihl ihr =>
    refine Arr.br rem d l r es (ihl ?_) (ihr ?_)
    · intro y hh hy h2 hs
      have := hS (false :: y) hh (by simp [hy]) h2
      rw [Nat.add_sub_add_right] at this
      exact this hs
    · intro y hh hy h2 hs
      have := hS (true :: y) hh (by simp [hy]) h2
      rw [Nat.add_sub_add_right] at this
      exact this hs

theorem Arr.mono {H : HashFn} {S S' : Nat → List Entry → Bytes → Prop} {rem d : Nat} {t : LT} {es : List Entry}
    (hS : ∀ d es h, S d es h → S' d es h) (h : Arr H S rem d t es) : Arr H S' rem d t es :=
  Arr.mono_stubs h fun _ _ _ _ hs => hS _ _ _ hs

/-! fuel -/

theorem RepSub.mono_fuel (c : Cfg) : ∀ (f f' : Nat) (db : DB) (d : Nat) (es : List Entry) (h : Bytes), f ≤ f' →
    RepSub c f db d es h → RepSub c f' db d es h := by
  intro f
  induction f with
  | zero => intro f' db d es h _ hr; exact hr.elim
  | succ f ih =>
    intro f' db d es h hle hr
    cases f' with
    | zero => omega
    | succ f' =>
      obtain ⟨T, hA, hC, hh, hg⟩ := hr
      exact ⟨T, Arr.mono (fun d es h hs => ih f' db d es h (by omega) hs) hA, hC, hh, hg⟩

theorem frame_arr_fuel (c : Cfg) (db : DB) {rem d : Nat} {T : LT} {es : List Entry}
    (h : Arr c.H (Rep c db) rem d T es) : ∃ f, Arr c.H (RepSub c f db) rem d T es := by
  induction h with
  | tip rem d n es ht =>
    cases ht with
    | empty => exact ⟨0, Arr.tip _ _ _ _ ArrTip.empty⟩
    | leaf e hv => exact ⟨0, Arr.tip _ _ _ _ (ArrTip.leaf e hv)⟩
    | stub es h0 h2 hs =>
      obtain ⟨f, hf⟩ := hs
      exact ⟨f, Arr.tip _ _ _ _ (ArrTip.stub es h0 h2 hf)⟩
  | br rem d l r es _ _ ihl ihr =>
    obtain ⟨fl, hl⟩ := ihl
    obtain ⟨fr, hr⟩ := ihr
    refine ⟨max fl fr, Arr.br rem d l r es ?_ ?_⟩
    · exact Arr.mono (fun d es h hs => RepSub.mono_fuel c fl _ db d es h (Nat.le_max_left _ _) hs) hl
    · exact Arr.mono (fun d es h hs => RepSub.mono_fuel c fr _ db d es h (Nat.le_max_right _ _) hs) hr

theorem Rep.intro (c : Cfg) {db : DB} {d : Nat} {es : List Entry} {h : Bytes} (T : LT)
    (hA : Arr c.H (Rep c db) c.sth d T es) (hC : T.Canon) (hh : h = root c.H d es)
    (hg : dbGet db h = some (SubTree.encode ⟨T.depths 0, h, T.nodes⟩)) : Rep c db d es h := by
  obtain ⟨f, hf⟩ := frame_arr_fuel c db hA
  exact ⟨f + 1, T, hf, hC, hh, hg⟩

theorem Rep.elim (c : Cfg) {db : DB} {d : Nat} {es : List Entry} {h : Bytes} (hr : Rep c db d es h) :
    ∃ T : LT, Arr c.H (Rep c db) c.sth d T es ∧ T.Canon ∧ h = root c.H d es ∧
      dbGet db h = some (SubTree.encode ⟨T.depths 0, h, T.nodes⟩) := by
  obtain ⟨f, hf⟩ := hr
  cases f with
  | zero => exact hf.elim
  | succ f =>
    obtain ⟨T, hA, hC, hh, hg⟩ := hf
    exact ⟨T, Arr.mono (fun d es h hs => ⟨f, hs⟩) hA, hC, hh, hg⟩

/-! frame: deleting / writing a record whose key is not the key of any group at or below `es` keeps `es`
represented -/

theorem frame_descend_append (x y : Bits) (es : List Entry) : descend (x ++ y) es = descend y (descend x es) := by
  induction x generalizing es with
  | nil => rfl
  | cons b x ih =>
    cases b with
    | false => exact ih (goL es)
    | true => exact ih (goR es)

theorem Avoids.descend {H : HashFn} {k : Bytes} {d : Nat} {es : List Entry} (h : Avoids H k d es) (y : Bits) :
    Avoids H k (d - y.length) (descend y es) := by
  intro x h2
  have := h (y ++ x)
  rw [frame_descend_append, List.length_append, ← Nat.sub_sub] at this
  exact this h2

/-- the frame argument for any change of the store that keeps the reads at all keys different from `k` -/
theorem frame_repSub_of_get (c : Cfg) (k : Bytes) (db db' : DB)
    (hget : ∀ h : Bytes, k ≠ h → dbGet db' h = dbGet db h) :
    ∀ (f : Nat) (d : Nat) (es : List Entry) (h : Bytes),
    2 ≤ es.length → Avoids c.H k d es → RepSub c f db d es h → RepSub c f db' d es h := by
  intro f
  induction f with
  | zero => intro d es h _ _ hr; exact hr.elim
  | succ f ih =>
    intro d es h h2 ha hr
    obtain ⟨T, hA, hC, hh, hg⟩ := hr
    refine ⟨T, Arr.mono_stubs hA ?_, hC, hh, ?_⟩
    · intro y hh' hy hy2 hs
      have hav := ha.descend y
      rw [hy] at hav
      exact ih _ _ hh' hy2 hav hs
    · have hne : k ≠ h := by
        have := ha [] h2
        simpa [SMTImpl.descend, hh] using this
      rw [hget h hne]; exact hg

theorem RepSub.frame_del (c : Cfg) (k : Bytes) : ∀ (f : Nat) (db : DB) (d : Nat) (es : List Entry) (h : Bytes),
    2 ≤ es.length → Avoids c.H k d es → RepSub c f db d es h → RepSub c f (dbDel db k) d es h :=
  fun f db d es h => frame_repSub_of_get c k db (dbDel db k) (fun _ hne => dbGet_dbDel_ne db hne) f d es h

theorem RepSub.frame_set (c : Cfg) (k v : Bytes) : ∀ (f : Nat) (db : DB) (d : Nat) (es : List Entry) (h : Bytes),
    2 ≤ es.length → Avoids c.H k d es → RepSub c f db d es h → RepSub c f (dbSet db k v) d es h :=
  fun f db d es h => frame_repSub_of_get c k db (dbSet db k v) (fun _ hne => dbGet_dbSet_ne db v hne) f d es h

theorem Rep.frame_del (c : Cfg) {k : Bytes} {db : DB} {d : Nat} {es : List Entry} {h : Bytes}
    (h2 : 2 ≤ es.length) (ha : Avoids c.H k d es) (hr : Rep c db d es h) : Rep c (dbDel db k) d es h := by
  obtain ⟨f, hf⟩ := hr
  exact ⟨f, RepSub.frame_del c k f db d es h h2 ha hf⟩

theorem Rep.frame_set (c : Cfg) {k v : Bytes} {db : DB} {d : Nat} {es : List Entry} {h : Bytes}
    (h2 : 2 ≤ es.length) (ha : Avoids c.H k d es) (hr : Rep c db d es h) : Rep c (dbSet db k v) d es h := by
  obtain ⟨f, hf⟩ := hr
  exact ⟨f, RepSub.frame_set c k v f db d es h h2 ha hf⟩

#print axioms Rep.frame_set
#print axioms Rep.intro

end LiskVerif.SMTImpl
