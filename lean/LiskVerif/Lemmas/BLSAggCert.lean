/-
Link between the byte-level transcription of pkg/crypto/bls.go (Model/BLSAgg.lean) and the bit-list
model of Model/Cert.lean that the C06 theorems are about: `Bits.ofBytes` lists exactly the bits
`bitSet` names, `selectedKW` pairs the flagged keys with the flagged weights.
-/
import LiskVerif.Lemmas.BLSAgg
import LiskVerif.Model.Cert

namespace LiskVerif.BLSAgg
open LiskVerif.Cert (Bits bitsOfByte selectedKW)

theorem ofBytes_cons' (x : UInt8) (r : Bytes) : Bits.ofBytes (x :: r) = bitsOfByte x ++ Bits.ofBytes r := by
  simp [Bits.ofBytes]

theorem bitsOfByte_length' (b : UInt8) : (bitsOfByte b).length = 8 := by
  simp [bitsOfByte]

theorem ofBytes_length' : ∀ bs : Bytes, (Bits.ofBytes bs).length = 8 * bs.length
  | [] => rfl
  | b :: r => by
    rw [ofBytes_cons', List.length_append, ofBytes_length' r, bitsOfByte_length', List.length_cons]
    omega

private theorem idx8 : ∀ i, i < 8 → [0, 1, 2, 3, 4, 5, 6, 7][i]? = some i := by decide

theorem bitsOfByte_getElem? (x : UInt8) (i : Nat) (h : i < 8) :
    (bitsOfByte x)[i]? = some ((x.toNat / 2 ^ i) % 2 == 1) := by
  unfold bitsOfByte
  rw [List.getElem?_map, idx8 i h]
  rfl

/-- `Bits.ofBytes` lists the bits in `Bits.read` order -/
theorem ofBytes_getElem? : ∀ (bs : Bytes) (i : Nat), i < 8 * bs.length →
    (Bits.ofBytes bs)[i]? = some (bitSet bs i)
  | [], i, h => by simp at h
  | x :: r, i, h => by
    rw [ofBytes_cons']
    by_cases hi : i < 8
    · rw [List.getElem?_append_left (by rw [bitsOfByte_length']; exact hi), bitsOfByte_getElem? x i hi]
      unfold bitSet
      have h0 : i / 8 = 0 := by omega
      have h1 : i % 8 = i := by omega
      rw [h0, h1]
      rfl
    · have hge : 8 ≤ i := by omega
      rw [List.getElem?_append_right (by rw [bitsOfByte_length']; exact hge), bitsOfByte_length',
        ofBytes_getElem? r (i - 8) (by simp only [List.length_cons] at h; omega)]
      unfold bitSet
      have h0 : i / 8 = (i - 8) / 8 + 1 := by omega
      have h1 : i % 8 = (i - 8) % 8 := by omega
      rw [h0, h1]
      rfl

/-- `selectedKW` on the bits of a byte string pairs the flagged keys with the flagged weights -/
theorem selectedKW_drop (bits : Bytes) :
    ∀ (ks ws : List Nat) (i : Nat), ws.length = ks.length → i + ks.length ≤ 8 * bits.length →
      selectedKW ks ws ((Bits.ofBytes bits).drop i) = (flaggedFrom bits i ks).zip (flaggedFrom bits i ws)
  | [], _, _, _, _ => by simp [selectedKW, flaggedFrom]
  | _ :: _, [], _, hl, _ => by simp at hl
  | k :: ks, w :: ws, i, hl, h => by
    have hi : i < (Bits.ofBytes bits).length := by
      rw [ofBytes_length']; simp only [List.length_cons] at h; omega
    have hget : (Bits.ofBytes bits)[i] = bitSet bits i := by
      have := ofBytes_getElem? bits i (by rw [ofBytes_length'] at hi; exact hi)
      rw [List.getElem?_eq_getElem hi] at this
      exact Option.some.inj this
    rw [List.drop_eq_getElem_cons hi, hget]
    have ih := selectedKW_drop bits ks ws (i + 1) (by simpa using hl) (by simp only [List.length_cons] at h; omega)
    unfold selectedKW flaggedFrom
    cases hb : bitSet bits i
    · simp only [Bool.false_eq_true, if_false]; exact ih
    · simp only [if_true, List.zip_cons_cons]; rw [ih]

end LiskVerif.BLSAgg
