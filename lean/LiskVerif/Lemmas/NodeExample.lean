/-
A concrete instance of the hypotheses of the C04 / C05 theorems (non-vacuity): the state after a
genesis block, one block with a transaction and a consensus-store write on top of it.
-/
import LiskVerif.Lemmas.NodeTrans

namespace LiskVerif.Node.Example
open LiskVerif LiskVerif.Node
open LiskVerif.DiffDB (Store KV CV Cache Diff slookup clookup NoDupKeys)

def gid : Bytes := [9]
def hdr0 : Hdr := { version := 0, height := 0, generatorAddress := [], maxHeightGenerated := 0,
                    maxHeightPrevoted := 0, id := gid, previousBlockID := [], timestamp := 0 }
def g : Block := { hdr := hdr0, hdrBytes := [0], txs := [], assets := [] }

def txid : Bytes := List.replicate 32 7
def hdr1 : Hdr := { height := 1, generatorAddress := [1], maxHeightGenerated := 0,
                    maxHeightPrevoted := 0, id := [7], previousBlockID := gid, timestamp := 10 }
def b1 : Block := { hdr := hdr1, hdrBytes := [1], txs := [(txid, [42])], assets := [] }
def ov1 : Cache := [([10, 1], { init := none, value := [5], dirty := false, deleted := false })]
def x1 : Exec := { overlay := ov1, mhpc := 0, events := [] }

def cd : Codecs :=
  { encDiff := fun _ => [], decDiff := fun _ => some (diffOf ov1),
    decHdr := fun hb => if hb = [0] then some hdr0 else if hb = [1] then some hdr1 else none,
    decList := fun _ => none, decBlock := fun b => if b = encBlock b1 then some b1 else none }

def cfg : Cfg := { maxCache := 515, keepEvents := 0, genesisHeight := 0 }
def slot : Slot := { getSlotNumber := fun ts => (ts / 10 : Nat) }

def base : Store := [(kFin, encU32 0), (kHeight 0, gid), (kHeader gid, [0])]
def s0 : St := { db := base, cache := [g], log := [] }

theorem baseOK : BaseOK cd base 0 := by
  refine ⟨?_, ?_, ?_, ⟨gid, by decide⟩⟩
  · intro k v h hh
    refine ⟨0, Nat.le_refl _, ?_⟩
    simp only [base, slookup] at h
    split at h
    · rename_i he; subst he; simp [kFin] at hh
    · split at h
      · rename_i he; exact he.symm
      · split at h
        · rename_i he; subst he; simp [kHeader] at hh
        · cases h
  · intro h id hle hi
    have : h = 0 := by omega
    subst this
    have : id = gid := by
      have h2 : slookup base (kHeight 0) = some gid := by decide
      rw [h2] at hi; exact (Option.some.inj hi).symm
    subst this
    exact ⟨[0], by decide⟩
  · intro h id hb hd hle hi hhb hdec
    have : h = 0 := by omega
    subst this
    have h2 : slookup base (kHeight 0) = some gid := by decide
    rw [h2] at hi
    have : id = gid := (Option.some.inj hi).symm
    subst this
    have h3 : slookup base (kHeader gid) = some [0] := by decide
    rw [h3] at hhb
    have : hb = [0] := (Option.some.inj hhb).symm
    subst this
    simp only [cd, if_true] at hdec
    rw [← Option.some.inj hdec]
    rfl

theorem ref0 : Ref cd base 0 s0 [] := by
  refine ⟨⟨by unfold NoDupKeys; decide, ⟨0, by decide, Nat.le_refl _, Nat.le_refl _⟩, ?_, trivial,
    by simp [tipH, u32]⟩, ⟨?_, trivial, ?_, ?_⟩⟩
  · intro f _ k _; rfl
  · intro t ht
    simp only [s0, List.head?_cons, Option.some.injEq] at ht
    subst ht; rfl
  · intro t _ bx hbx; cases hbx
  · intro t ht _
    simp only [s0, List.mem_cons, List.not_mem_nil, or_false] at ht
    subst ht
    decide

theorem step1 : StepOK cd base [] b1 x1 := by
  refine ⟨⟨by decide, by decide, by decide, ?_, ?_, fun h => absurd rfl h⟩, ⟨by unfold NoDupKeys; decide, ?_, ?_⟩,
    by decide, ?_, by decide, by decide, rfl⟩
  · intro t ht
    simp only [b1, List.mem_cons, List.not_mem_nil, or_false] at ht
    subst ht; decide
  · intro t ht t' ht' _
    simp only [b1, List.mem_cons, List.not_mem_nil, or_false] at ht ht'
    subst ht; subst ht'; rfl
  · intro k cv h hd
    simp only [x1, ov1, clookup] at h
    split at h
    · simp only [Option.some.injEq] at h; subst h; simp at hd
    · cases h
  · intro k cv h _ _
    simp only [x1, ov1, clookup] at h
    split at h
    · simp only [Option.some.injEq] at h; subst h; left; rfl
    · cases h
  · intro k cv h
    simp only [x1, ov1, clookup] at h
    split at h
    · rename_i he
      simp only [Option.some.injEq] at h
      subst h; subst he
      decide
    · cases h

def ops1 : List Op := [.apply b1 true x1 false, .restart, .deleteTip true, .restart]

theorem runOK1 : RunOK cd cfg slot base s0 [] ops1 :=
  ⟨fun _ => step1, trivial, trivial, trivial, trivial⟩

end LiskVerif.Node.Example
