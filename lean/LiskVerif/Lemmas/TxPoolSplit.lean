/- C14: the promotion round with operations interleaved into its verification window
(`Model/TxPoolSplit.lean`) preserves the pool invariant. -/
import LiskVerif.Lemmas.TxPoolMore
import LiskVerif.Model.TxPoolSplit

namespace LiskVerif.TxPool

/-- `Promote` of a batch whose nonces are a run that continues the processable run (or of an empty batch)
keeps the sender-list invariant — whatever the list looked like when the batch was selected -/
theorem promote_inv_run {cfg : Cfg} {s : Nat} {a : Acct} (h : AcctInv cfg s a) (batch : List Tx) (first j : Nat)
    (hrun : batch.map (·.nonce) = List.range' first j)
    (hcont : ∀ hi, a.proc.getLast? = some hi → j = 0 ∨ first = hi + 1) :
    AcctInv cfg s (a.promote batch) ∧ (a.promote batch).txs = a.txs := by
  unfold Acct.promote
  split
  · rename_i hall
    refine ⟨⟨h.nonempty, h.nodup, h.sender, h.bound, ?_, ?_⟩, rfl⟩
    · simp only [hrun]
      by_cases hj : j = 0
      · subst hj
        cases hl : a.proc.getLast? with
        | none =>
          exact gapFree_sortUniq_append a.proc first 0 h.gapfree (by intro hi hh; rw [hl] at hh; cases hh)
        | some hi =>
          have : List.range' first 0 = List.range' (hi + 1) 0 := by simp
          rw [this]
          exact gapFree_sortUniq_append a.proc (hi + 1) 0 h.gapfree
            (by intro hi' hh; rw [hl] at hh; cases hh; rfl)
      · apply gapFree_sortUniq_append a.proc first j h.gapfree
        intro hi hh
        rcases hcont hi hh with h0 | h1
        · exact absurd h0 hj
        · exact h1
    · intro n hn
      simp only [mem_sortUniq, List.mem_append] at hn
      rcases hn with hn | hn
      · exact h.procIn n hn
      · obtain ⟨t, ht, htn⟩ := List.mem_map.1 hn
        have hc := List.all_eq_true.1 hall t ht
        cases hg : a.get t.nonce with
        | none => rw [hg] at hc; cases hc
        | some e =>
          have := get_some hg
          exact ⟨e, this.1, by rw [this.2]; exact htn⟩
  · exact ⟨h, rfl⟩

theorem head?_nonce_of_run {batch : List Tx} {first j : Nat} (hrun : batch.map (·.nonce) = List.range' first j)
    {t : Tx} (ht : batch.head? = some t) : t.nonce = first ∧ j ≠ 0 := by
  cases batch with
  | nil => cases ht
  | cons b r =>
    have hb : b = t := by simpa using ht
    subst hb
    cases j with
    | zero => simp at hrun
    | succ j =>
      rw [List.map_cons, List.range'_succ] at hrun
      exact ⟨(List.cons.inj hrun).1, by omega⟩

/-- the fixed `Promote` keeps the sender-list invariant for EVERY batch whose nonces are a run -/
theorem promoteChecked_inv {cfg : Cfg} {s : Nat} {a : Acct} (h : AcctInv cfg s a) (batch : List Tx) (first j : Nat)
    (hrun : batch.map (·.nonce) = List.range' first j) :
    AcctInv cfg s (a.promoteChecked batch) ∧ (a.promoteChecked batch).txs = a.txs := by
  unfold Acct.promoteChecked
  cases hh : batch.head? with
  | none =>
    have hb : batch = [] := by simpa using hh
    have hj : j = 0 := by
      subst hb
      cases j with
      | zero => rfl
      | succ j => rw [List.range'_succ] at hrun; cases hrun
    exact promote_inv_run h batch first j hrun (fun _ _ => Or.inl hj)
  | some t =>
    obtain ⟨htn, _⟩ := head?_nonce_of_run hrun hh
    cases hl : a.proc.getLast? with
    | none =>
      exact promote_inv_run h batch first j hrun (by intro hi hx; rw [hl] at hx; cases hx)
    | some hi =>
      simp only
      by_cases hc : (t.nonce != hi + 1) = true
      · rw [if_pos hc]; exact ⟨h, rfl⟩
      · rw [if_neg hc]
        have hf : t.nonce = hi + 1 := by simpa using hc
        apply promote_inv_run h batch first j hrun
        intro hi' hx
        rw [hl] at hx
        cases hx
        exact Or.inr (by rw [← htn]; exact hf)

/-- on the sequential path (the batch is a prefix of what is promotable NOW) the continuity re-check
never fires -/
theorem promoteChecked_promotable (a : Acct) (k : Nat) :
    a.promoteChecked (a.promotable.take k) = a.promote (a.promotable.take k) := by
  obtain ⟨first, m, hr, hfirst, hin⟩ := promotableNonces_spec a
  have hrun : (a.promotable.take k).map (·.nonce) = List.range' first (min k m) := by
    rw [List.map_take]
    unfold Acct.promotable
    rw [map_nonce_filterMap_get a _ hin, hr, take_range']
  unfold Acct.promoteChecked
  cases hh : (a.promotable.take k).head? with
  | none => rfl
  | some t =>
    obtain ⟨htn, _⟩ := head?_nonce_of_run hrun hh
    cases hl : a.proc.getLast? with
    | none => rfl
    | some hi =>
      simp only
      have := hfirst hi hl
      have hc : ¬ ((t.nonce != hi + 1) = true) := by
        rw [htn, this]; simp
      rw [if_neg hc]

/-! ### phase 1 -/

theorem promotable_run (a : Acct) :
    ∃ first m, a.promotable.map (·.nonce) = List.range' first m := by
  obtain ⟨first, m, hr, _, hin⟩ := promotableNonces_spec a
  refine ⟨first, m, ?_⟩
  unfold Acct.promotable
  rw [map_nonce_filterMap_get a _ hin, hr]

theorem reorgSnap_run (p : Pool) :
    ∀ sn ∈ reorgSnap p, ∃ first m, sn.prom.map (·.nonce) = List.range' first m := by
  intro sn hsn
  unfold reorgSnap at hsn
  obtain ⟨e, he, hes⟩ := List.mem_filterMap.1 hsn
  by_cases hem : e.2.promotable.isEmpty = true
  · rw [if_pos hem] at hes; cases hes
  · rw [if_neg hem] at hes
    have : sn = { sender := e.1, procs := e.2.processables, prom := e.2.promotable } := by
      cases hes; rfl
    subst this
    exact promotable_run e.2

/-! ### phase 2 -/

theorem promoteIn_inv_gen {cfg : Cfg} {p : Pool} (h : C14Inv cfg p) (pr : Acct → List Tx → Acct) (alive : Bool)
    (s : Nat) (batch : List Tx)
    (hpr : ∀ a, AcctInv cfg s a → AcctInv cfg s (pr a batch) ∧ (pr a batch).txs = a.txs) :
    C14Inv cfg (promoteIn pr alive p s batch) := by
  unfold promoteIn
  cases alive with
  | false => exact h
  | true =>
    simp only [if_true]
    cases ha : findAcct p.accts s with
    | none => exact h
    | some a =>
      have hai : AcctInv cfg s a := h.acctOk _ (findAcct_some ha)
      have := hpr a hai
      exact setProc_inv h ha this.1 this.2

theorem promoteIn_inv {cfg : Cfg} {p : Pool} (h : C14Inv cfg p) (alive : Bool) (s : Nat) (batch : List Tx)
    (first j : Nat) (hrun : batch.map (·.nonce) = List.range' first j) :
    C14Inv cfg (promoteIn Acct.promoteChecked alive p s batch) :=
  promoteIn_inv_gen h _ alive s batch (fun _ hai => promoteChecked_inv hai batch first j hrun)

theorem reorgApply_inv {cfg : Cfg} {p : Pool} (h : C14Inv cfg p) (v : Nat → Verdict) (alive : Bool) (sn : Snap)
    (hrun : ∃ first m, sn.prom.map (·.nonce) = List.range' first m) :
    C14Inv cfg (reorgApply Acct.promoteChecked v alive p sn) := by
  obtain ⟨first, m, hrun⟩ := hrun
  unfold reorgApply
  simp only
  cases hfi : firstInvalid v (sn.procs ++ sn.prom) with
  | none => exact promoteIn_inv h alive sn.sender sn.prom first m hrun
  | some fi =>
    simp only
    apply foldl_remove_inv
    by_cases hc : fi ≥ sn.procs.length + 1
    · rw [if_pos hc]
      apply promoteIn_inv h alive sn.sender _ first (min (fi - sn.procs.length) m)
      rw [List.map_take, hrun, take_range']
    · rw [if_neg hc]
      exact promoteIn_inv_gen h _ alive sn.sender [] (fun _ hai => ⟨hai, rfl⟩)

theorem foldl_reorgApply_inv {cfg : Cfg} (v : Nat → Verdict) (al : List Nat) (snaps : List Snap) :
    ∀ {p : Pool}, C14Inv cfg p →
      (∀ sn ∈ snaps, ∃ first m, sn.prom.map (·.nonce) = List.range' first m) →
      C14Inv cfg (snaps.foldl (fun q sn => reorgApply Acct.promoteChecked v (al.contains sn.sender) q sn) p) := by
  induction snaps with
  | nil => intro p h _; exact h
  | cons sn r ih =>
    intro p h hr
    exact ih (reorgApply_inv h v _ sn (hr sn List.mem_cons_self)) (fun x hx => hr x (List.mem_cons_of_mem _ hx))

/-! ### the window -/

theorem foldl_addT_fst (cfg : Cfg) (l : List AddArg) : ∀ (st : Pool × List Nat),
    (l.foldl (addT cfg) st).1 = l.foldl (fun q x => (add cfg q x.tx x.v x.pubOk x.tie).1) st.1 := by
  induction l with
  | nil => intro st; rfl
  | cons x r ih => intro st; rw [List.foldl_cons, List.foldl_cons, ih]; rfl

/-- the bookkeeping does not change what the operations do -/
theorem applyOpT_fst (cfg : Cfg) (st : Pool × List Nat) (op : Op) :
    (applyOpT cfg st op).1 = applyOp cfg st.1 op := by
  cases op with
  | add x => rfl
  | remove id => rfl
  | reorg v => rfl
  | applied ids => rfl
  | reverted l => exact foldl_addT_fst cfg l st

theorem foldl_applyOpT_fst (cfg : Cfg) (ops : List Op) : ∀ (st : Pool × List Nat),
    (ops.foldl (applyOpT cfg) st).1 = ops.foldl (applyOp cfg) st.1 := by
  induction ops with
  | nil => intro st; rfl
  | cons op r ih => intro st; rw [List.foldl_cons, List.foldl_cons, ih, applyOpT_fst]

theorem foldl_applyOp_inv {cfg : Cfg} (hmax : 1 ≤ cfg.maxTx) (hper : 1 ≤ cfg.maxPerAcct) (ops : List Op) :
    ∀ {p : Pool}, C14Inv cfg p → C14Inv cfg (ops.foldl (applyOp cfg) p) := by
  induction ops with
  | nil => intro p h; exact h
  | cons op r ih => intro p h; exact ih (applyOp_inv hmax hper h op)

theorem reorgSplit_inv {cfg : Cfg} (hmax : 1 ≤ cfg.maxTx) (hper : 1 ≤ cfg.maxPerAcct) {p : Pool}
    (h : C14Inv cfg p) (v : Nat → Verdict) (inner : List Op) : C14Inv cfg (reorgSplit cfg v p inner) := by
  unfold reorgSplit reorgSplitWith
  simp only
  apply foldl_reorgApply_inv
  · rw [foldl_applyOpT_fst]
    exact foldl_applyOp_inv hmax hper inner h
  · exact reorgSnap_run p

theorem announceSplit_inv {cfg : Cfg} (hmax : 1 ≤ cfg.maxTx) (hper : 1 ≤ cfg.maxPerAcct) {p : Pool}
    (h : C14Inv cfg p) (x : AddArg) (inner : List Op) : C14Inv cfg (announceSplit cfg p x inner) := by
  unfold announceSplit
  simp only
  have hq := foldl_applyOp_inv hmax hper inner h
  split
  · exact hq
  · exact add_inv hmax hper hq x.tx x.v x.pubOk x.tie

theorem applyOpX_inv {cfg : Cfg} (hmax : 1 ≤ cfg.maxTx) (hper : 1 ≤ cfg.maxPerAcct) {p : Pool}
    (h : C14Inv cfg p) (op : OpX) : C14Inv cfg (applyOpX cfg p op) := by
  cases op with
  | plain op => exact applyOp_inv hmax hper h op
  | reorgx v inner => exact reorgSplit_inv hmax hper h v inner
  | annx x inner => exact announceSplit_inv hmax hper h x inner

theorem runX_inv {cfg : Cfg} (hmax : 1 ≤ cfg.maxTx) (hper : 1 ≤ cfg.maxPerAcct) (ops : List OpX) :
    C14Inv cfg (runX cfg ops) := by
  unfold runX
  have : ∀ (p : Pool), C14Inv cfg p → C14Inv cfg (ops.foldl (applyOpX cfg) p) := by
    induction ops with
    | nil => intro p h; exact h
    | cons op r ih => intro p h; exact ih _ (applyOpX_inv hmax hper h op)
  exact this _ (init_inv cfg)

/-! ### the empty window: the split round is the sequential round -/

theorem promoteChecked_promotable_full (a : Acct) : a.promoteChecked a.promotable = a.promote a.promotable := by
  have := promoteChecked_promotable a a.promotable.length
  rwa [List.take_length] at this

/-- phase 2 right after phase 1 is the goroutine body of the sequential model -/
theorem reorgApply_eq_reorgAcct (v : Nat → Verdict) {q : Pool} {s : Nat} {a : Acct}
    (ha : findAcct q.accts s = some a) (hne : ¬ a.promotable.isEmpty = true) :
    reorgApply Acct.promoteChecked v true q { sender := s, procs := a.processables, prom := a.promotable } =
      reorgAcct v q s := by
  unfold reorgApply reorgAcct promoteIn
  simp only [ha, if_neg hne, if_true]
  cases firstInvalid v (a.processables ++ a.promotable) with
  | none => simp only [promoteChecked_promotable_full]
  | some fi =>
    simp only
    by_cases hc : fi ≥ a.processables.length + 1
    · simp only [if_pos hc, promoteChecked_promotable]
    · simp only [if_neg hc]

/-- the snapshot taken by the goroutine of one registered list -/
def snapOf (e : Nat × Acct) : Option Snap :=
  if e.2.promotable.isEmpty then none
  else some { sender := e.1, procs := e.2.processables, prom := e.2.promotable }

theorem reorgSnap_eq (p : Pool) : reorgSnap p = p.accts.filterMap snapOf := rfl

theorem foldl_split_eq_seq {cfg : Cfg} (v : Nat → Verdict) (al : List Nat) :
    ∀ (es : List (Nat × Acct)) (q : Pool), C14Inv cfg q → (es.map (·.1)).Nodup →
      (∀ e ∈ es, findAcct q.accts e.1 = some e.2) →
      (∀ e ∈ es, ∀ sn, snapOf e = some sn → al.contains sn.sender = true) →
      (es.filterMap snapOf).foldl (fun q sn => reorgApply Acct.promoteChecked v (al.contains sn.sender) q sn) q =
        (es.map (·.1)).foldl (reorgAcct v) q := by
  intro es
  induction es with
  | nil => intro q _ _ _ _; rfl
  | cons e r ih =>
    intro q h hnd hfind hal
    rw [List.map_cons, List.nodup_cons] at hnd
    have he := hfind e List.mem_cons_self
    have hrest : ∀ q', C14Inv cfg q' → (∀ s', s' ≠ e.1 → findAcct q'.accts s' = findAcct q.accts s') →
        (r.filterMap snapOf).foldl (fun q sn => reorgApply Acct.promoteChecked v (al.contains sn.sender) q sn) q' =
          (r.map (·.1)).foldl (reorgAcct v) q' := by
      intro q' h' hframe
      apply ih q' h' hnd.2
      · intro x hx
        have hne : x.1 ≠ e.1 := fun hh => hnd.1 (hh ▸ List.mem_map.2 ⟨x, hx, rfl⟩)
        rw [hframe x.1 hne]
        exact hfind x (List.mem_cons_of_mem _ hx)
      · intro x hx; exact hal x (List.mem_cons_of_mem _ hx)
    by_cases hemp : e.2.promotable.isEmpty = true
    · have hs : snapOf e = none := by unfold snapOf; rw [if_pos hemp]
      have hid : reorgAcct v q e.1 = q := by
        unfold reorgAcct; simp only [he, if_pos hemp]
      rw [List.filterMap_cons, hs, List.map_cons, List.foldl_cons, hid]
      exact hrest q h (fun _ _ => rfl)
    · have hs : snapOf e = some { sender := e.1, procs := e.2.processables, prom := e.2.promotable } := by
        unfold snapOf; rw [if_neg hemp]
      rw [List.filterMap_cons, hs, List.map_cons, List.foldl_cons, List.foldl_cons]
      have hc := hal e List.mem_cons_self _ hs
      simp only at hc
      simp only [hc]
      rw [reorgApply_eq_reorgAcct v he hemp]
      exact hrest _ (reorgAcct_inv h v e.1) (fun s' hs' => (reorgAcct_exact h v e.1).2 s' hs')

/-- with nothing interleaved the two-phase round IS the sequential round (same pool, same list order) -/
theorem reorgSplit_nil {cfg : Cfg} {p : Pool} (h : C14Inv cfg p) (v : Nat → Verdict) :
    reorgSplit cfg v p [] = reorg v p := by
  unfold reorgSplit reorgSplitWith reorg
  simp only [List.foldl_nil]
  rw [reorgSnap_eq]
  apply foldl_split_eq_seq v _ p.accts p h h.acctsNodup
  · intro e he; exact findAcct_of_mem h.acctsNodup he
  · intro e he sn hs
    rw [List.contains_iff_mem]
    exact List.mem_map.2 ⟨sn, List.mem_filterMap.2 ⟨e, he, hs⟩, rfl⟩

end LiskVerif.TxPool
