/-
Lemmas for the multi-query part of the transcription of `Verify` / `CalculateRoot` / `Prove`
(Model/SMTVerify.lean).

Soundness part:
* the order of `QueryProofs.sort` (`qpLess`) is a strict total order, `collection.BinarySearch` on a sorted list
  finds the insertion point, and keys between two keys with a common bit prefix share that prefix — hence
  `insertAndMergeQueries` keeps the work list sorted with pairwise different positions (`QInv`);
* every input hashed by `CalculateRoot` is recorded by `calcTrace`;
* **`calcLoop_chain`**: when the loop of `CalculateRoot` returns a root, then for EVERY query of the work list the
  specification reconstruction `SMT.recon` along the path of that query (sibling hashes = provided sibling hashes
  or hashes of merged sibling queries) gives the same root.

Completeness part:
* positions of the canonical tree (`nh`, `Proper`, `bmOf`, `sibsOf`), what `generateQueryProof` returns
  (`queryInfo_spec`), different nodes have different hashes (`nh_injective`);
* honest work lists of verifier and prover (`HonestQ`, `HonestP`), one iteration of each loop on them;
* **`sim`**: the simulation between `calculateSiblingHashes` (with its duplicate work-list entries, tamed by the
  "already emitted / is an ancestor" tests) and `CalculateRoot` — the hashes emitted are exactly those consumed;
* the wire format of bitmaps, the first two loops of `Verify` on generated queries, and **`prove_verify`**.
-/
import LiskVerif.Lemmas.SMTVerify
import LiskVerif.Lemmas.Sort
import LiskVerif.Lemmas.Order

namespace LiskVerif.SMTVerify
open LiskVerif LiskVerif.SMT

/-! ### lexicographic order on bit strings and byte strings -/

def bitsLe : Bits → Bits → Bool
  | a :: as, b :: bs => if a = b then bitsLe as bs else (!a && b)
  | _, _ => true

def bitsLt : Bits → Bits → Bool
  | a :: as, b :: bs => if a = b then bitsLt as bs else (!a && b)
  | _, _ => false

/-- a bit string between two bit strings with a common prefix has that prefix -/
theorem bitsLe_squeeze : ∀ (h : Nat) (a b c : Bits), a.length = b.length → b.length = c.length →
    bitsLe a b = true → bitsLe b c = true → a.take h = c.take h → b.take h = a.take h
  | 0, _, _, _, _, _, _, _, _ => by simp
  | h + 1, [], b, _, hab, _, _, _, _ => by
    have : b = [] := List.length_eq_zero_iff.mp hab.symm
    simp [this]
  | h + 1, _ :: _, [], _, hab, _, _, _, _ => by simp at hab
  | h + 1, _ :: _, _ :: _, [], _, hbc, _, _, _ => by simp at hbc
  | h + 1, x :: as, y :: bs, z :: cs, hab, hbc, h1, h2, ht => by
    simp only [List.take_succ_cons, List.cons.injEq] at ht ⊢
    obtain ⟨hxz, ht⟩ := ht
    subst hxz
    simp only [bitsLe] at h1 h2
    have hab' : as.length = bs.length := by simpa using hab
    have hbc' : bs.length = cs.length := by simpa using hbc
    by_cases hxy : x = y
    · subst hxy
      simp only [↓reduceIte] at h1 h2
      exact ⟨rfl, bitsLe_squeeze h as bs cs hab' hbc' h1 h2 ht⟩
    · have hyx : ¬ y = x := fun h => hxy h.symm
      simp only [hxy, hyx, ↓reduceIte] at h1 h2
      cases x <;> cases y <;> simp_all

theorem bitsLe_append_same : ∀ (p s t : Bits), bitsLe (p ++ s) (p ++ t) = bitsLe s t
  | [], _, _ => rfl
  | a :: p, s, t => by simp [bitsLe, bitsLe_append_same p s t]

theorem bitsLe_append_of_lt : ∀ (p q s t : Bits), bitsLt p q = true → bitsLe (p ++ s) (q ++ t) = true
  | [], _, _, _, h => by simp [bitsLt] at h
  | _ :: _, [], _, _, h => by simp [bitsLt] at h
  | a :: p, b :: q, s, t, h => by
    simp only [bitsLt] at h
    simp only [List.cons_append, bitsLe]
    split
    · next hab => simp only [hab, ↓reduceIte] at h; exact bitsLe_append_of_lt p q s t h
    · next hab => simpa [hab] using h

def natBits (n : Nat) : Bits :=
  [n.testBit 7, n.testBit 6, n.testBit 5, n.testBit 4, n.testBit 3, n.testBit 2, n.testBit 1, n.testBit 0]

def nibBits (n : Nat) : Bits := [n.testBit 3, n.testBit 2, n.testBit 1, n.testBit 0]

theorem nibBits_lt : ∀ x, x < 16 → ∀ y, y < 16 → x < y → bitsLt (nibBits x) (nibBits y) = true := by
  decide +kernel

theorem natBits_split : ∀ x, x < 256 → natBits x = nibBits (x / 16) ++ nibBits (x % 16) := by
  decide +kernel

theorem bitsLt_append_left : ∀ (p q s t : Bits), bitsLt p q = true → bitsLt (p ++ s) (q ++ t) = true
  | [], _, _, _, h => by simp [bitsLt] at h
  | _ :: _, [], _, _, h => by simp [bitsLt] at h
  | a :: p, b :: q, s, t, h => by
    simp only [bitsLt] at h
    simp only [List.cons_append, bitsLt]
    split
    · next hab => simp only [hab, ↓reduceIte] at h; exact bitsLt_append_left p q s t h
    · next hab => simpa [hab] using h

theorem bitsLt_append_same : ∀ (p s t : Bits), bitsLt (p ++ s) (p ++ t) = bitsLt s t
  | [], _, _ => rfl
  | a :: p, s, t => by simp [bitsLt, bitsLt_append_same p s t]

theorem natBits_lt : ∀ x, x < 256 → ∀ y, y < 256 → x < y → bitsLt (natBits x) (natBits y) = true := by
  intro x hx y hy hxy
  rw [natBits_split x hx, natBits_split y hy]
  by_cases h : x / 16 < y / 16
  · exact bitsLt_append_left _ _ _ _ (nibBits_lt _ (by omega) _ (by omega) h)
  · have he : x / 16 = y / 16 := by omega
    rw [he, bitsLt_append_same]
    exact nibBits_lt _ (by omega) _ (by omega) (by omega)

theorem byteBits_lt {x y : UInt8} (h : x < y) : bitsLt (byteBits x) (byteBits y) = true :=
  natBits_lt x.toNat x.toNat_lt y.toNat y.toNat_lt (UInt8.lt_iff_toNat_lt.mp h)

theorem bitsLe_refl : ∀ (a : Bits), bitsLe a a = true
  | [] => rfl
  | _ :: r => by simp [bitsLe, bitsLe_refl r]

/-- `bytes.Compare` on keys of one length is the lexicographic order of their bits -/
theorem bitsLe_of_ble : ∀ (a b : Bytes), a.length = b.length → ble a b = true →
    bitsLe (keyBits a) (keyBits b) = true
  | [], _, _, _ => by simp [keyBits, bitsLe]
  | _ :: _, [], hl, _ => by simp at hl
  | x :: as, y :: bs, hl, h => by
    have hl' : as.length = bs.length := by simpa using hl
    simp only [ble, bcmp] at h
    simp only [keyBits]
    by_cases h1 : x < y
    · exact bitsLe_append_of_lt _ _ _ _ (byteBits_lt h1)
    · by_cases h2 : y < x
      · simp [h1, h2] at h
      · have hxy : x = y := u8_eq_of_not_lt h1 h2
        subst hxy
        simp only [h1, ↓reduceIte] at h
        rw [bitsLe_append_same]
        exact bitsLe_of_ble as bs hl' h

/-- **prefix squeeze**: a key between two keys (in `bytes.Compare` order, all of one length) that share their
first `h` bits shares them too -/
theorem key_squeeze (h : Nat) (a b c : Bytes) (hab : a.length = b.length) (hbc : b.length = c.length)
    (h1 : ble a b = true) (h2 : ble b c = true) (ht : (toBools a).take h = (toBools c).take h) :
    (toBools b).take h = (toBools a).take h := by
  unfold toBools at *
  exact bitsLe_squeeze h _ _ _ (by simp [keyBits_length, hab]) (by simp [keyBits_length, hbc])
    (bitsLe_of_ble a b hab h1) (bitsLe_of_ble b c hbc h2) ht

/-! ### the order of `QueryProofs.sort` -/

def qpLe (a b : QP) : Bool := !(qpLess b a)

theorem sortQPs_eq (l : List QP) : sortQPs l = isort qpLe l := rfl

theorem blt_iff_not_ble (a b : Bytes) : blt a b = true ↔ ble b a = false := by
  unfold blt ble
  have := bcmp_swap a b
  cases h1 : bcmp a b <;> cases h2 : bcmp b a <;> simp_all

theorem qpLess_iff (a b : QP) :
    qpLess a b = true ↔ a.height > b.height ∨ (a.height = b.height ∧ blt a.key b.key = true) := by
  unfold qpLess
  by_cases h : a.height = b.height
  · simp [h]
  · simp [h]

theorem qpLe_iff (a b : QP) :
    qpLe a b = true ↔ a.height > b.height ∨ (a.height = b.height ∧ ble a.key b.key = true) := by
  unfold qpLe
  rw [Bool.not_eq_true', ← Bool.not_eq_true, qpLess_iff, blt_iff_not_ble]
  by_cases h : a.height = b.height
  · simp [h]
  · have h' : ¬ b.height = a.height := fun e => h e.symm
    simp only [h, h', false_and, or_false, gt_iff_lt]
    omega

theorem qpLe_refl (a : QP) : qpLe a a = true := by
  rw [qpLe_iff]; right; exact ⟨rfl, by simp [ble, bcmp_self]⟩

theorem qpLe_trans (a b c : QP) (h1 : qpLe a b = true) (h2 : qpLe b c = true) : qpLe a c = true := by
  rw [qpLe_iff] at *
  rcases h1 with h1 | ⟨h1, k1⟩ <;> rcases h2 with h2 | ⟨h2, k2⟩
  · left; omega
  · left; omega
  · left; omega
  · right; exact ⟨by omega, ble_trans _ _ _ k1 k2⟩

theorem qpLe_total (a b : QP) : (qpLe a b || qpLe b a) = true := by
  rw [Bool.or_eq_true, qpLe_iff, qpLe_iff]
  by_cases h : a.height = b.height
  · have := ble_total a.key b.key
    rw [Bool.or_eq_true] at this
    rcases this with t | t
    · exact Or.inl (Or.inr ⟨h, t⟩)
    · exact Or.inr (Or.inr ⟨h.symm, t⟩)
  · by_cases h' : a.height > b.height
    · exact Or.inl (Or.inl h')
    · exact Or.inr (Or.inl (by omega))

theorem blt_of_blt_ble (a b c : Bytes) (h1 : blt a b = true) (h2 : ble b c = true) : blt a c = true := by
  unfold blt ble at *
  have h1' : bcmp a b = .lt := by simpa using h1
  cases hbc : bcmp b c
  · simp [bcmp_lt_trans a b c h1' hbc]
  · have := (bcmp_eq_iff b c).mp hbc; subst this; exact h1
  · simp [hbc] at h2

theorem qpLess_of_less_le (a b c : QP) (h1 : qpLess a b = true) (h2 : qpLe b c = true) : qpLess a c = true := by
  rw [qpLess_iff] at *
  rw [qpLe_iff] at h2
  rcases h1 with h1 | ⟨h1, k1⟩ <;> rcases h2 with h2 | ⟨h2, k2⟩
  · left; omega
  · left; omega
  · left; omega
  · right; exact ⟨by omega, blt_of_blt_ble _ _ _ k1 k2⟩

theorem qpLe_of_qpLess (a b : QP) (h : qpLess a b = true) : qpLe a b = true := by
  rw [qpLess_iff] at h
  rw [qpLe_iff]
  rcases h with h | ⟨h, k⟩
  · exact Or.inl h
  · right
    refine ⟨h, ?_⟩
    have := (blt_iff_not_ble _ _).mp k
    have t := ble_total a.key b.key
    simp [this] at t
    exact t

theorem qpLe_of_not_qpLess (a b : QP) (h : qpLess a b = false) : qpLe b a = true := by
  simp [qpLe, h]

theorem sortQPs_sorted (l : List QP) : (sortQPs l).Pairwise (fun a b => qpLe a b = true) :=
  isort_pairwise qpLe qpLe_trans qpLe_total l

/-! ### `collection.BinarySearch` -/

theorem bsLoop_spec {α : Type} (less : α → Bool) (l : List α) (dflt : α)
    (mono : ∀ i j, i ≤ j → j < l.length → less (l.getD i dflt) = true → less (l.getD j dflt) = true) :
    ∀ f lo hi, lo ≤ hi → hi ≤ l.length → hi - lo ≤ f →
      (∀ i, i < lo → less (l.getD i dflt) = false) →
      (∀ i, hi ≤ i → i < l.length → less (l.getD i dflt) = true) →
      bsLoop less l dflt f lo hi ≤ l.length ∧
      (∀ i, i < bsLoop less l dflt f lo hi → less (l.getD i dflt) = false) ∧
      (∀ i, bsLoop less l dflt f lo hi ≤ i → i < l.length → less (l.getD i dflt) = true) := by
  intro f
  induction f with
  | zero =>
    intro lo hi h1 h2 h3 hlo hhi
    have : lo = hi := by omega
    subst this
    exact ⟨h2, hlo, hhi⟩
  | succ f ih =>
    intro lo hi h1 h2 h3 hlo hhi
    unfold bsLoop
    by_cases hlt : lo < hi
    · simp only [hlt, ↓reduceIte]
      have hm1 : lo ≤ lo + (hi - lo + 1) / 2 - 1 := by omega
      have hm2 : lo + (hi - lo + 1) / 2 - 1 < hi := by omega
      generalize lo + (hi - lo + 1) / 2 - 1 = mid at hm1 hm2
      by_cases hless : less (l.getD mid dflt) = true
      · simp only [hless, ↓reduceIte]
        refine ih lo mid hm1 (by omega) (by omega) hlo ?_
        intro i hi1 hi2
        exact mono mid i hi1 hi2 hless
      · have hless' : less (l.getD mid dflt) = false := by simpa using hless
        simp only [hless', Bool.false_eq_true, ↓reduceIte]
        refine ih (mid + 1) hi (by omega) h2 (by omega) ?_ hhi
        intro i hi1
        cases hc : less (l.getD i dflt)
        · rfl
        · have := mono i mid (by omega) (by omega) hc
          rw [this] at hless'; cases hless'
    · simp only [hlt, ↓reduceIte]
      have : lo = hi := by omega
      subst this
      exact ⟨h2, hlo, hhi⟩

theorem getD_eq_getElem' {α : Type} (l : List α) (d : α) {i : Nat} (h : i < l.length) : l.getD i d = l[i] := by
  simp [List.getD, h]

/-- on a list on which `less` is monotone (false … false true … true) the binary search returns the boundary -/
theorem binarySearch_spec {α : Type} (less : α → Bool) (l : List α) (dflt : α)
    (mono : ∀ i j (hi : i < l.length) (hj : j < l.length), i < j → less l[i] = true → less l[j] = true) :
    binarySearch less l dflt ≤ l.length ∧
    (∀ x ∈ l.take (binarySearch less l dflt), less x = false) ∧
    (∀ x ∈ l.drop (binarySearch less l dflt), less x = true) := by
  have mono' : ∀ i j, i ≤ j → j < l.length → less (l.getD i dflt) = true → less (l.getD j dflt) = true := by
    intro i j hij hj h
    by_cases he : i = j
    · subst he; exact h
    · have hi : i < l.length := by omega
      rw [getD_eq_getElem' _ _ hi] at h
      rw [getD_eq_getElem' _ _ hj]
      exact mono i j hi hj (by omega) h
  obtain ⟨h1, h2, h3⟩ := bsLoop_spec less l dflt mono' (l.length + 1) 0 l.length (by omega) (by omega) (by omega)
    (by intro i hi; omega) (by intro i h1 h2; omega)
  refine ⟨h1, ?_, ?_⟩
  · intro x hx
    obtain ⟨i, hi, rfl⟩ := List.mem_take_iff_getElem.mp hx
    have hi' : i < l.length := by omega
    have := h2 i (by unfold binarySearch at hi; omega)
    rwa [getD_eq_getElem' _ _ hi'] at this
  · intro x hx
    obtain ⟨i, hi, rfl⟩ := List.mem_drop_iff_getElem.mp hx
    have hi' : binarySearch less l dflt + i < l.length := by omega
    have := h3 (binarySearch less l dflt + i) (by unfold binarySearch; omega) hi'
    rw [getD_eq_getElem' _ _ hi'] at this
    simpa [Nat.add_comm] using this

/-! ### `insertAndMergeQueries` -/

theorem searchPos_less (q : QP) (val : QP) :
    ((q.height == val.height && blt q.key val.key) || decide (q.height > val.height)) = qpLess q val := by
  rw [Bool.eq_iff_iff, qpLess_iff]
  simp only [Bool.or_eq_true, Bool.and_eq_true, beq_iff_eq, decide_eq_true_eq]
  constructor
  · rintro (h | h)
    · exact Or.inr h
    · exact Or.inl h
  · rintro (h | h)
    · exact Or.inr h
    · exact Or.inl h

theorem searchPos_eq (q : QP) (qs : List QP) : searchPos q qs = binarySearch (qpLess q) qs q := by
  unfold searchPos
  congr 1
  funext val
  exact searchPos_less q val

/-- what `insertAndMerge` returns: the list unchanged when a query of the same position, node hash and bitmap is
there, or the query inserted at the binary-search position when neither neighbour has its position -/
theorem insertAndMerge_some {q : QP} {qs res : List QP} (h : insertAndMerge q qs = some res) :
    (res = qs ∧ ∃ e ∈ qs, e.binaryPath = q.binaryPath ∧ e.hash = q.hash ∧ e.bm = q.bm) ∨
    (res = insertAt qs (searchPos q qs) q ∧
      (searchPos q qs = 0 ∨ ∀ e, qs[searchPos q qs - 1]? = some e → e.binaryPath ≠ q.binaryPath) ∧
      (∀ e, qs[searchPos q qs]? = some e → e.binaryPath ≠ q.binaryPath)) := by
  unfold insertAndMerge at h
  simp only at h
  generalize searchPos q qs = idx at h ⊢
  -- the check
  have hcheck : ∀ (i : Nat) (b : Bool),
      (match qs[i]? with
        | none => none
        | some original =>
          if q.binaryPath = original.binaryPath then some (q.hash = original.hash && q.bm = original.bm) else none)
        = some b →
      ∃ e, qs[i]? = some e ∧ e.binaryPath = q.binaryPath ∧ (b = true → e.hash = q.hash ∧ e.bm = q.bm) := by
    intro i b hb
    split at hb
    · simp at hb
    · next original ho =>
      split at hb
      · next hp =>
        refine ⟨original, ho, hp.symm, ?_⟩
        intro hbt
        subst hbt
        simp only [Option.some.injEq, Bool.and_eq_true, decide_eq_true_eq] at hb
        exact ⟨hb.1.symm, hb.2.symm⟩
      · simp at hb
  have hnone : ∀ (i : Nat),
      (match qs[i]? with
        | none => none
        | some original =>
          if q.binaryPath = original.binaryPath then some (decide (q.hash = original.hash) && decide (q.bm = original.bm)) else none)
        = none → ∀ e, qs[i]? = some e → e.binaryPath ≠ q.binaryPath := by
    intro i hn e he
    rw [he] at hn
    simp only at hn
    split at hn
    · simp at hn
    · next hp => exact fun h' => hp h'.symm
  split at h
  · next hfirst =>
    -- first = some true
    split at hfirst
    · simp at hfirst
    · obtain ⟨e, he, hp, hb⟩ := hcheck _ _ hfirst
      simp only [Option.some.injEq] at h
      exact Or.inl ⟨h.symm, e, List.mem_of_getElem? he, hp, (hb rfl).1, (hb rfl).2⟩
  · simp at h
  · next hfirst =>
    split at h
    · next hsecond =>
      obtain ⟨e, he, hp, hb⟩ := hcheck _ _ hsecond
      simp only [Option.some.injEq] at h
      exact Or.inl ⟨h.symm, e, List.mem_of_getElem? he, hp, (hb rfl).1, (hb rfl).2⟩
    · simp at h
    · next hsecond =>
      simp only [Option.some.injEq] at h
      refine Or.inr ⟨h.symm, ?_, hnone _ hsecond⟩
      split at hfirst
      · next h0 => exact Or.inl h0
      · exact Or.inr (hnone _ hfirst)

/-! ### the invariant of the work list of `CalculateRoot` -/

/-- keys of the tree's key length, heights within the key, sorted as `QueryProofs.sort` sorts, pairwise different
positions -/
structure QInv (keyLen : Nat) (qs : List QP) : Prop where
  klen : ∀ q ∈ qs, q.key.length = keyLen
  hle : ∀ q ∈ qs, q.height ≤ 8 * keyLen
  sorted : qs.Pairwise (fun a b => qpLe a b = true)
  distinct : qs.Pairwise (fun a b => a.binaryPath ≠ b.binaryPath)

theorem binaryPath_length {keyLen : Nat} {q : QP} (hk : q.key.length = keyLen) (hh : q.height ≤ 8 * keyLen) :
    q.binaryPath.length = q.height := by
  unfold QP.binaryPath QP.binaryKey toBools
  rw [List.length_take, keyBits_length, hk]
  omega

theorem QInv.sublist {keyLen : Nat} {qs qs' : List QP} (h : QInv keyLen qs) (hs : qs'.Sublist qs) : QInv keyLen qs' :=
  ⟨fun q hq => h.klen q (hs.subset hq), fun q hq => h.hle q (hs.subset hq), h.sorted.sublist hs, h.distinct.sublist hs⟩

theorem QInv.tail {keyLen : Nat} {a : QP} {qs : List QP} (h : QInv keyLen (a :: qs)) : QInv keyLen qs :=
  h.sublist (List.sublist_cons_self a qs)

theorem mem_insertAt {α : Type} (l : List α) (i : Nat) (a x : α) : x ∈ insertAt l i a ↔ x = a ∨ x ∈ l := by
  unfold insertAt
  rw [List.mem_append, List.mem_cons]
  constructor
  · rintro (h | h | h)
    · exact Or.inr (List.mem_of_mem_take h)
    · exact Or.inl h
    · exact Or.inr (List.mem_of_mem_drop h)
  · rintro (h | h)
    · exact Or.inr (Or.inl h)
    · rw [← List.take_append_drop i l, List.mem_append] at h
      rcases h with h | h
      · exact Or.inl h
      · exact Or.inr (Or.inr h)

/-- a query between (in sort order) two queries of one position has that position -/
theorem squeeze_path {keyLen : Nat} {a b c : QP} (ha : a.key.length = keyLen) (hb : b.key.length = keyLen)
    (hc : c.key.length = keyLen) (h1 : qpLe a b = true) (h2 : qpLe b c = true) (hh : a.height = c.height)
    (hp : a.binaryPath = c.binaryPath) : b.binaryPath = a.binaryPath := by
  rw [qpLe_iff] at h1 h2
  have hbh : b.height = a.height := by
    rcases h1 with h1 | ⟨h1, _⟩ <;> rcases h2 with h2 | ⟨h2, _⟩ <;> omega
  have k1 : ble a.key b.key = true := by
    rcases h1 with h1 | ⟨_, k⟩
    · omega
    · exact k
  have k2 : ble b.key c.key = true := by
    rcases h2 with h2 | ⟨_, k⟩
    · omega
    · exact k
  unfold QP.binaryPath QP.binaryKey at *
  rw [hbh]
  rw [← hh] at hp
  exact key_squeeze a.height a.key b.key c.key (by rw [ha, hb]) (by rw [hb, hc]) k1 k2 hp

theorem qpLess_mono {qs : List QP} (hs : qs.Pairwise (fun a b => qpLe a b = true)) (q : QP) :
    ∀ i j (hi : i < qs.length) (hj : j < qs.length), i < j → qpLess q qs[i] = true → qpLess q qs[j] = true := by
  intro i j hi hj hij h
  exact qpLess_of_less_le _ _ _ h (List.pairwise_iff_getElem.mp hs i j hi hj hij)

theorem qpLe_getElem {qs : List QP} (hs : qs.Pairwise (fun a b => qpLe a b = true)) :
    ∀ i j (hi : i < qs.length) (hj : j < qs.length), i ≤ j → qpLe qs[i] qs[j] = true := by
  intro i j hi hj hij
  by_cases he : i = j
  · subst he; exact qpLe_refl _
  · exact List.pairwise_iff_getElem.mp hs i j hi hj (by omega)

/-- when neither neighbour of the insertion point has the position of the query, no query of the list has it -/
theorem no_same_path {keyLen : Nat} {qs : List QP} (hinv : QInv keyLen qs) {q : QP} (hk : q.key.length = keyLen)
    (hh : q.height ≤ 8 * keyLen)
    (h1 : searchPos q qs = 0 ∨ ∀ e, qs[searchPos q qs - 1]? = some e → e.binaryPath ≠ q.binaryPath)
    (h2 : ∀ e, qs[searchPos q qs]? = some e → e.binaryPath ≠ q.binaryPath) :
    ∀ e ∈ qs, e.binaryPath ≠ q.binaryPath := by
  obtain ⟨hle, hA, hB⟩ := binarySearch_spec (qpLess q) qs q (qpLess_mono hinv.sorted q)
  rw [← searchPos_eq] at hle hA hB
  generalize searchPos q qs = idx at *
  intro e he hp
  have hhe : e.height = q.height := by
    rw [← binaryPath_length (hinv.klen e he) (hinv.hle e he), hp, binaryPath_length hk hh]
  rw [← List.take_append_drop idx qs, List.mem_append] at he
  rcases he with he | he
  · obtain ⟨j, hj, hje⟩ := List.mem_take_iff_getElem.mp he
    have hidx : idx ≠ 0 := by omega
    have hlt : idx - 1 < qs.length := by omega
    have hmem : qs[idx - 1] ∈ qs.take idx := List.mem_take_iff_getElem.mpr ⟨idx - 1, by omega, rfl⟩
    have hle1 : qpLe e qs[idx - 1] = true := by
      rw [← hje]; exact qpLe_getElem hinv.sorted j (idx - 1) (by omega) hlt (by omega)
    have hle2 : qpLe qs[idx - 1] q = true := qpLe_of_not_qpLess _ _ (hA _ hmem)
    have := squeeze_path (hinv.klen e (by rw [← hje]; exact List.getElem_mem _))
      (hinv.klen _ (List.getElem_mem hlt)) hk hle1 hle2 hhe hp
    rcases h1 with h1 | h1
    · exact hidx h1
    · exact h1 _ (List.getElem?_eq_getElem hlt) (this.trans hp)
  · obtain ⟨i, hi, hie⟩ := List.mem_drop_iff_getElem.mp he
    have hlt : idx < qs.length := by omega
    have hmem : qs[idx] ∈ qs.drop idx := List.mem_drop_iff_getElem.mpr ⟨0, by simpa using hlt, by simp⟩
    have hle1 : qpLe q qs[idx] = true := qpLe_of_qpLess _ _ (hB _ hmem)
    have hle2 : qpLe qs[idx] e = true := by
      rw [← hie]; exact qpLe_getElem hinv.sorted idx (idx + i) hlt (by omega) (by omega)
    have := squeeze_path hk (hinv.klen _ (List.getElem_mem hlt))
      (hinv.klen e (by rw [← hie]; exact List.getElem_mem _)) hle1 hle2 hhe.symm hp.symm
    exact h2 _ (List.getElem?_eq_getElem hlt) this

/-- `insertAndMerge` keeps the invariant; the result holds a query with the position and node hash of the
inserted one, and every query of the list -/
theorem insertAndMerge_inv {keyLen : Nat} {qs res : List QP} (hinv : QInv keyLen qs) {q : QP}
    (hk : q.key.length = keyLen) (hh : q.height ≤ 8 * keyLen) (h : insertAndMerge q qs = some res) :
    QInv keyLen res ∧ (∀ x ∈ qs, x ∈ res) ∧
      ∃ e ∈ res, e.binaryPath = q.binaryPath ∧ e.hash = q.hash ∧ e.height = q.height := by
  rcases insertAndMerge_some h with ⟨hres, e, he, hp, hhash, hbm⟩ | ⟨hres, h1, h2⟩
  · subst hres
    exact ⟨hinv, fun x hx => hx, e, he, hp, hhash, by unfold QP.height; rw [hbm]⟩
  · have hno := no_same_path hinv hk hh h1 h2
    obtain ⟨hle, hA, hB⟩ := binarySearch_spec (qpLess q) qs q (qpLess_mono hinv.sorted q)
    rw [← searchPos_eq] at hle hA hB
    subst hres
    refine ⟨⟨?_, ?_, ?_, ?_⟩, ?_, q, ?_, rfl, rfl, rfl⟩
    · intro x hx
      rcases (mem_insertAt _ _ _ _).mp hx with rfl | hx
      · exact hk
      · exact hinv.klen x hx
    · intro x hx
      rcases (mem_insertAt _ _ _ _).mp hx with rfl | hx
      · exact hh
      · exact hinv.hle x hx
    · have hs := hinv.sorted
      rw [← List.take_append_drop (searchPos q qs) qs, List.pairwise_append] at hs
      unfold insertAt
      rw [List.pairwise_append, List.pairwise_cons]
      refine ⟨hs.1, ⟨fun b hb => qpLe_of_qpLess _ _ (hB b hb), hs.2.1⟩, ?_⟩
      intro a ha b hb
      rcases List.mem_cons.mp hb with rfl | hb
      · exact qpLe_of_not_qpLess _ _ (hA a ha)
      · exact hs.2.2 a ha b hb
    · have hs := hinv.distinct
      rw [← List.take_append_drop (searchPos q qs) qs, List.pairwise_append] at hs
      unfold insertAt
      rw [List.pairwise_append, List.pairwise_cons]
      refine ⟨hs.1, ⟨fun b hb => fun e => hno b (List.mem_of_mem_drop hb) e.symm, hs.2.1⟩, ?_⟩
      intro a ha b hb
      rcases List.mem_cons.mp hb with rfl | hb
      · exact hno a (List.mem_of_mem_take ha)
      · exact hs.2.2 a ha b hb
    · intro x hx
      exact (mem_insertAt _ _ _ _).mpr (Or.inr hx)
    · exact (mem_insertAt _ _ _ _).mpr (Or.inl rfl)

/-! ### one iteration of `CalculateRoot` -/

/-- the choice of the sibling hash in one iteration of `calcLoop` (the same expression) -/
def pickSib (H : HashFn) (sibs : List Bytes) (query : QP) (b0 : Bool) (bmRest : Bits) (queries : List QP) :
    Option (Bytes × List Bytes × List QP) :=
  match queries with
  | sibling :: rest =>
    if isSiblingOf query sibling then
      let isSiblingEmpty := sibling.hash = emptyHash H
      if (isSiblingEmpty && b0) || (!isSiblingEmpty && !b0) then none
      else
        let isQueryEmpty := query.hash = emptyHash H
        let s0 := sibling.bm.headD false
        if (isQueryEmpty && s0) || (!isQueryEmpty && !s0) then none
        else if fromBools bmRest != fromBools sibling.bm.tail then none
        else some (sibling.hash, sibs, rest)
    else if !b0 then some (emptyHash H, sibs, queries)
    else match sibs with
      | [] => none
      | s :: ss => some (s, ss, queries)
  | [] =>
    if !b0 then some (emptyHash H, sibs, queries)
    else match sibs with
      | [] => none
      | s :: ss => some (s, ss, queries)

/-- the query one level up -/
def climb (H : HashFn) (query : QP) (bmRest : Bits) (siblingHash : Bytes) : QP :=
  { query with
    hash := if !(query.binaryKey.getD (query.height - 1) false) then branchHash H query.hash siblingHash
            else branchHash H siblingHash query.hash,
    bm := bmRest }

theorem calcLoop_succ_cons (H : HashFn) (f : Nat) (sibs : List Bytes) (query : QP) (queries : List QP) :
    calcLoop H (f + 1) sibs (query :: queries) =
      match query.bm with
      | [] => if sibs.isEmpty then some query.hash else none
      | b0 :: bmRest =>
        match pickSib H sibs query b0 bmRest queries with
        | none => none
        | some (siblingHash, sibs', queries') =>
          if siblingHash.isEmpty then none
          else
            match insertAndMerge (climb H query bmRest siblingHash) queries' with
            | none => none
            | some qs => calcLoop H f sibs' qs := by
  rfl

/-- the inputs hashed by `calcLoop` (every branch hash it computes), in order -/
def calcTrace (H : HashFn) : Nat → List Bytes → List QP → List Bytes
  | 0, _, _ => []
  | _ + 1, _, [] => []
  | f + 1, sibs, query :: queries =>
    match query.bm with
    | [] => []
    | b0 :: bmRest =>
      match pickSib H sibs query b0 bmRest queries with
      | none => []
      | some (siblingHash, sibs', queries') =>
        (1 :: (if !(query.binaryKey.getD (query.height - 1) false) then query.hash ++ siblingHash
               else siblingHash ++ query.hash)) ::
          match insertAndMerge (climb H query bmRest siblingHash) queries' with
          | none => []
          | some qs => calcTrace H f sibs' qs

theorem pickSib_some {H : HashFn} {sibs : List Bytes} {query : QP} {b0 : Bool} {bmRest : Bits} {queries : List QP}
    {sh : Bytes} {sibs' : List Bytes} {queries' : List QP}
    (h : pickSib H sibs query b0 bmRest queries = some (sh, sibs', queries')) :
    (∃ sibling, queries = sibling :: queries' ∧ isSiblingOf query sibling = true ∧ sh = sibling.hash) ∨
      queries' = queries := by
  unfold pickSib at h
  split at h
  · next sibling rest =>
    split at h
    · next hsib =>
      simp only at h
      split at h
      · simp at h
      · split at h
        · simp at h
        · split at h
          · simp at h
          · simp only [Option.some.injEq, Prod.mk.injEq] at h
            exact Or.inl ⟨sibling, by rw [h.2.2], hsib, h.1.symm⟩
    · split at h
      · simp only [Option.some.injEq, Prod.mk.injEq] at h
        exact Or.inr h.2.2.symm
      · split at h
        · simp at h
        · simp only [Option.some.injEq, Prod.mk.injEq] at h
          exact Or.inr h.2.2.symm
  · split at h
    · simp only [Option.some.injEq, Prod.mk.injEq] at h
      exact Or.inr h.2.2.symm
    · split at h
      · simp at h
      · simp only [Option.some.injEq, Prod.mk.injEq] at h
        exact Or.inr h.2.2.symm

/-! ### reconstruction chains -/

/-- one more (deepest) level below a reconstruction, with the inputs hashed -/
theorem recon_snoc_inputs (H : HashFn) (dir : Bool) (s x : Bytes) :
    ∀ (ds : Bits) (bs : List Bool) (ss : List Bytes) (r : Bytes),
      recon H ds bs ss (if dir then branchHash H s x else branchHash H x s) = some r →
      recon H (ds ++ [dir]) (bs ++ [true]) (ss ++ [s]) x = some r ∧
      ∀ a ∈ reconInputs H (ds ++ [dir]) (bs ++ [true]) (ss ++ [s]) x,
        a = 1 :: (if dir then s ++ x else x ++ s) ∨
        a ∈ reconInputs H ds bs ss (if dir then branchHash H s x else branchHash H x s) := by
  intro ds
  induction ds with
  | nil =>
    intro bs ss r h
    match bs, ss, h with
    | [], [], h =>
      simp only [recon, Option.some.injEq] at h
      refine ⟨by simp [recon, h], ?_⟩
      intro a ha
      simp only [List.nil_append, reconInputs, ↓reduceIte, recon, List.mem_cons, List.not_mem_nil, or_false] at ha
      exact Or.inl ha
  | cons d ds ih =>
    intro bs ss r h
    match bs, h with
    | b' :: bs', h =>
      simp only [recon] at h
      cases b'
      · simp only [Bool.false_eq_true, ↓reduceIte, Option.map_eq_some_iff] at h
        obtain ⟨sub, hs, hr⟩ := h
        obtain ⟨ih1, ih2⟩ := ih _ _ _ hs
        refine ⟨by simp only [List.cons_append, recon, Bool.false_eq_true, ↓reduceIte, ih1, Option.map_some, hr], ?_⟩
        intro a ha
        simp only [List.cons_append, reconInputs, Bool.false_eq_true, ↓reduceIte, ih1, List.mem_cons] at ha
        rcases ha with ha | ha
        · right; simp only [reconInputs, Bool.false_eq_true, ↓reduceIte, hs, List.mem_cons]; exact Or.inl ha
        · rcases ih2 a ha with h' | h'
          · exact Or.inl h'
          · right; simp only [reconInputs, Bool.false_eq_true, ↓reduceIte, hs, List.mem_cons]; exact Or.inr h'
      · simp only [↓reduceIte] at h
        match ss, h with
        | s1 :: ss1, h =>
          simp only [Option.map_eq_some_iff] at h
          obtain ⟨sub, hs, hr⟩ := h
          obtain ⟨ih1, ih2⟩ := ih _ _ _ hs
          refine ⟨by simp only [List.cons_append, recon, ↓reduceIte, ih1, Option.map_some, hr], ?_⟩
          intro a ha
          simp only [List.cons_append, reconInputs, ↓reduceIte, ih1, List.mem_cons] at ha
          rcases ha with ha | ha
          · right; simp only [reconInputs, ↓reduceIte, hs, List.mem_cons]; exact Or.inl ha
          · rcases ih2 a ha with h' | h'
            · exact Or.inl h'
            · right; simp only [reconInputs, ↓reduceIte, hs, List.mem_cons]; exact Or.inr h'

/-- the specification reconstruction along the path of query `q`, starting from its node hash, gives `r`; every
input it hashes is in `T` -/
def Chain (H : HashFn) (T : List Bytes) (q : QP) (r : Bytes) : Prop :=
  ∃ bmT ssT, bmT.length = q.height ∧ recon H q.binaryPath bmT ssT q.hash = some r ∧
    ∀ a ∈ reconInputs H q.binaryPath bmT ssT q.hash, a ∈ T

theorem Chain.mono {H : HashFn} {T T' : List Bytes} {q : QP} {r : Bytes} (h : Chain H T q r)
    (hT : ∀ a ∈ T, a ∈ T') : Chain H T' q r := by
  obtain ⟨bmT, ssT, h1, h2, h3⟩ := h
  exact ⟨bmT, ssT, h1, h2, fun a ha => hT a (h3 a ha)⟩

/-- a chain of the parent node extends to a child -/
theorem Chain.child {H : HashFn} {T T' : List Bytes} {p c : QP} {r : Bytes} (h : Chain H T p r) (dir : Bool)
    (s : Bytes) (hpath : c.binaryPath = p.binaryPath ++ [dir]) (hheight : c.height = p.height + 1)
    (hhash : p.hash = if dir then branchHash H s c.hash else branchHash H c.hash s)
    (hT : ∀ a ∈ T, a ∈ T') (hin : (1 :: (if dir then s ++ c.hash else c.hash ++ s)) ∈ T') : Chain H T' c r := by
  obtain ⟨bmT, ssT, h1, h2, h3⟩ := h
  rw [hhash] at h2 h3
  obtain ⟨k1, k2⟩ := recon_snoc_inputs H dir s c.hash _ _ _ _ h2
  refine ⟨bmT ++ [true], ssT ++ [s], by simp [h1, hheight], by rw [hpath]; exact k1, ?_⟩
  intro a ha
  rw [hpath] at ha
  rcases k2 a ha with h' | h'
  · rw [h']; exact hin
  · exact hT a (h3 a h')

theorem isSiblingOf_spec {p q : QP} (h : isSiblingOf p q = true) :
    p.height = q.height ∧ p.binaryKey.take (p.height - 1) = q.binaryKey.take (q.height - 1) ∧
    q.binaryKey.getD (p.height - 1) false = !(p.binaryKey.getD (p.height - 1) false) := by
  unfold isSiblingOf at h
  split at h
  · simp at h
  · next h1 =>
    split at h
    · simp at h
    · next h2 =>
      refine ⟨by simpa [QP.height] using h1, by simpa using h2, ?_⟩
      simp only at h
      generalize p.binaryKey.getD (p.height - 1) false = a at h ⊢
      generalize q.binaryKey.getD (p.height - 1) false = b at h ⊢
      cases a <;> cases b <;> simp_all

/-- the position of a query = the position of its parent and the last direction -/
theorem binaryPath_succ {keyLen : Nat} {q : QP} (hk : q.key.length = keyLen) (hh : q.height ≤ 8 * keyLen)
    (h1 : 1 ≤ q.height) :
    q.binaryPath = q.binaryKey.take (q.height - 1) ++ [q.binaryKey.getD (q.height - 1) false] := by
  have hlen : q.height - 1 < q.binaryKey.length := by
    unfold QP.binaryKey toBools; rw [keyBits_length, hk]; omega
  unfold QP.binaryPath
  have : q.height = (q.height - 1) + 1 := by omega
  rw [this, List.take_add_one]
  simp only [Nat.add_sub_cancel]
  congr 1
  simp [List.getD, List.getElem?_eq_getElem hlen]

theorem calcTrace_cons_nil (H : HashFn) (f : Nat) (sibs : List Bytes) (query : QP) (queries : List QP)
    (h : query.bm = []) : calcTrace H (f + 1) sibs (query :: queries) = [] := by
  simp only [calcTrace, h]

theorem calcTrace_cons_step (H : HashFn) (f : Nat) (sibs : List Bytes) (query : QP) (queries : List QP)
    {b0 : Bool} {bmRest : Bits} {sh : Bytes} {sibs' : List Bytes} {queries' qs : List QP}
    (h1 : query.bm = b0 :: bmRest) (h2 : pickSib H sibs query b0 bmRest queries = some (sh, sibs', queries'))
    (h3 : insertAndMerge (climb H query bmRest sh) queries' = some qs) :
    calcTrace H (f + 1) sibs (query :: queries) =
      (1 :: (if !(query.binaryKey.getD (query.height - 1) false) then query.hash ++ sh else sh ++ query.hash)) ::
        calcTrace H f sibs' qs := by
  simp only [calcTrace, h1, h2, h3]

/-- **Every query of the work list is verified**: when the loop of `CalculateRoot` returns `r` from a work list
satisfying the invariant, the reconstruction along the path of each query of the list gives `r`, hashing only
inputs recorded in `calcTrace`. -/
theorem calcLoop_chain (H : HashFn) (keyLen : Nat) :
    ∀ (f : Nat) (sibs : List Bytes) (qs : List QP) (r : Bytes), QInv keyLen qs →
      calcLoop H f sibs qs = some r → ∀ q ∈ qs, Chain H (calcTrace H f sibs qs) q r := by
  intro f
  induction f with
  | zero => intro sibs qs r _ h; simp [calcLoop] at h
  | succ f ih =>
    intro sibs qs r hinv h
    match qs, hinv, h with
    | [], _, h => simp [calcLoop] at h
    | query :: queries, hinv, h =>
      rw [calcLoop_succ_cons] at h
      have hqk : query.key.length = keyLen := hinv.klen query (by simp)
      have hqh : query.height ≤ 8 * keyLen := hinv.hle query (by simp)
      split at h
      · next hbm =>
        -- the root is reached: nothing else is left in the work list
        have hh0 : query.height = 0 := by simp [QP.height, hbm]
        have hnil : queries = [] := by
          cases hq : queries with
          | nil => rfl
          | cons x rest =>
            exfalso
            subst hq
            have hle := (List.pairwise_cons.mp hinv.sorted).1 x (by simp)
            have hne := (List.pairwise_cons.mp hinv.distinct).1 x (by simp)
            rw [qpLe_iff] at hle
            have hx0 : x.height = 0 := by omega
            apply hne
            unfold QP.binaryPath
            rw [hh0, hx0]; simp
        subst hnil
        intro q hq
        rw [List.mem_singleton] at hq
        subst hq
        split at h
        · simp only [Option.some.injEq] at h
          refine ⟨[], [], by simp [hh0], ?_, ?_⟩
          · unfold QP.binaryPath; rw [hh0]; simp [recon, h]
          · unfold QP.binaryPath; rw [hh0]; simp [reconInputs]
        · simp at h
      · next b0 bmRest hbm =>
        have hheight : query.height = bmRest.length + 1 := by simp [QP.height, hbm]
        split at h
        · simp at h
        · next sh sibs' queries' hpick =>
          split at h
          · simp at h
          · split at h
            · simp at h
            · next qs' hins =>
              rw [calcTrace_cons_step H f sibs query queries hbm hpick hins]
              have hck : (climb H query bmRest sh).key.length = keyLen := hqk
              have hch : (climb H query bmRest sh).height = bmRest.length := rfl
              have hinv' : QInv keyLen queries' := by
                rcases pickSib_some hpick with ⟨sibling, hqs, _, _⟩ | hqs
                · rw [hqs] at hinv; exact hinv.tail.tail
                · rw [hqs]; exact hinv.tail
              obtain ⟨hinv2, hsub, e, he, hep, heh, ehh⟩ :=
                insertAndMerge_inv hinv' hck (by rw [hch]; omega) hins
              have hIH := ih sibs' qs' r hinv2 h
              have hce := hIH e he
              generalize hdir : query.binaryKey.getD (query.height - 1) false = dir at *
              have hparent : e.binaryPath = query.binaryKey.take (query.height - 1) := by
                rw [hep]; unfold QP.binaryPath; rw [hch, hheight]; rfl
              have hquery : Chain H ((1 :: (if !dir then query.hash ++ sh else sh ++ query.hash)) ::
                  calcTrace H f sibs' qs') query r := by
                refine Chain.child hce dir sh ?_ (by rw [ehh, hch, hheight]) ?_
                  (fun a ha => List.mem_cons_of_mem _ ha) ?_
                · rw [binaryPath_succ hqk hqh (by omega), hdir, hparent]
                · rw [heh]; simp only [climb, hdir]; cases dir <;> rfl
                · cases dir <;> simp
              intro q hq
              rcases List.mem_cons.mp hq with rfl | hq
              · exact hquery
              · rcases pickSib_some hpick with ⟨sibling, hqs, hsib, hsh⟩ | hqs
                · rw [hqs] at hq
                  rcases List.mem_cons.mp hq with rfl | hq
                  · -- the merged sibling query
                    obtain ⟨s1, s2, s3⟩ := isSiblingOf_spec hsib
                    have hsk : q.key.length = keyLen := hinv.klen q (by rw [hqs]; simp)
                    have hsh' : q.height ≤ 8 * keyLen := hinv.hle q (by rw [hqs]; simp)
                    rw [hdir] at s3
                    refine Chain.child hce (!dir) query.hash ?_ (by rw [ehh, hch, ← s1, hheight]) ?_
                      (fun a ha => List.mem_cons_of_mem _ ha) ?_
                    · rw [binaryPath_succ hsk hsh' (by omega), hparent, ← s2, ← s1, s3]
                    · rw [heh, hsh]; simp only [climb, hdir]
                    · rw [hsh]; simp
                  · exact (hIH q (hsub q hq)).mono (fun a ha => List.mem_cons_of_mem _ ha)
                · rw [hqs] at hsub
                  exact (hIH q (hsub q hq)).mono (fun a ha => List.mem_cons_of_mem _ ha)

/-! ### the loops of `Verify` before `CalculateRoot` -/

/-- the query proof `Verify` builds for a query of the wire format -/
def qpOf (H : HashFn) (q : Query) : QP := mkQP H q.key q.value (stripPrefixFalse (toBools q.bitmap))

/-- the position filter: the kept queries have pairwise different positions, are query proofs of queries of the
proof, and every query of the proof is represented by a kept query of its position, node hash and bitmap -/
theorem filterQueries_spec (H : HashFn) : ∀ (qs : List Query) (acc out : List QP),
    filterQueries H qs acc = some out →
    acc.Pairwise (fun a b => a.binaryPath ≠ b.binaryPath) →
    out.Pairwise (fun a b => a.binaryPath ≠ b.binaryPath) ∧
    (∀ e ∈ out, e ∈ acc ∨ ∃ q ∈ qs, e = qpOf H q) ∧
    (∀ e ∈ acc, e ∈ out) ∧
    (∀ q ∈ qs, ∃ e ∈ out, e.binaryPath = (qpOf H q).binaryPath ∧ e.hash = (qpOf H q).hash ∧
      e.bm = (qpOf H q).bm) := by
  intro qs
  induction qs with
  | nil =>
    intro acc out h hacc
    simp only [filterQueries, Option.some.injEq] at h
    subst h
    refine ⟨?_, ?_, ?_, ?_⟩
    · rw [List.pairwise_reverse]
      exact hacc.imp (fun h e => h e.symm)
    · intro e he; exact Or.inl (List.mem_reverse.mp he)
    · intro e he; exact List.mem_reverse.mpr he
    · intro q hq; simp at hq
  | cons query qs ih =>
    intro acc out h hacc
    simp only [filterQueries] at h
    change (match acc.find? (fun e => e.binaryPath = (qpOf H query).binaryPath) with
      | none => filterQueries H qs (qpOf H query :: acc)
      | some existing =>
        if existing.hash = (qpOf H query).hash && existing.bm = (qpOf H query).bm then filterQueries H qs acc
        else none) = some out at h
    split at h
    · next hfind =>
      have hno : ∀ e ∈ acc, e.binaryPath ≠ (qpOf H query).binaryPath := by
        intro e he
        have := List.find?_eq_none.mp hfind e he
        simpa using this
      obtain ⟨h1, h2, h3, h4⟩ := ih _ _ h (List.pairwise_cons.mpr ⟨fun e he hh => hno e he hh.symm, hacc⟩)
      refine ⟨h1, ?_, fun e he => h3 e (List.mem_cons_of_mem _ he), ?_⟩
      · intro e he
        rcases h2 e he with h' | ⟨q, hq, h'⟩
        · rcases List.mem_cons.mp h' with h'' | h''
          · exact Or.inr ⟨query, by simp, h''⟩
          · exact Or.inl h''
        · exact Or.inr ⟨q, List.mem_cons_of_mem _ hq, h'⟩
      · intro q hq
        rcases List.mem_cons.mp hq with rfl | hq
        · exact ⟨qpOf H q, h3 _ (by simp), rfl, rfl, rfl⟩
        · exact h4 q hq
    · next existing hfind =>
      split at h
      · next hsame =>
        obtain ⟨h1, h2, h3, h4⟩ := ih _ _ h hacc
        refine ⟨h1, ?_, h3, ?_⟩
        · intro e he
          rcases h2 e he with h' | ⟨q, hq, h'⟩
          · exact Or.inl h'
          · exact Or.inr ⟨q, List.mem_cons_of_mem _ hq, h'⟩
        · intro q hq
          rcases List.mem_cons.mp hq with rfl | hq
          · have hp := List.find?_some hfind
            simp only [Bool.and_eq_true, decide_eq_true_eq] at hsame hp
            exact ⟨existing, h3 _ (List.mem_of_find?_eq_some hfind), hp, hsame.1, hsame.2⟩
          · exact h4 q hq
      · simp at h

theorem checkOne_none_spec {keyLen : Nat} {key : Bytes} {query : Query} {seen : List Query}
    (h : checkOne keyLen key query seen = none) :
    key.length = keyLen ∧ query.key.length = keyLen ∧
      (stripPrefixFalse (toBools query.bitmap)).length ≤ 8 * keyLen ∧
      (key = query.key ∨ (stripPrefixFalse (toBools query.bitmap)).length ≤
        commonPrefixLen (toBools key) (toBools query.key)) := by
  unfold checkOne at h
  split at h
  · simp at h
  · next h1 =>
    split at h
    · simp at h
    · next h2 =>
      split at h
      · simp at h
      · split at h
        · simp at h
        · split at h
          · simp at h
          · next h5 =>
            split at h
            · next h6 => exact ⟨by simpa using h1, by simpa using h2, by omega, Or.inl h6⟩
            · split at h
              · simp at h
              · next h7 => exact ⟨by simpa using h1, by simpa using h2, by omega, Or.inr (by omega)⟩

theorem checkQueries_getElem {keyLen : Nat} : ∀ (keys : List Bytes) (qs seen : List Query),
    checkQueries keyLen keys qs seen = none →
    ∀ i (hi : i < keys.length) (hq : i < qs.length), ∃ seen', checkOne keyLen keys[i] qs[i] seen' = none
  | [], _, _, _, i, hi, _ => by simp at hi
  | _ :: _, [], _, _, i, _, hq => by simp at hq
  | key :: keys, query :: qs, seen, h, i, hi, hq => by
    simp only [checkQueries] at h
    split at h
    · simp at h
    · next hone =>
      cases i with
      | zero => exact ⟨seen, hone⟩
      | succ i =>
        simp only [List.getElem_cons_succ]
        exact checkQueries_getElem keys qs _ h i (by simpa using hi) (by simpa using hq)

/-! ### positions in the canonical tree -/

/-- the entries below the child in direction `b` -/
def goB (b : Bool) (es : List Entry) : List Entry := if b then goR es else goL es

theorem descend_cons (es : List Entry) (b : Bool) (r : Bits) : descend es (b :: r) = descend (goB b es) r := rfl

theorem descend_append (es : List Entry) : ∀ (p q : Bits), descend es (p ++ q) = descend (descend es p) q
  | [], _ => rfl
  | b :: p, q => by simp only [List.cons_append, descend]; exact descend_append _ p q

theorem descend_snoc (es : List Entry) (p : Bits) (b : Bool) : descend es (p ++ [b]) = goB b (descend es p) := by
  rw [descend_append]; rfl

theorem length_goB_le (b : Bool) (es : List Entry) : (goB b es).length ≤ es.length := by
  unfold goB goL goR
  split <;> exact List.length_filterMap_le _ _

theorem length_descend_le (es : List Entry) : ∀ (p : Bits), (descend es p).length ≤ es.length
  | [] => Nat.le_refl _
  | b :: p => Nat.le_trans (length_descend_le _ p) (length_goB_le b es)

theorem wfe_goB {d : Nat} {es : List Entry} (h : WFE (d + 1) es) (b : Bool) : WFE d (goB b es) := by
  unfold goB; split
  · exact wfe_goR h
  · exact wfe_goL h

theorem length_goB_add (es : List Entry) (h : ∀ e ∈ es, e.path ≠ []) (b : Bool) :
    (goB b es).length + (goB (!b) es).length = es.length := by
  have := length_goL_add_goR es h
  cases b <;> simp [goB] <;> omega

/-- hash of the node at position `p` (`D` = number of key bits) -/
def nh (H : HashFn) (D : Nat) (es : List Entry) (p : Bits) : Bytes := root H (D - p.length) (descend es p)

/-- `p` is the position of a node of the canonical tree: every proper prefix is a branch -/
def Proper : List Entry → Bits → Prop
  | _, [] => True
  | es, b :: r => 2 ≤ es.length ∧ Proper (goB b es) r

theorem proper_append (es : List Entry) : ∀ (p q : Bits), Proper es (p ++ q) ↔ Proper es p ∧ Proper (descend es p) q
  | [], q => by simp [Proper, descend]
  | b :: p, q => by
    simp only [List.cons_append, Proper, descend_cons]
    rw [proper_append _ p q]
    exact and_assoc.symm

theorem proper_snoc (es : List Entry) (p : Bits) (b : Bool) :
    Proper es (p ++ [b]) ↔ Proper es p ∧ 2 ≤ (descend es p).length := by
  rw [proper_append]; simp [Proper]

/-- every proper prefix of a node position is a branch -/
theorem proper_prefix_branch {es : List Entry} {p : Bits} (hp : Proper es p) {q : Bits} {b : Bool} {r : Bits}
    (h : p = q ++ b :: r) : Proper es q ∧ 2 ≤ (descend es q).length := by
  subst h
  rw [proper_append] at hp
  exact ⟨hp.1, hp.2.1⟩

theorem wfe_descend' {D : Nat} {es : List Entry} (hw : WFE D es) (p : Bits) (h : p.length ≤ D) :
    WFE (D - p.length) (descend es p) := wfe_descend p hw h

/-- a branch node is not at the bottom level -/
theorem branch_depth {D : Nat} {es : List Entry} (hw : WFE D es) {p : Bits} (hl : p.length ≤ D)
    (h2 : 2 ≤ (descend es p).length) : p.length < D := by
  have hwd := wfe_descend' hw p hl
  by_cases h : p.length < D
  · exact h
  · have h0 : D - p.length = 0 := by omega
    rw [h0] at hwd
    have := wfe_zero_length hwd
    omega

theorem proper_length : ∀ {D : Nat} {es : List Entry} (_ : WFE D es) {p : Bits}, Proper es p → p.length ≤ D
  | _, _, _, [], _ => by simp
  | D, es, hw, b :: r, hp => by
    cases D with
    | zero => have := wfe_zero_length hw; have := hp.1; omega
    | succ D =>
      have := proper_length (wfe_goB hw b) hp.2
      simp; omega

/-- the hash of a branch node from the hashes of its children -/
theorem nh_branch (H : HashFn) {D : Nat} {es : List Entry} (hw : WFE D es) {p : Bits} (hl : p.length ≤ D)
    (h2 : 2 ≤ (descend es p).length) :
    nh H D es p = branchHash H (nh H D es (p ++ [false])) (nh H D es (p ++ [true])) := by
  have hlt := branch_depth hw hl h2
  unfold nh
  have : D - p.length = (D - (p.length + 1)) + 1 := by omega
  rw [this, root_succ_two H _ _ h2, descend_snoc, descend_snoc]
  simp [goB]

/-! ### the bitmap and the sibling hashes of a position -/

/-- bitmap of position `p`, deepest level first: is the sibling on that level non-empty? -/
def bmOf : List Entry → Bits → Bits
  | _, [] => []
  | es, b :: r => bmOf (goB b es) r ++ [!(goB (!b) es).isEmpty]

theorem bmOf_length (es : List Entry) : ∀ (p : Bits), (bmOf es p).length = p.length
  | [] => rfl
  | b :: r => by simp [bmOf, bmOf_length _ r]

theorem bmOf_snoc (es : List Entry) : ∀ (p : Bits) (b : Bool),
    bmOf es (p ++ [b]) = (!(descend es (p ++ [!b])).isEmpty) :: bmOf es p
  | [], b => by cases b <;> simp [bmOf, descend, goB]
  | c :: p, b => by
    simp only [List.cons_append, bmOf, descend_cons]
    rw [bmOf_snoc _ p b]
    simp

/-- the non-empty sibling hashes of position `p`, top level first -/
def sibsOf (H : HashFn) : Nat → List Entry → Bits → List Bytes
  | _, _, [] => []
  | d, es, b :: r =>
    (if (goB (!b) es).isEmpty then [] else [root H (d - 1) (goB (!b) es)]) ++ sibsOf H (d - 1) (goB b es) r

theorem sibsOf_snoc (H : HashFn) : ∀ (D : Nat) (es : List Entry) (p : Bits) (b : Bool),
    sibsOf H D es (p ++ [b]) = sibsOf H D es p ++
      (if (descend es (p ++ [!b])).isEmpty then [] else [nh H D es (p ++ [!b])])
  | D, es, [], b => by cases b <;> simp [sibsOf, descend, goB, nh]
  | D, es, c :: p, b => by
    simp only [List.cons_append, sibsOf, descend_cons]
    rw [sibsOf_snoc H (D - 1) _ p b]
    simp only [nh, List.length_append, List.length_cons, List.length_nil, descend_cons, List.append_assoc]
    have : D - 1 - (p.length + (0 + 1)) = D - (p.length + (0 + 1) + 1) := by omega
    rw [this]

/-! ### what `generateQueryProof` returns -/

theorem hash_buildH (H : HashFn) : ∀ (d : Nat) (es : List Entry), (buildH H d es).hash H = root H d es
  | _, [] => by simp [buildH, HT.hash]
  | _, [e] => by simp [buildH, HT.hash]
  | 0, _ :: _ :: _ => by simp [buildH, HT.hash, root]
  | d + 1, e₁ :: e₂ :: es => by
    have h1 := hash_buildH H d (goL (e₁ :: e₂ :: es))
    have h2 := hash_buildH H d (goR (e₁ :: e₂ :: es))
    show branchHash H ((buildH H d (goL (e₁ :: e₂ :: es))).hash H) ((buildH H d (goR (e₁ :: e₂ :: es))).hash H) = _
    rw [h1, h2]; simp [root]

theorem isEmpty_buildH (H : HashFn) {d : Nat} {es : List Entry} (hw : WFE d es) :
    (buildH H d es).isEmpty = es.isEmpty := by
  match d, es, hw with
  | _, [], _ => simp [buildH, HT.isEmpty]
  | _, [e], _ => simp [buildH, HT.isEmpty]
  | 0, _ :: _ :: _, hw => have := wfe_zero_length hw; simp at this
  | d + 1, _ :: _ :: _, _ => simp [buildH, HT.isEmpty]

theorem buildH_succ_two (H : HashFn) (d : Nat) (es : List Entry) (h : 2 ≤ es.length) :
    buildH H (d + 1) es = .branch (branchHash H ((buildH H d (goL es)).hash H) ((buildH H d (goR es)).hash H))
      (buildH H d (goL es)) (buildH H d (goR es)) := by
  match es, h with
  | _ :: _ :: _, _ => simp [buildH]

/-- the walk of `generateQueryProof` down the canonical tree: the node reached is a node of the tree (empty, or a
leaf), bitmap / sibling hashes / ancestor hashes are those of its position -/
theorem queryInfo_spec (H : HashFn) (qk : Bytes) :
    ∀ (d : Nat) (es : List Entry) (q : Bits), WFE d es → q.length = d → (∀ e ∈ es, e.value ≠ []) →
      (queryInfo H qk (buildH H d es) q).bm.length ≤ d ∧
      Proper es (q.take (queryInfo H qk (buildH H d es) q).bm.length) ∧
      (queryInfo H qk (buildH H d es) q).bm = bmOf es (q.take (queryInfo H qk (buildH H d es) q).bm.length) ∧
      (queryInfo H qk (buildH H d es) q).sibs = sibsOf H d es (q.take (queryInfo H qk (buildH H d es) q).bm.length) ∧
      (((queryInfo H qk (buildH H d es) q).value = [] ∧ (queryInfo H qk (buildH H d es) q).key = qk ∧
          descend es (q.take (queryInfo H qk (buildH H d es) q).bm.length) = []) ∨
       (∃ e, descend es (q.take (queryInfo H qk (buildH H d es) q).bm.length) = [e] ∧
          (queryInfo H qk (buildH H d es) q).key = e.key ∧ (queryInfo H qk (buildH H d es) q).value = e.value)) ∧
      (∀ a, a ∈ (queryInfo H qk (buildH H d es) q).anc ↔
        ∃ j, j ≤ (queryInfo H qk (buildH H d es) q).bm.length ∧ descend es (q.take j) ≠ [] ∧
          a = nh H d es (q.take j)) := by
  intro d
  induction d with
  | zero =>
    intro es q hw hq hv
    have hq0 : q = [] := List.length_eq_zero_iff.mp hq
    subst hq0
    match es, hw with
    | [], _ => simp [buildH, queryInfo, Proper, bmOf, sibsOf, descend]
    | [e], _ =>
      have := hv e (by simp)
      simp [buildH, queryInfo, Proper, bmOf, sibsOf, descend, nh]
    | e₁ :: e₂ :: r, hw => have := wfe_zero_length hw; simp at this
  | succ d ih =>
    intro es q hw hq hv
    match es, hw with
    | [], _ => simp [buildH, queryInfo, Proper, bmOf, sibsOf, descend]
    | [e], _ =>
      have := hv e (by simp)
      simp [buildH, queryInfo, Proper, bmOf, sibsOf, descend, nh]
    | e₁ :: e₂ :: r, hw =>
      match q, hq with
      | b :: qr, hq =>
        have hqr : qr.length = d := by simpa using hq
        have h2 : 2 ≤ (e₁ :: e₂ :: r).length := by simp
        generalize e₁ :: e₂ :: r = es at *
        have hvs : ∀ e ∈ goB b es, e.value ≠ [] := by
          intro e he
          cases b
          · obtain ⟨e0, he0, _, _, hv0⟩ := mem_goL.mp he; rw [hv0]; exact hv e0 he0
          · obtain ⟨e0, he0, _, _, hv0⟩ := mem_goR.mp he; rw [hv0]; exact hv e0 he0
        obtain ⟨i1, i2, i3, i4, i5, i6⟩ := ih (goB b es) qr (wfe_goB hw b) hqr hvs
        have hsub : (if b = true then buildH H d (goR es) else buildH H d (goL es)) = buildH H d (goB b es) := by
          cases b <;> rfl
        have hsib : (if b = true then buildH H d (goL es) else buildH H d (goR es)) = buildH H d (goB (!b) es) := by
          cases b <;> rfl
        rw [buildH_succ_two H d es h2]
        simp only [queryInfo, hsub, hsib, hash_buildH, isEmpty_buildH H (wfe_goB hw (!b))]
        generalize queryInfo H qk (buildH H d (goB b es)) qr = pq at *
        simp only [List.length_append, List.length_singleton, List.take_succ_cons]
        refine ⟨by omega, ⟨h2, i2⟩, ?_, ?_, ?_, ?_⟩
        · simp only [bmOf]; rw [← i3]
        · simp only [sibsOf, Nat.add_sub_cancel]; rw [← i4]
        · exact i5
        · intro a
          rw [List.mem_cons, i6]
          constructor
          · rintro (ha | ⟨j, hj, hne, ha⟩)
            · refine ⟨0, by omega, by simp [descend]; intro h0; rw [h0] at h2; simp at h2, ?_⟩
              rw [ha]; simp [nh, descend, root_succ_two H d es h2]
            · refine ⟨j + 1, by omega, by simpa [descend_cons] using hne, ?_⟩
              rw [ha]; simp [nh, descend_cons]
          · rintro ⟨j, hj, hne, ha⟩
            cases j with
            | zero => left; rw [ha]; simp [nh, descend, root_succ_two H d es h2]
            | succ j =>
              right
              refine ⟨j, by omega, by simpa [descend_cons] using hne, ?_⟩
              rw [ha]; simp [nh, descend_cons]

/-! ### different nodes have different hashes (for a hash without collisions on the inputs of the tree) -/

/-- height of the canonical tree of the entries -/
def ht : Nat → List Entry → Nat
  | _, [] => 0
  | _, [_] => 0
  | 0, _ :: _ :: _ => 0
  | d + 1, e₁ :: e₂ :: es => 1 + max (ht d (goL (e₁ :: e₂ :: es))) (ht d (goR (e₁ :: e₂ :: es)))

@[simp] theorem ht_nil (d : Nat) : ht d [] = 0 := by cases d <;> simp [ht]
@[simp] theorem ht_single (d : Nat) (e : Entry) : ht d [e] = 0 := by cases d <;> simp [ht]
theorem ht_succ_two (d : Nat) (es : List Entry) (h : 2 ≤ es.length) :
    ht (d + 1) es = 1 + max (ht d (goL es)) (ht d (goR es)) := by
  match es, h with
  | _ :: _ :: _, _ => simp [ht]

theorem ht_le_one {d : Nat} {es : List Entry} (h : es.length ≤ 1) : ht d es = 0 := by
  match es, h with
  | [], _ => simp
  | [_], _ => simp

/-- equal node hashes: equal tree heights and a common key -/
theorem root_eq_imp {H : HashFn} {n : Nat} (hlen : ∀ x, (H x).length = n) {T : List Bytes} (hnc : NoColl H T T)
    {kl : Nat} :
    ∀ (d₁ : Nat) (es₁ : List Entry) (d₂ : Nat) (es₂ : List Entry), WFE d₁ es₁ → WFE d₂ es₂ →
      (∀ b ∈ treeInputs H d₁ es₁, b ∈ T) → (∀ b ∈ treeInputs H d₂ es₂, b ∈ T) →
      (∀ e ∈ es₁, e.key.length = kl) → (∀ e ∈ es₂, e.key.length = kl) →
      root H d₁ es₁ = root H d₂ es₂ →
      ht d₁ es₁ = ht d₂ es₂ ∧ (es₁ ≠ [] → ∃ e₁ ∈ es₁, ∃ e₂ ∈ es₂, e₁.key = e₂.key) := by
  intro d₁
  induction d₁ with
  | zero =>
    intro es₁ d₂ es₂ w₁ w₂ t₁ t₂ k₁ k₂ h
    rcases root_pre H w₁ with ⟨a1, a2, a3⟩ | ⟨e, a1, a2, a3⟩ | ⟨_, d', hd, _⟩
    · subst a1
      rcases root_pre H w₂ with ⟨b1, b2, b3⟩ | ⟨e', b1, b2, b3⟩ | ⟨_, d'', _, b2, b3, _⟩
      · subst b1; simp
      · rw [a2, b2] at h; have := hnc _ (t₁ _ a3) _ (t₂ _ b3) h; simp at this
      · rw [a2, b2] at h; have := hnc _ (t₁ _ a3) _ (t₂ _ b3) h; simp at this
    · subst a1
      rcases root_pre H w₂ with ⟨b1, b2, b3⟩ | ⟨e', b1, b2, b3⟩ | ⟨_, d'', _, b2, b3, _⟩
      · rw [a2, b2] at h; have := hnc _ (t₁ _ a3) _ (t₂ _ b3) h; simp at this
      · subst b1
        rw [a2, b2] at h
        have := hnc _ (t₁ _ a3) _ (t₂ _ b3) h
        simp only [List.cons.injEq, true_and] at this
        have := List.append_inj this (by rw [k₁ e (by simp), k₂ e' (by simp)])
        exact ⟨by simp, fun _ => ⟨e, by simp, e', by simp, this.1⟩⟩
      · rw [a2, b2] at h; have := hnc _ (t₁ _ a3) _ (t₂ _ b3) h; simp at this
    · omega
  | succ d₁ ih =>
    intro es₁ d₂ es₂ w₁ w₂ t₁ t₂ k₁ k₂ h
    rcases root_pre H w₁ with ⟨a1, a2, a3⟩ | ⟨e, a1, a2, a3⟩ | ⟨a0, d', hd, a2, a3, aL, aR⟩
    · subst a1
      rcases root_pre H w₂ with ⟨b1, b2, b3⟩ | ⟨e', b1, b2, b3⟩ | ⟨_, d'', _, b2, b3, _⟩
      · subst b1; simp
      · rw [a2, b2] at h; have := hnc _ (t₁ _ a3) _ (t₂ _ b3) h; simp at this
      · rw [a2, b2] at h; have := hnc _ (t₁ _ a3) _ (t₂ _ b3) h; simp at this
    · subst a1
      rcases root_pre H w₂ with ⟨b1, b2, b3⟩ | ⟨e', b1, b2, b3⟩ | ⟨_, d'', _, b2, b3, _⟩
      · rw [a2, b2] at h; have := hnc _ (t₁ _ a3) _ (t₂ _ b3) h; simp at this
      · subst b1
        rw [a2, b2] at h
        have := hnc _ (t₁ _ a3) _ (t₂ _ b3) h
        simp only [List.cons.injEq, true_and] at this
        have := List.append_inj this (by rw [k₁ e (by simp), k₂ e' (by simp)])
        exact ⟨by simp, fun _ => ⟨e, by simp, e', by simp, this.1⟩⟩
      · rw [a2, b2] at h; have := hnc _ (t₁ _ a3) _ (t₂ _ b3) h; simp at this
    · have hd' : d' = d₁ := by omega
      subst hd'
      rcases root_pre H w₂ with ⟨b1, b2, b3⟩ | ⟨e', b1, b2, b3⟩ | ⟨b0, d'', hd2, b2, b3, bL, bR⟩
      · rw [a2, b2] at h; have := hnc _ (t₁ _ a3) _ (t₂ _ b3) h; simp at this
      · rw [a2, b2] at h; have := hnc _ (t₁ _ a3) _ (t₂ _ b3) h; simp at this
      · subst hd2
        rw [a2, b2] at h
        have heq := hnc _ (t₁ _ a3) _ (t₂ _ b3) h
        simp only [List.cons.injEq, true_and] at heq
        have hsplit := List.append_inj heq (by rw [root_length hlen, root_length hlen])
        have kL₁ : ∀ e ∈ goL es₁, e.key.length = kl := by
          intro e he; obtain ⟨e0, he0, _, hk, _⟩ := mem_goL.mp he; rw [hk]; exact k₁ e0 he0
        have kR₁ : ∀ e ∈ goR es₁, e.key.length = kl := by
          intro e he; obtain ⟨e0, he0, _, hk, _⟩ := mem_goR.mp he; rw [hk]; exact k₁ e0 he0
        have kL₂ : ∀ e ∈ goL es₂, e.key.length = kl := by
          intro e he; obtain ⟨e0, he0, _, hk, _⟩ := mem_goL.mp he; rw [hk]; exact k₂ e0 he0
        have kR₂ : ∀ e ∈ goR es₂, e.key.length = kl := by
          intro e he; obtain ⟨e0, he0, _, hk, _⟩ := mem_goR.mp he; rw [hk]; exact k₂ e0 he0
        obtain ⟨hL1, hL2⟩ := ih (goL es₁) d'' (goL es₂) (wfe_goL w₁) (wfe_goL w₂)
          (fun b hb => t₁ b (aL b hb)) (fun b hb => t₂ b (bL b hb)) kL₁ kL₂ hsplit.1
        obtain ⟨hR1, hR2⟩ := ih (goR es₁) d'' (goR es₂) (wfe_goR w₁) (wfe_goR w₂)
          (fun b hb => t₁ b (aR b hb)) (fun b hb => t₂ b (bR b hb)) kR₁ kR₂ hsplit.2
        refine ⟨by rw [ht_succ_two _ _ a0, ht_succ_two _ _ b0, hL1, hR1], fun _ => ?_⟩
        have hsum := length_goL_add_goR es₁ (wfe_path_ne_nil w₁)
        by_cases hLe : goL es₁ = []
        · have hRe : goR es₁ ≠ [] := by
            intro hRe; rw [hLe, hRe] at hsum; simp at hsum; omega
          obtain ⟨e1, he1, e2, he2, hk⟩ := hR2 hRe
          obtain ⟨e1', he1', _, hk1, _⟩ := mem_goR.mp he1
          obtain ⟨e2', he2', _, hk2, _⟩ := mem_goR.mp he2
          exact ⟨e1', he1', e2', he2', by rw [← hk1, ← hk2, hk]⟩
        · obtain ⟨e1, he1, e2, he2, hk⟩ := hL2 hLe
          obtain ⟨e1', he1', _, hk1, _⟩ := mem_goL.mp he1
          obtain ⟨e2', he2', _, hk2, _⟩ := mem_goL.mp he2
          exact ⟨e1', he1', e2', he2', by rw [← hk1, ← hk2, hk]⟩

theorem ht_goB_lt {d : Nat} {es : List Entry} (h2 : 2 ≤ es.length) (b : Bool) : ht d (goB b es) < ht (d + 1) es := by
  rw [ht_succ_two d es h2]
  cases b <;> simp only [goB] <;> simp <;> omega

theorem ht_goB_le (d : Nat) (es : List Entry) (b : Bool) : ht d (goB b es) ≤ ht (d + 1) es := by
  by_cases h2 : 2 ≤ es.length
  · exact Nat.le_of_lt (ht_goB_lt h2 b)
  · have : (goB b es).length ≤ 1 := Nat.le_trans (length_goB_le b es) (by omega)
    rw [ht_le_one this]; omega

theorem ht_descend_le : ∀ (r : Bits) (d : Nat) (es : List Entry), r.length ≤ d →
    ht (d - r.length) (descend es r) ≤ ht d es
  | [], _, _, _ => by simp [descend]
  | b :: r, d, es, hl => by
    cases d with
    | zero => simp at hl
    | succ d =>
      have hl' : r.length ≤ d := by simpa using hl
      have := ht_descend_le r d (goB b es) hl'
      simp only [List.length_cons, descend_cons]
      rw [show d + 1 - (r.length + 1) = d - r.length by omega]
      exact Nat.le_trans this (ht_goB_le d es b)

/-- a node strictly below a branch node has a lower tree -/
theorem ht_descend_lt {D : Nat} {es : List Entry} (p : Bits) (b : Bool) (r : Bits)
    (hl : (p ++ b :: r).length ≤ D) (h2 : 2 ≤ (descend es p).length) :
    ht (D - (p ++ b :: r).length) (descend es (p ++ b :: r)) < ht (D - p.length) (descend es p) := by
  rw [descend_append, descend_cons]
  simp only [List.length_append, List.length_cons] at hl ⊢
  have h1 := ht_descend_le r (D - p.length - 1) (goB b (descend es p)) (by omega)
  have h3 := ht_goB_lt (d := D - p.length - 1) h2 b
  rw [show D - p.length - 1 + 1 = D - p.length by omega] at h3
  rw [show D - (p.length + (r.length + 1)) = D - p.length - 1 - r.length by omega]
  omega

theorem treeInputs_descend_subset (H : HashFn) : ∀ (p : Bits) {D : Nat} {es : List Entry}, WFE D es → Proper es p →
    ∀ b ∈ treeInputs H (D - p.length) (descend es p), b ∈ treeInputs H D es
  | [], _, _, _, _ => by simp [descend]
  | c :: p, D, es, hw, hp => by
    intro b hb
    rcases root_pre H hw with ⟨a1, _⟩ | ⟨e, a1, _⟩ | ⟨_, d', hd, _, _, aL, aR⟩
    · have := hp.1; rw [a1] at this; simp at this
    · have := hp.1; rw [a1] at this; simp at this
    · subst hd
      simp only [List.length_cons, descend_cons] at hb
      rw [show d' + 1 - (p.length + 1) = d' - p.length by omega] at hb
      have := treeInputs_descend_subset H p (wfe_goB hw c) hp.2 b hb
      cases c
      · exact aL b this
      · exact aR b this

/-- **different non-empty nodes of the canonical tree have different hashes** when `H` has no collision among the
inputs hashed to compute the root -/
theorem nh_injective {H : HashFn} {n : Nat} (hlen : ∀ x, (H x).length = n) {D : Nat} {es : List Entry}
    (hw : WFE D es) (hnc : NoColl H (treeInputs H D es) (treeInputs H D es)) {kl : Nat}
    (hk : ∀ e ∈ es, e.key.length = kl) (hpath : ∀ e ∈ es, e.path = keyBits e.key) {p q : Bits}
    (hp : Proper es p) (hq : Proper es q) (hpe : descend es p ≠ [])
    (h : nh H D es p = nh H D es q) : p = q := by
  have hpl := proper_length hw hp
  have hql := proper_length hw hq
  have kp : ∀ e ∈ descend es p, e.key.length = kl := by
    intro e he; obtain ⟨e0, he0, _, hk0, _⟩ := (mem_descend p).mp he; rw [hk0]; exact hk e0 he0
  have kq : ∀ e ∈ descend es q, e.key.length = kl := by
    intro e he; obtain ⟨e0, he0, _, hk0, _⟩ := (mem_descend q).mp he; rw [hk0]; exact hk e0 he0
  obtain ⟨hht, hkey⟩ := root_eq_imp hlen hnc _ _ _ _ (wfe_descend' hw p hpl) (wfe_descend' hw q hql)
    (treeInputs_descend_subset H p hw hp) (treeInputs_descend_subset H q hw hq) kp kq h
  obtain ⟨e1, he1, e2, he2, hk12⟩ := hkey hpe
  obtain ⟨f1, hf1, hp1, hk1, _⟩ := (mem_descend p).mp he1
  obtain ⟨f2, hf2, hp2, hk2, _⟩ := (mem_descend q).mp he2
  have hbits : p ++ e1.path = q ++ e2.path := by
    rw [← hp1, ← hp2, hpath f1 hf1, hpath f2 hf2, ← hk1, ← hk2, hk12]
  have hpre1 : p <+: p ++ e1.path := List.prefix_append _ _
  have hpre2 : q <+: p ++ e1.path := by rw [hbits]; exact List.prefix_append _ _
  rcases List.prefix_or_prefix_of_prefix hpre1 hpre2 with ⟨t, ht'⟩ | ⟨t, ht'⟩
  · cases t with
    | nil => simpa using ht'
    | cons b r =>
      exfalso
      have h2 := (proper_prefix_branch hq ht'.symm).2
      have := ht_descend_lt p b r (by rw [ht']; exact hql) h2
      rw [ht'] at this
      omega
  · cases t with
    | nil => simpa using ht'.symm
    | cons b r =>
      exfalso
      have h2 := (proper_prefix_branch hp ht'.symm).2
      have := ht_descend_lt q b r (by rw [ht']; exact hpl) h2
      rw [ht'] at this
      omega

/-! ### honest work lists -/

/-- the standing assumptions of the completeness proof: the entries of a stored map, a hash with outputs of one
positive length and without collisions among the inputs of the tree and the empty string -/
structure TreeCtx (H : HashFn) (n keyLen : Nat) (es : List Entry) : Prop where
  hlen : ∀ x, (H x).length = n
  npos : 0 < n
  wfe : WFE (8 * keyLen) es
  klen : ∀ e ∈ es, e.key.length = keyLen
  path : ∀ e ∈ es, e.path = keyBits e.key
  vals : ∀ e ∈ es, e.value ≠ []
  ncT : NoColl H (treeInputs H (8 * keyLen) es) (treeInputs H (8 * keyLen) es)
  ncE : NoColl H [[]] (treeInputs H (8 * keyLen) es)

theorem nh_eq_empty_iff {H : HashFn} {n keyLen : Nat} {es : List Entry} (c : TreeCtx H n keyLen es) {z : Bits}
    (hz : Proper es z) : nh H (8 * keyLen) es z = emptyHash H ↔ descend es z = [] := by
  constructor
  · intro h
    exact root_eq_empty (wfe_descend' c.wfe z (proper_length c.wfe hz))
      (c.ncE.mono (fun _ ha => ha) (treeInputs_descend_subset H z c.wfe hz)) h
  · intro h; unfold nh; rw [h]; simp

theorem nh_length {H : HashFn} {n keyLen : Nat} {es : List Entry} (c : TreeCtx H n keyLen es) (z : Bits) :
    (nh H (8 * keyLen) es z).length = n := root_length c.hlen _ _

theorem nh_not_isEmpty {H : HashFn} {n keyLen : Nat} {es : List Entry} (c : TreeCtx H n keyLen es) (z : Bits) :
    (nh H (8 * keyLen) es z).isEmpty = false := by
  have h1 := nh_length c z
  have h2 := c.npos
  cases h : nh H (8 * keyLen) es z with
  | nil => rw [h] at h1; simp at h1; omega
  | cons _ _ => rfl

/-- a query proof of the work list that says the truth about the tree: its position is a node of the tree, it
carries the hash of that node and the bitmap of that position -/
structure HonestQ (H : HashFn) (keyLen : Nat) (es : List Entry) (q : QP) : Prop where
  klen : q.key.length = keyLen
  hle : q.height ≤ 8 * keyLen
  proper : Proper es q.binaryPath
  hash : q.hash = nh H (8 * keyLen) es q.binaryPath
  bm : q.bm = bmOf es q.binaryPath

/-- parent position and last direction of a query -/
def QP.parent (q : QP) : Bits := q.binaryKey.take (q.height - 1)
def QP.dir (q : QP) : Bool := q.binaryKey.getD (q.height - 1) false

theorem QP.path_eq {keyLen : Nat} {q : QP} (hk : q.key.length = keyLen) (hh : q.height ≤ 8 * keyLen)
    (h1 : 1 ≤ q.height) : q.binaryPath = q.parent ++ [q.dir] := binaryPath_succ hk hh h1

theorem isSiblingOf_iff {keyLen : Nat} {p q : QP} (hpk : p.key.length = keyLen) (hph : p.height ≤ 8 * keyLen)
    (hqk : q.key.length = keyLen) (h1 : 1 ≤ p.height) :
    isSiblingOf p q = true ↔ q.height = p.height ∧ q.binaryPath = p.parent ++ [!p.dir] := by
  constructor
  · intro h
    obtain ⟨s1, s2, s3⟩ := isSiblingOf_spec h
    refine ⟨s1.symm, ?_⟩
    rw [binaryPath_succ hqk (by omega) (by omega), ← s2, ← s1, s3]; rfl
  · rintro ⟨hh, hp⟩
    rw [binaryPath_succ hqk (by omega) (by omega)] at hp
    have hlen : (q.binaryKey.take (q.height - 1)).length = (p.parent).length := by
      unfold QP.parent QP.binaryKey toBools
      rw [List.length_take, List.length_take, keyBits_length, keyBits_length, hpk, hqk, hh]
    obtain ⟨e1, e2⟩ := List.append_inj hp hlen
    simp only [List.cons.injEq, and_true] at e2
    unfold isSiblingOf
    have hbm : p.bm.length = q.bm.length := hh.symm
    simp only [hbm, bne_self_eq_false, Bool.false_eq_true, ↓reduceIte]
    unfold QP.parent at e1
    simp only [e1, bne_self_eq_false, Bool.false_eq_true, ↓reduceIte]
    rw [hh] at e2
    unfold QP.dir at e2
    rw [e2]
    cases p.binaryKey.getD (p.height - 1) false <;> simp

theorem HonestQ.bm_cons {H : HashFn} {keyLen : Nat} {es : List Entry} {q : QP} (h : HonestQ H keyLen es q)
    (h1 : 1 ≤ q.height) :
    q.bm = (!(descend es (q.parent ++ [!q.dir])).isEmpty) :: bmOf es q.parent := by
  rw [h.bm, QP.path_eq h.klen h.hle h1, bmOf_snoc]

theorem HonestQ.parent_branch {H : HashFn} {keyLen : Nat} {es : List Entry} {q : QP} (h : HonestQ H keyLen es q)
    (h1 : 1 ≤ q.height) : Proper es q.parent ∧ 2 ≤ (descend es q.parent).length := by
  have := h.proper
  rw [QP.path_eq h.klen h.hle h1, proper_snoc] at this
  exact this

theorem proper_sibling {es : List Entry} {X : Bits} (h : Proper es X ∧ 2 ≤ (descend es X).length) (b : Bool) :
    Proper es (X ++ [b]) := (proper_snoc es X b).mpr h

/-- the query one level up is honest -/
theorem climb_honest {H : HashFn} {n keyLen : Nat} {es : List Entry} (c : TreeCtx H n keyLen es) {q : QP}
    (h : HonestQ H keyLen es q) (h1 : 1 ≤ q.height) :
    HonestQ H keyLen es (climb H q (bmOf es q.parent) (nh H (8 * keyLen) es (q.parent ++ [!q.dir]))) ∧
    (climb H q (bmOf es q.parent) (nh H (8 * keyLen) es (q.parent ++ [!q.dir]))).binaryPath = q.parent ∧
    (climb H q (bmOf es q.parent) (nh H (8 * keyLen) es (q.parent ++ [!q.dir]))).height = q.height - 1 := by
  obtain ⟨hX, h2⟩ := h.parent_branch h1
  have hXl := proper_length c.wfe hX
  have hheight : (climb H q (bmOf es q.parent) (nh H (8 * keyLen) es (q.parent ++ [!q.dir]))).height = q.height - 1 := by
    show (bmOf es q.parent).length = _
    rw [bmOf_length]
    unfold QP.parent QP.binaryKey toBools
    rw [List.length_take, keyBits_length, h.klen]
    have := h.hle; omega
  have hpath : (climb H q (bmOf es q.parent) (nh H (8 * keyLen) es (q.parent ++ [!q.dir]))).binaryPath = q.parent := by
    unfold QP.binaryPath; rw [hheight]; rfl
  refine ⟨⟨h.klen, by rw [hheight]; have := h.hle; omega, by rw [hpath]; exact hX, ?_, by rw [hpath]; rfl⟩,
    hpath, hheight⟩
  rw [hpath, nh_branch H c.wfe hXl h2]
  show (if !q.dir then branchHash H q.hash _ else branchHash H _ q.hash) = _
  rw [h.hash, QP.path_eq h.klen h.hle h1]
  cases q.dir <;> simp

theorem insertAndMerge_none {q : QP} {qs : List QP} (h : insertAndMerge q qs = none) :
    ∃ e ∈ qs, e.binaryPath = q.binaryPath ∧ ¬(e.hash = q.hash ∧ e.bm = q.bm) := by
  unfold insertAndMerge at h
  simp only at h
  generalize searchPos q qs = idx at h
  have hcheck : ∀ (i : Nat),
      (match qs[i]? with
        | none => none
        | some original =>
          if q.binaryPath = original.binaryPath then some (decide (q.hash = original.hash) && decide (q.bm = original.bm)) else none)
        = some false →
      ∃ e ∈ qs, e.binaryPath = q.binaryPath ∧ ¬(e.hash = q.hash ∧ e.bm = q.bm) := by
    intro i hb
    split at hb
    · simp at hb
    · next original ho =>
      split at hb
      · next hp =>
        refine ⟨original, List.mem_of_getElem? ho, hp.symm, ?_⟩
        simp only [Option.some.injEq, Bool.and_eq_false_iff, decide_eq_false_iff_not] at hb
        rintro ⟨e1, e2⟩
        rcases hb with hb | hb
        · exact hb e1.symm
        · exact hb e2.symm
      · simp at hb
  split at h
  · simp at h
  · next hfirst =>
    split at hfirst
    · simp at hfirst
    · exact hcheck _ hfirst
  · split at h
    · simp at h
    · next hsecond => exact hcheck _ hsecond
    · simp at h

/-- among honest query proofs `insertAndMerge` does not fail -/
theorem insertAndMerge_honest {H : HashFn} {keyLen : Nat} {es : List Entry} {q : QP} {qs : List QP}
    (hq : HonestQ H keyLen es q) (hqs : ∀ e ∈ qs, HonestQ H keyLen es e) : ∃ res, insertAndMerge q qs = some res := by
  cases h : insertAndMerge q qs with
  | some res => exact ⟨res, rfl⟩
  | none =>
    exfalso
    obtain ⟨e, he, hp, hne⟩ := insertAndMerge_none h
    apply hne
    have h' := hqs e he
    exact ⟨by rw [h'.hash, hq.hash, hp], by rw [h'.bm, hq.bm, hp]⟩

theorem HonestQ.path_length {H : HashFn} {keyLen : Nat} {es : List Entry} {q : QP} (h : HonestQ H keyLen es q) :
    q.binaryPath.length = q.height := binaryPath_length h.klen h.hle

theorem pickSib_merge {H : HashFn} {n keyLen : Nat} {es : List Entry} (c : TreeCtx H n keyLen es) {v0 s : QP}
    (h0 : HonestQ H keyLen es v0) (hs : HonestQ H keyLen es s) (h1 : 1 ≤ v0.height)
    (hp : s.binaryPath = v0.parent ++ [!v0.dir]) (sibs : List Bytes) (rest' : List QP) :
    pickSib H sibs v0 (!(descend es (v0.parent ++ [!v0.dir])).isEmpty) (bmOf es v0.parent) (s :: rest') =
      some (nh H (8 * keyLen) es (v0.parent ++ [!v0.dir]), sibs, rest') := by
  have hXb := h0.parent_branch h1
  have hpl : v0.parent.length = v0.height - 1 := by
    have := h0.path_length
    rw [QP.path_eq h0.klen h0.hle h1] at this
    simp at this; omega
  have hh : s.height = v0.height := by
    rw [← hs.path_length, hp]; simp; omega
  have hsib : isSiblingOf v0 s = true := (isSiblingOf_iff h0.klen h0.hle hs.klen h1).mpr ⟨hh, hp⟩
  have hsbm : s.bm = (!(descend es v0.binaryPath).isEmpty) :: bmOf es v0.parent := by
    rw [hs.bm, hp, bmOf_snoc, QP.path_eq h0.klen h0.hle h1]; simp
  have hshash : s.hash = nh H (8 * keyLen) es (v0.parent ++ [!v0.dir]) := by rw [hs.hash, hp]
  have e1 := nh_eq_empty_iff c (proper_sibling hXb (!v0.dir))
  have e2 := nh_eq_empty_iff c h0.proper
  unfold pickSib
  simp only [hsib, ↓reduceIte, hsbm, List.headD_cons, List.tail_cons, bne_self_eq_false, hshash, h0.hash,
    Bool.false_eq_true]
  by_cases hz : descend es (v0.parent ++ [!v0.dir]) = [] <;> by_cases hy : descend es v0.binaryPath = [] <;>
    simp [e1, e2, hz, hy]

theorem pickSib_nosib_cons {H : HashFn} {keyLen : Nat} {v0 s : QP} (h0k : v0.key.length = keyLen)
    (h0h : v0.height ≤ 8 * keyLen) (hsk : s.key.length = keyLen) (h1 : 1 ≤ v0.height)
    (hp : s.binaryPath ≠ v0.parent ++ [!v0.dir]) (sibs : List Bytes) (b0 : Bool) (bmRest : Bits)
    (rest' : List QP) :
    pickSib H sibs v0 b0 bmRest (s :: rest') =
      if !b0 then some (emptyHash H, sibs, s :: rest')
      else match sibs with
        | [] => none
        | x :: ss => some (x, ss, s :: rest') := by
  have hsib : isSiblingOf v0 s = false := by
    cases h : isSiblingOf v0 s
    · rfl
    · exact absurd ((isSiblingOf_iff h0k h0h hsk h1).mp h).2 hp
  unfold pickSib
  simp only [hsib, Bool.false_eq_true, ↓reduceIte]
  try rfl

theorem pickSib_nil (H : HashFn) (v0 : QP) (sibs : List Bytes) (b0 : Bool) (bmRest : Bits) :
    pickSib H sibs v0 b0 bmRest [] =
      if !b0 then some (emptyHash H, sibs, [])
      else match sibs with
        | [] => none
        | x :: ss => some (x, ss, []) := rfl

/-- one iteration of `CalculateRoot` on an honest work list whose second query is the sibling of the first:
the two are merged -/
theorem calcLoop_step_merge {H : HashFn} {n keyLen : Nat} {es : List Entry} (c : TreeCtx H n keyLen es) {v0 s : QP}
    (h0 : HonestQ H keyLen es v0) (hs : HonestQ H keyLen es s) (h1 : 1 ≤ v0.height)
    (hp : s.binaryPath = v0.parent ++ [!v0.dir]) (f : Nat) (sibs : List Bytes) (rest' : List QP) :
    calcLoop H (f + 1) sibs (v0 :: s :: rest') =
      match insertAndMerge (climb H v0 (bmOf es v0.parent) (nh H (8 * keyLen) es (v0.parent ++ [!v0.dir]))) rest' with
      | none => none
      | some qs => calcLoop H f sibs qs := by
  rw [calcLoop_succ_cons]
  have hbm := h0.bm_cons h1
  rw [hbm]
  simp only [pickSib_merge c h0 hs h1 hp, nh_not_isEmpty c, Bool.false_eq_true, ↓reduceIte]
  try rfl

/-- … whose first query has no sibling in the list and an empty sibling node -/
theorem calcLoop_step_empty {H : HashFn} {n keyLen : Nat} {es : List Entry} (c : TreeCtx H n keyLen es) {v0 : QP}
    (h0 : HonestQ H keyLen es v0) (h1 : 1 ≤ v0.height) {rest : List QP}
    (hrest : ∀ s rest', rest = s :: rest' → s.key.length = keyLen ∧ s.binaryPath ≠ v0.parent ++ [!v0.dir])
    (hz : descend es (v0.parent ++ [!v0.dir]) = []) (f : Nat) (sibs : List Bytes) :
    calcLoop H (f + 1) sibs (v0 :: rest) =
      match insertAndMerge (climb H v0 (bmOf es v0.parent) (nh H (8 * keyLen) es (v0.parent ++ [!v0.dir]))) rest with
      | none => none
      | some qs => calcLoop H f sibs qs := by
  rw [calcLoop_succ_cons]
  have hbm := h0.bm_cons h1
  rw [hbm]
  have hXb := h0.parent_branch h1
  have hnh : nh H (8 * keyLen) es (v0.parent ++ [!v0.dir]) = emptyHash H :=
    (nh_eq_empty_iff c (proper_sibling hXb _)).mpr hz
  have hne := nh_not_isEmpty c (v0.parent ++ [!v0.dir])
  rw [hnh] at hne
  cases rest with
  | nil =>
    simp only [pickSib_nil, hz, List.isEmpty_nil, Bool.not_true, Bool.not_false, ↓reduceIte, hne,
      Bool.false_eq_true, hnh]
    try rfl
  | cons s rest' =>
    obtain ⟨hsk, hsp⟩ := hrest s rest' rfl
    simp only [pickSib_nosib_cons h0.klen h0.hle hsk h1 hsp, hz, List.isEmpty_nil, Bool.not_true, Bool.not_false,
      ↓reduceIte, hne, Bool.false_eq_true, hnh]
    try rfl

/-- … whose first query has no sibling in the list and a non-empty sibling node: the next sibling hash is used -/
theorem calcLoop_step_take {H : HashFn} {n keyLen : Nat} {es : List Entry} (c : TreeCtx H n keyLen es) {v0 : QP}
    (h0 : HonestQ H keyLen es v0) (h1 : 1 ≤ v0.height) {rest : List QP}
    (hrest : ∀ s rest', rest = s :: rest' → s.key.length = keyLen ∧ s.binaryPath ≠ v0.parent ++ [!v0.dir])
    (hz : descend es (v0.parent ++ [!v0.dir]) ≠ []) (f : Nat) (ss : List Bytes) :
    calcLoop H (f + 1) (nh H (8 * keyLen) es (v0.parent ++ [!v0.dir]) :: ss) (v0 :: rest) =
      match insertAndMerge (climb H v0 (bmOf es v0.parent) (nh H (8 * keyLen) es (v0.parent ++ [!v0.dir]))) rest with
      | none => none
      | some qs => calcLoop H f ss qs := by
  rw [calcLoop_succ_cons]
  have hbm := h0.bm_cons h1
  rw [hbm]
  have hne := nh_not_isEmpty c (v0.parent ++ [!v0.dir])
  have hze : (descend es (v0.parent ++ [!v0.dir])).isEmpty = false := by
    cases h : descend es (v0.parent ++ [!v0.dir]) with
    | nil => exact absurd h hz
    | cons _ _ => rfl
  cases rest with
  | nil =>
    simp only [pickSib_nil, hze, Bool.not_false, Bool.not_true, Bool.false_eq_true, ↓reduceIte, hne]
    try rfl
  | cons s rest' =>
    obtain ⟨hsk, hsp⟩ := hrest s rest' rfl
    simp only [pickSib_nosib_cons h0.klen h0.hle hsk h1 hsp, hze, Bool.not_false, Bool.not_true,
      Bool.false_eq_true, ↓reduceIte, hne]
    try rfl

/-! ### the prover's work list (`calculateSiblingHashes`) -/

/-- a prover query as a verifier query (for the sort order and the position) -/
def PQ.toQP (p : PQ) : QP := ⟨p.key, p.value, p.bm, []⟩

theorem pqLess_eq (a b : PQ) : pqLess a b = qpLess a.toQP b.toQP := rfl
theorem PQ.binaryPath_eq (p : PQ) : p.binaryPath = p.toQP.binaryPath := rfl
theorem PQ.height_eq (p : PQ) : p.height = p.toQP.height := rfl

def pqLe (a b : PQ) : Bool := qpLe a.toQP b.toQP

theorem isort_pq_eq (l : List PQ) : isort (fun a b => !(pqLess b a)) l = isort pqLe l := rfl

theorem isort_pq_sorted (l : List PQ) : (isort pqLe l).Pairwise (fun a b => pqLe a b = true) :=
  isort_pairwise pqLe (fun _ _ _ => qpLe_trans _ _ _) (fun _ _ => qpLe_total _ _) l

theorem pairwise_insertAt {α : Type} {R : α → α → Prop} {l : List α} {i : Nat} {a : α} (hl : l.Pairwise R)
    (h1 : ∀ x ∈ l.take i, R x a) (h2 : ∀ x ∈ l.drop i, R a x) : (insertAt l i a).Pairwise R := by
  rw [← List.take_append_drop i l, List.pairwise_append] at hl
  unfold insertAt
  rw [List.pairwise_append, List.pairwise_cons]
  refine ⟨hl.1, ⟨h2, hl.2.1⟩, ?_⟩
  intro x hx y hy
  rcases List.mem_cons.mp hy with rfl | hy
  · exact h1 x hx
  · exact hl.2.2 x hx y hy

theorem insertAt_length {α : Type} (l : List α) (i : Nat) (a : α) : (insertAt l i a).length = l.length + 1 := by
  unfold insertAt
  simp only [List.length_append, List.length_cons, List.length_take, List.length_drop]
  omega

/-- `insertAndFilterQueries` keeps the list sorted; the query is inserted unless a query of its position is there -/
theorem insertAndFilter_spec (q : PQ) {qs : List PQ} (hs : qs.Pairwise (fun a b => pqLe a b = true)) :
    (insertAndFilter q qs).Pairwise (fun a b => pqLe a b = true) ∧
    (∀ x ∈ insertAndFilter q qs, x = q ∨ x ∈ qs) ∧ (∀ x ∈ qs, x ∈ insertAndFilter q qs) ∧
    (q ∈ insertAndFilter q qs ∨ ∃ e ∈ qs, e.binaryPath = q.binaryPath) ∧
    (insertAndFilter q qs = qs ∨ ∃ i, insertAndFilter q qs = insertAt qs i q) := by
  have hless : (fun (val : PQ) => (q.height == val.height && blt q.key val.key) || decide (q.height > val.height)) =
      fun val => qpLess q.toQP val.toQP := by
    funext val; exact searchPos_less q.toQP val.toQP
  have hmono : ∀ i j (hi : i < qs.length) (hj : j < qs.length), i < j →
      (fun val => qpLess q.toQP (PQ.toQP val)) qs[i] = true → (fun val => qpLess q.toQP (PQ.toQP val)) qs[j] = true := by
    intro i j hi hj hij h
    exact qpLess_of_less_le _ _ _ h (List.pairwise_iff_getElem.mp hs i j hi hj hij)
  obtain ⟨hle, hA, hB⟩ := binarySearch_spec (fun val => qpLess q.toQP (PQ.toQP val)) qs q hmono
  have hins : (insertAt qs (binarySearch (fun val => qpLess q.toQP (PQ.toQP val)) qs q) q).Pairwise
      (fun a b => pqLe a b = true) :=
    pairwise_insertAt hs (fun x hx => qpLe_of_not_qpLess _ _ (hA x hx)) (fun x hx => qpLe_of_qpLess _ _ (hB x hx))
  unfold insertAndFilter
  split
  · next hemp =>
    have : qs = [] := List.isEmpty_iff.mp hemp
    subst this
    simp only [List.pairwise_cons, List.not_mem_nil, false_imp_iff, implies_true, List.Pairwise.nil, and_self,
      or_false, imp_self, List.mem_cons, true_or, true_and]
    exact Or.inr ⟨0, rfl⟩
  · simp only [hless]
    generalize binarySearch (fun val => qpLess q.toQP (PQ.toQP val)) qs q = idx at *
    split
    · next hnone =>
      have hidx : idx = qs.length := by
        have := List.getElem?_eq_none_iff.mp hnone
        omega
      have heq : qs ++ [q] = insertAt qs idx q := by
        unfold insertAt; rw [hidx]; simp
      rw [heq]
      exact ⟨hins, fun x hx => (mem_insertAt _ _ _ _).mp hx, fun x hx => (mem_insertAt _ _ _ _).mpr (Or.inr hx),
        Or.inl ((mem_insertAt _ _ _ _).mpr (Or.inl rfl)), Or.inr ⟨idx, rfl⟩⟩
    · next original ho =>
      split
      · exact ⟨hins, fun x hx => (mem_insertAt _ _ _ _).mp hx, fun x hx => (mem_insertAt _ _ _ _).mpr (Or.inr hx),
          Or.inl ((mem_insertAt _ _ _ _).mpr (Or.inl rfl)), Or.inr ⟨idx, rfl⟩⟩
      · next hsame =>
        have hsame' : q.binaryPath = original.binaryPath := by simpa using hsame
        exact ⟨hs, fun x hx => Or.inr hx, fun x hx => hx,
          Or.inr ⟨original, List.mem_of_getElem? ho, hsame'.symm⟩, Or.inl rfl⟩

/-- a prover query that says the truth about the tree -/
structure HonestP (H : HashFn) (keyLen : Nat) (es : List Entry) (p : PQ) : Prop where
  klen : p.key.length = keyLen
  hle : p.height ≤ 8 * keyLen
  proper : Proper es p.binaryPath
  bm : p.bm = bmOf es p.binaryPath
  sibs : p.sibs = sibsOf H (8 * keyLen) es p.binaryPath

/-- the prover query one level up -/
def pclimb (H : HashFn) (keyLen : Nat) (es : List Entry) (p : PQ) : PQ :=
  { p with bm := bmOf es p.toQP.parent, sibs := sibsOf H (8 * keyLen) es p.toQP.parent }

theorem HonestP.path_eq {H : HashFn} {keyLen : Nat} {es : List Entry} {p : PQ} (h : HonestP H keyLen es p)
    (h1 : 1 ≤ p.height) : p.binaryPath = p.toQP.parent ++ [p.toQP.dir] :=
  binaryPath_succ (q := p.toQP) h.klen h.hle h1

theorem HonestP.parent_branch {H : HashFn} {keyLen : Nat} {es : List Entry} {p : PQ} (h : HonestP H keyLen es p)
    (h1 : 1 ≤ p.height) : Proper es p.toQP.parent ∧ 2 ≤ (descend es p.toQP.parent).length := by
  have := h.proper
  rw [h.path_eq h1, proper_snoc] at this
  exact this

theorem pclimb_honest {H : HashFn} {keyLen : Nat} {es : List Entry} {p : PQ}
    (h : HonestP H keyLen es p) (h1 : 1 ≤ p.height) :
    HonestP H keyLen es (pclimb H keyLen es p) ∧ (pclimb H keyLen es p).binaryPath = p.toQP.parent ∧
      (pclimb H keyLen es p).height = p.height - 1 := by
  obtain ⟨hX, h2⟩ := h.parent_branch h1
  have hheight : (pclimb H keyLen es p).height = p.height - 1 := by
    show (bmOf es p.toQP.parent).length = _
    rw [bmOf_length]
    unfold QP.parent QP.binaryKey toBools
    rw [List.length_take, keyBits_length]
    show min (p.height - 1) (8 * p.key.length) = _
    rw [h.klen]
    have := h.hle; omega
  have hpath : (pclimb H keyLen es p).binaryPath = p.toQP.parent := by
    unfold PQ.binaryPath; rw [hheight]; rfl
  exact ⟨⟨h.klen, by rw [hheight]; have := h.hle; omega, by rw [hpath]; exact hX, by rw [hpath]; rfl,
    by rw [hpath]; rfl⟩, hpath, hheight⟩

theorem sibLoop_succ_cons (anc : List Bytes) (f : Nat) (query : PQ) (rest : List PQ) (out : List Bytes) :
    sibLoop anc (f + 1) (query :: rest) out =
      match query.bm with
      | [] => sibLoop anc f rest out
      | b0 :: bmRest =>
        sibLoop anc f
          (insertAndFilter
            { query with
              bm := bmRest,
              sibs := (if b0 = true then
                  (query.sibs.dropLast,
                    if (!out.contains (query.sibs.getLastD []) && !anc.contains (query.sibs.getLastD [])) = true then
                      out ++ [query.sibs.getLastD []]
                    else out)
                else (query.sibs, out)).fst }
            rest)
          (if b0 = true then
              (query.sibs.dropLast,
                if (!out.contains (query.sibs.getLastD []) && !anc.contains (query.sibs.getLastD [])) = true then
                  out ++ [query.sibs.getLastD []]
                else out)
            else (query.sibs, out)).snd := by
  rfl

/-- one iteration of `calculateSiblingHashes` on an honest query: the hash of the sibling node is emitted when the
node is not empty and the hash neither emitted before nor among the ancestor hashes -/
theorem sibLoop_step {H : HashFn} {keyLen : Nat} {es : List Entry} {p : PQ} (h : HonestP H keyLen es p)
    (h1 : 1 ≤ p.height) (anc : List Bytes) (f : Nat) (rest : List PQ) (out : List Bytes) :
    sibLoop anc (f + 1) (p :: rest) out =
      sibLoop anc f (insertAndFilter (pclimb H keyLen es p) rest)
        (if (!(descend es (p.toQP.parent ++ [!p.toQP.dir])).isEmpty &&
              !out.contains (nh H (8 * keyLen) es (p.toQP.parent ++ [!p.toQP.dir])) &&
              !anc.contains (nh H (8 * keyLen) es (p.toQP.parent ++ [!p.toQP.dir])))
         then out ++ [nh H (8 * keyLen) es (p.toQP.parent ++ [!p.toQP.dir])] else out) := by
  have hbm : p.bm = (!(descend es (p.toQP.parent ++ [!p.toQP.dir])).isEmpty) :: bmOf es p.toQP.parent := by
    rw [h.bm, h.path_eq h1, bmOf_snoc]
  have hsibs : p.sibs = sibsOf H (8 * keyLen) es p.toQP.parent ++
      (if (descend es (p.toQP.parent ++ [!p.toQP.dir])).isEmpty then []
       else [nh H (8 * keyLen) es (p.toQP.parent ++ [!p.toQP.dir])]) := by
    rw [h.sibs, h.path_eq h1, sibsOf_snoc]
  rw [sibLoop_succ_cons, hbm]
  simp only
  by_cases hz : (descend es (p.toQP.parent ++ [!p.toQP.dir])).isEmpty = true
  · simp only [hz, Bool.not_true, Bool.false_eq_true, ↓reduceIte, Bool.false_and]
    rw [hz] at hsibs
    simp only [↓reduceIte, List.append_nil] at hsibs
    unfold pclimb
    rw [← hsibs]
  · have hz' : (descend es (p.toQP.parent ++ [!p.toQP.dir])).isEmpty = false := by simpa using hz
    rw [hz'] at hsibs
    simp only [Bool.false_eq_true, ↓reduceIte] at hsibs
    simp only [hz', Bool.not_false, ↓reduceIte, Bool.true_and, hsibs, List.getLastD_concat,
      List.dropLast_concat]
    rfl

/-! ### order of positions -/

theorem bitsLe_take : ∀ (h : Nat) (a b : Bits), bitsLe a b = true → bitsLe (a.take h) (b.take h) = true
  | 0, _, _, _ => by simp [bitsLe]
  | _ + 1, [], _, _ => by simp [bitsLe]
  | _ + 1, _ :: _, [], _ => by simp [bitsLe]
  | h + 1, x :: as, y :: bs, hab => by
    simp only [bitsLe] at hab
    simp only [List.take_succ_cons, bitsLe]
    split
    · next hxy => rw [if_pos hxy] at hab; exact bitsLe_take h as bs hab
    · next hxy => rw [if_neg hxy] at hab; exact hab

theorem bitsLe_antisymm : ∀ (a b : Bits), a.length = b.length → bitsLe a b = true → bitsLe b a = true → a = b
  | [], [], _, _, _ => rfl
  | [], _ :: _, hl, _, _ => by simp at hl
  | _ :: _, [], hl, _, _ => by simp at hl
  | x :: as, y :: bs, hl, h1, h2 => by
    simp only [bitsLe] at h1 h2
    by_cases hxy : x = y
    · subst hxy
      simp only [↓reduceIte] at h1 h2
      rw [bitsLe_antisymm as bs (by simpa using hl) h1 h2]
    · have hyx : ¬ y = x := fun h => hxy h.symm
      simp only [hxy, hyx, ↓reduceIte] at h1 h2
      cases x <;> cases y <;> simp_all

/-- queries of one height in sort order have their positions in lexicographic order -/
theorem path_le_of_qpLe {keyLen : Nat} {a b : QP} (ha : a.key.length = keyLen) (hb : b.key.length = keyLen)
    (hh : a.height = b.height) (hle : qpLe a b = true) : bitsLe a.binaryPath b.binaryPath = true := by
  rw [qpLe_iff] at hle
  rcases hle with h | ⟨_, h⟩
  · omega
  · unfold QP.binaryPath QP.binaryKey toBools
    rw [hh]
    exact bitsLe_take _ _ _ (bitsLe_of_ble _ _ (by rw [ha, hb]) h)

theorem height_ge_of_qpLe {a b : QP} (hle : qpLe a b = true) : b.height ≤ a.height := by
  rw [qpLe_iff] at hle
  rcases hle with h | ⟨h, _⟩ <;> omega

/-! ### fuel -/

def mV (qs : List QP) : Nat := (qs.map fun q => q.height + 1).sum
def mP (qs : List PQ) : Nat := (qs.map fun q => q.height + 1).sum

theorem calcFuel_eq (qs : List QP) : calcFuel qs = mV qs + 1 := rfl

theorem mV_insertAt (qs : List QP) (i : Nat) (q : QP) : mV (insertAt qs i q) = mV qs + (q.height + 1) := by
  unfold mV insertAt
  conv => rhs; rw [← List.take_append_drop i qs]
  simp only [List.map_append, List.map_cons, List.sum_append, List.sum_cons]
  omega

theorem mP_insertAt (qs : List PQ) (i : Nat) (q : PQ) : mP (insertAt qs i q) = mP qs + (q.height + 1) := by
  unfold mP insertAt
  conv => rhs; rw [← List.take_append_drop i qs]
  simp only [List.map_append, List.map_cons, List.sum_append, List.sum_cons]
  omega

theorem mV_insertAndMerge {q : QP} {qs res : List QP} (h : insertAndMerge q qs = some res) :
    mV res ≤ mV qs + (q.height + 1) := by
  rcases insertAndMerge_some h with ⟨hres, _⟩ | ⟨hres, _⟩
  · rw [hres]; omega
  · rw [hres, mV_insertAt]; omega

theorem mP_insertAndFilter (q : PQ) {qs : List PQ} (hs : qs.Pairwise (fun a b => pqLe a b = true)) :
    mP (insertAndFilter q qs) ≤ mP qs + (q.height + 1) := by
  rcases (insertAndFilter_spec q hs).2.2.2.2 with h | ⟨i, h⟩
  · rw [h]; omega
  · rw [h, mP_insertAt]; omega

theorem mV_cons (q : QP) (qs : List QP) : mV (q :: qs) = q.height + 1 + mV qs := by simp [mV]
theorem mP_cons (q : PQ) (qs : List PQ) : mP (q :: qs) = q.height + 1 + mP qs := by simp [mP]

/-- once every query of the prover's work list is at the root nothing more is emitted -/
theorem sibLoop_done (anc : List Bytes) : ∀ (f : Nat) (qs : List PQ) (out : List Bytes),
    (∀ p ∈ qs, p.bm = []) → sibLoop anc f qs out = out
  | 0, _, _, _ => rfl
  | _ + 1, [], _, _ => rfl
  | f + 1, p :: rest, out, h => by
    rw [sibLoop_succ_cons, h p (by simp)]
    exact sibLoop_done anc f rest out (fun x hx => h x (List.mem_cons_of_mem _ hx))

/-! ### heads of the two work lists -/

theorem HonestP.path_length {H : HashFn} {keyLen : Nat} {es : List Entry} {p : PQ} (h : HonestP H keyLen es p) :
    p.binaryPath.length = p.height := binaryPath_length (q := p.toQP) h.klen h.hle

/-- when the position of the prover's first query is still in the verifier's work list, it is the position of the
verifier's first query -/
theorem head_same_path {H : HashFn} {keyLen : Nat} {es : List Entry} {p : PQ} {rest : List PQ} {v0 : QP}
    {vrest : List QP} (hP : (p :: rest).Pairwise (fun a b => pqLe a b = true))
    (hPh : ∀ x ∈ p :: rest, HonestP H keyLen es x) (hV : QInv keyLen (v0 :: vrest))
    (hVh : ∀ v ∈ v0 :: vrest, HonestQ H keyLen es v)
    (s1 : ∀ v ∈ v0 :: vrest, ∃ x ∈ p :: rest, x.binaryPath = v.binaryPath)
    (hf : ∃ v ∈ v0 :: vrest, v.binaryPath = p.binaryPath) : v0.binaryPath = p.binaryPath := by
  obtain ⟨v, hv, hvp⟩ := hf
  obtain ⟨p2, hp2, hp2p⟩ := s1 v0 (by simp)
  have hle1 : pqLe p p2 = true := by
    rcases List.mem_cons.mp hp2 with rfl | h
    · exact qpLe_refl _
    · exact (List.pairwise_cons.mp hP).1 p2 h
  have hle2 : qpLe v0 v = true := by
    rcases List.mem_cons.mp hv with rfl | h
    · exact qpLe_refl _
    · exact (List.pairwise_cons.mp hV.sorted).1 v h
  have e1 := (hPh p (by simp)).path_length
  have e2 := (hPh p2 hp2).path_length
  have e3 := (hVh v0 (by simp)).path_length
  have e4 := (hVh v hv).path_length
  have g1 := height_ge_of_qpLe hle1
  have g2 := height_ge_of_qpLe hle2
  have l1 : p2.binaryPath.length = v0.binaryPath.length := by rw [hp2p]
  have l2 : v.binaryPath.length = p.binaryPath.length := by rw [hvp]
  have hh1 : p.toQP.height = p2.toQP.height := by
    show p.height = p2.height
    have : p2.toQP.height = p2.height := rfl
    have : p.toQP.height = p.height := rfl
    omega
  have hh2 : v0.height = v.height := by
    have : p2.toQP.height = p2.height := rfl
    have : p.toQP.height = p.height := rfl
    omega
  have b1 := path_le_of_qpLe (hPh p (by simp)).klen (hPh p2 hp2).klen hh1 hle1
  have b2 := path_le_of_qpLe (hVh v0 (by simp)).klen (hVh v hv).klen hh2 hle2
  change bitsLe p.binaryPath p2.binaryPath = true at b1
  rw [hp2p] at b1
  rw [hvp] at b2
  exact bitsLe_antisymm _ _ (by omega) b2 b1

/-- the sibling of the verifier's first query, when in the work list, is the second query -/
theorem sibling_adjacent {H : HashFn} {keyLen : Nat} {es : List Entry} {v0 : QP} {vrest : List QP}
    (hV : QInv keyLen (v0 :: vrest)) (hVh : ∀ v ∈ v0 :: vrest, HonestQ H keyLen es v) (h1 : 1 ≤ v0.height)
    {sz : QP} (hsz : sz ∈ v0 :: vrest) (hp : sz.binaryPath = v0.parent ++ [!v0.dir]) :
    ∃ s rest', vrest = s :: rest' ∧ s.binaryPath = v0.parent ++ [!v0.dir] := by
  have h0 := hVh v0 (by simp)
  have hy := QP.path_eq h0.klen h0.hle h1
  have hszr : sz ∈ vrest := by
    rcases List.mem_cons.mp hsz with rfl | h
    · rw [hy] at hp
      have := (List.append_inj' hp rfl).2
      simp at this
    · exact h
  cases hvr : vrest with
  | nil => rw [hvr] at hszr; simp at hszr
  | cons s rest' =>
    subst hvr
    refine ⟨s, rest', rfl, ?_⟩
    have hs := hVh s (by simp)
    have hz := hVh sz hsz
    have hle1 : qpLe v0 s = true := (List.pairwise_cons.mp hV.sorted).1 s (by simp)
    have hle2 : qpLe s sz = true := by
      rcases List.mem_cons.mp hszr with rfl | h
      · exact qpLe_refl _
      · exact (List.pairwise_cons.mp hV.tail.sorted).1 sz h
    have hzh : sz.height = v0.height := by
      have e1 := hz.path_length
      have e0 := h0.path_length
      rw [hp] at e1; rw [hy] at e0
      simp at e1 e0; omega
    have g1 := height_ge_of_qpLe hle1
    have g2 := height_ge_of_qpLe hle2
    have hsh : s.height = v0.height := by omega
    have k1 : ble v0.key s.key = true := by
      rw [qpLe_iff] at hle1
      rcases hle1 with h | ⟨_, h⟩
      · omega
      · exact h
    have k2 : ble s.key sz.key = true := by
      rw [qpLe_iff] at hle2
      rcases hle2 with h | ⟨_, h⟩
      · omega
      · exact h
    have hzp := QP.path_eq hz.klen hz.hle (by omega)
    have hsp := QP.path_eq hs.klen hs.hle (by omega)
    have hzpar : sz.parent = v0.parent := by
      rw [hzp] at hp
      exact (List.append_inj' hp rfl).1
    have hspar : s.parent = v0.parent := by
      have := key_squeeze (v0.height - 1) v0.key s.key sz.key (by rw [h0.klen, hs.klen]) (by rw [hs.klen, hz.klen])
        k1 k2 (by
          have : (toBools sz.key).take (v0.height - 1) = sz.parent := by
            unfold QP.parent QP.binaryKey; rw [hzh]
          rw [this, hzpar]; rfl)
      unfold QP.parent QP.binaryKey
      rw [hsh]; exact this
    rw [hsp, hspar]
    congr 1
    by_cases hd : s.dir = v0.dir
    · exfalso
      have hne := (List.pairwise_cons.mp hV.distinct).1 s (by simp)
      apply hne
      rw [hy, hsp, hspar, hd]
    · cases hsd : s.dir <;> cases hvd : v0.dir <;> simp_all

/-! ### the simulation: `calculateSiblingHashes` emits exactly the hashes `CalculateRoot` consumes -/

/-- the positions `Qpos` of the proven nodes and the ancestor hashes `ancs` of `Prove` -/
structure AncCtx (H : HashFn) (keyLen : Nat) (es : List Entry) (Qpos : List Bits) (ancs : List Bytes) : Prop where
  proper : ∀ t ∈ Qpos, Proper es t
  fwd : ∀ t ∈ Qpos, ∀ z, z <+: t → descend es z = [] ∨ nh H (8 * keyLen) es z ∈ ancs
  bwd : ∀ a ∈ ancs, ∃ t ∈ Qpos, ∃ z, z <+: t ∧ descend es z ≠ [] ∧ a = nh H (8 * keyLen) es z
  nonempty : Qpos ≠ []

/-- the prover emits nothing for the sibling node at `z` -/
def NoEmit (H : HashFn) (keyLen : Nat) (es : List Entry) (ancs out : List Bytes) (z : Bits) : Prop :=
  descend es z = [] ∨ nh H (8 * keyLen) es z ∈ ancs ∨ nh H (8 * keyLen) es z ∈ out

structure SimInv (H : HashFn) (keyLen : Nat) (es : List Entry) (Qpos : List Bits) (ancs : List Bytes)
    (Pq : List PQ) (Vq : List QP) (out : List Bytes) : Prop where
  psorted : Pq.Pairwise (fun a b => pqLe a b = true)
  phonest : ∀ p ∈ Pq, HonestP H keyLen es p
  vinv : QInv keyLen Vq
  vhonest : ∀ v ∈ Vq, HonestQ H keyLen es v
  anti : ∀ v ∈ Vq, ∀ w ∈ Vq, v.binaryPath <+: w.binaryPath → v.binaryPath = w.binaryPath
  vsub : ∀ v ∈ Vq, ∃ t ∈ Qpos, v.binaryPath <+: t
  vcov : ∀ t ∈ Qpos, ∃ v ∈ Vq, v.binaryPath <+: t
  s1 : ∀ v ∈ Vq, ∃ p ∈ Pq, p.binaryPath = v.binaryPath
  s2 : ∀ p ∈ Pq, (∃ v ∈ Vq, v.binaryPath = p.binaryPath) ∨
        (∃ X b, p.binaryPath = X ++ [b] ∧ (∃ v ∈ Vq, v.binaryPath = X) ∧ NoEmit H keyLen es ancs out (X ++ [!b]))
  o1 : ∀ a ∈ out, ∃ X b, a = nh H (8 * keyLen) es (X ++ [b]) ∧ Proper es (X ++ [b]) ∧ descend es (X ++ [b]) ≠ [] ∧
        (∀ v ∈ Vq, v.binaryPath ≠ X ++ [!b]) ∧ (∀ v ∈ Vq, v.height ≤ X.length + 1)

theorem insertAndMerge_mem {q : QP} {qs res : List QP} (h : insertAndMerge q qs = some res) :
    ∀ x ∈ res, x = q ∨ x ∈ qs := by
  intro x hx
  rcases insertAndMerge_some h with ⟨hres, _⟩ | ⟨hres, _⟩
  · rw [hres] at hx; exact Or.inr hx
  · rw [hres] at hx; exact (mem_insertAt _ _ _ _).mp hx

theorem parent_length {H : HashFn} {keyLen : Nat} {es : List Entry} {q : QP} (h : HonestQ H keyLen es q)
    (h1 : 1 ≤ q.height) : q.parent.length = q.height - 1 := by
  have := h.path_length
  rw [QP.path_eq h.klen h.hle h1] at this
  simp at this; omega

/-- the verifier's side of a step on the first query `v0`: `vrest'` = the rest of the work list without the
sibling of `v0` -/
theorem vstep_inv {H : HashFn} {n keyLen : Nat} {es : List Entry} (c : TreeCtx H n keyLen es) {Qpos : List Bits}
    {v0 : QP} {vrest vrest' Vq' : List QP}
    (hV : QInv keyLen (v0 :: vrest)) (hVh : ∀ v ∈ v0 :: vrest, HonestQ H keyLen es v)
    (anti : ∀ v ∈ v0 :: vrest, ∀ w ∈ v0 :: vrest, v.binaryPath <+: w.binaryPath → v.binaryPath = w.binaryPath)
    (vsub : ∀ v ∈ v0 :: vrest, ∃ t ∈ Qpos, v.binaryPath <+: t)
    (vcov : ∀ t ∈ Qpos, ∃ v ∈ v0 :: vrest, v.binaryPath <+: t) (h1 : 1 ≤ v0.height)
    (hV' : QInv keyLen vrest') (hsubV : ∀ v ∈ vrest', v ∈ vrest) (hmV : mV vrest' ≤ mV vrest)
    (hrem : ∀ v ∈ vrest, v ∈ vrest' ∨ v.binaryPath = v0.parent ++ [!v0.dir])
    (hnoz : ∀ v ∈ vrest', v.binaryPath ≠ v0.parent ++ [!v0.dir])
    (hins : insertAndMerge (climb H v0 (bmOf es v0.parent) (nh H (8 * keyLen) es (v0.parent ++ [!v0.dir]))) vrest'
      = some Vq') :
    QInv keyLen Vq' ∧ (∀ v ∈ Vq', HonestQ H keyLen es v) ∧
    (∀ v ∈ Vq', ∀ w ∈ Vq', v.binaryPath <+: w.binaryPath → v.binaryPath = w.binaryPath) ∧
    (∀ v ∈ Vq', ∃ t ∈ Qpos, v.binaryPath <+: t) ∧ (∀ t ∈ Qpos, ∃ v ∈ Vq', v.binaryPath <+: t) ∧
    (∀ v ∈ Vq', v ∈ vrest' ∨ v.binaryPath = v0.parent) ∧ (∀ v ∈ vrest', v ∈ Vq') ∧
    (∃ e ∈ Vq', e.binaryPath = v0.parent) ∧ (∀ v ∈ Vq', v.height ≤ v0.height) ∧ mV Vq' < mV (v0 :: vrest) := by
  have h0 := hVh v0 (by simp)
  obtain ⟨hq', hq'p, hq'h⟩ := climb_honest c h0 h1
  have hy := QP.path_eq h0.klen h0.hle h1
  have hXl := parent_length h0 h1
  obtain ⟨hinv2, hsub2, e, he, hep, _, _⟩ := insertAndMerge_inv hV' hq'.klen hq'.hle hins
  have hmem := insertAndMerge_mem hins
  have hmem' : ∀ v ∈ Vq', v ∈ vrest' ∨ v.binaryPath = v0.parent := by
    intro v hv
    rcases hmem v hv with rfl | h
    · exact Or.inr hq'p
    · exact Or.inl h
  have hhon : ∀ v ∈ Vq', HonestQ H keyLen es v := by
    intro v hv
    rcases hmem v hv with rfl | h
    · exact hq'
    · exact hVh v (List.mem_cons_of_mem _ (hsubV v h))
  have hheight : ∀ v ∈ Vq', v.height ≤ v0.height := by
    intro v hv
    rcases hmem v hv with rfl | h
    · rw [hq'h]; omega
    · exact height_ge_of_qpLe ((List.pairwise_cons.mp hV.sorted).1 v (hsubV v h))
  -- a query of the rest whose position extends the parent position is at the parent position
  have hXpre : ∀ w ∈ vrest', v0.parent <+: w.binaryPath → w.binaryPath = v0.parent := by
    intro w hw hpre
    have hwh := hVh w (List.mem_cons_of_mem _ (hsubV w hw))
    have hwl := hwh.path_length
    have hwle := height_ge_of_qpLe ((List.pairwise_cons.mp hV.sorted).1 w (hsubV w hw))
    obtain ⟨t, ht⟩ := hpre
    cases t with
    | nil => simpa using ht.symm
    | cons b r =>
      exfalso
      have hlen : w.binaryPath.length = v0.parent.length + (r.length + 1) := by rw [← ht]; simp
      have hr : r = [] := by
        cases r with
        | nil => rfl
        | cons _ _ => simp at hlen; omega
      subst hr
      by_cases hb : b = v0.dir
      · subst hb
        have hne := (List.pairwise_cons.mp hV.distinct).1 w (hsubV w hw)
        exact hne (by rw [hy, ht])
      · have : b = !v0.dir := by cases b <;> cases hd : v0.dir <;> simp_all
        subst this
        exact hnoz w hw ht.symm
  refine ⟨hinv2, hhon, ?_, ?_, ?_, hmem', hsub2, ⟨e, he, by rw [hep, hq'p]⟩, hheight, ?_⟩
  · intro v hv w hw hpre
    rcases hmem' v hv with hv' | hv'
    · rcases hmem' w hw with hw' | hw'
      · exact anti v (List.mem_cons_of_mem _ (hsubV v hv')) w (List.mem_cons_of_mem _ (hsubV w hw')) hpre
      · -- v in the rest, w at the parent position: then v is above the first query
        exfalso
        have hpre' : v.binaryPath <+: v0.binaryPath := by
          rw [hy]; exact List.IsPrefix.trans (hw' ▸ hpre) (List.prefix_append _ _)
        have := anti v (List.mem_cons_of_mem _ (hsubV v hv')) v0 (by simp) hpre'
        have hl := hpre.length_le
        rw [this, hw', hy] at hl
        simp at hl
        omega
    · rcases hmem' w hw with hw' | hw'
      · rw [hv'] at hpre ⊢
        exact (hXpre w hw' hpre).symm
      · rw [hv', hw']
  · intro v hv
    rcases hmem' v hv with hv' | hv'
    · exact vsub v (List.mem_cons_of_mem _ (hsubV v hv'))
    · obtain ⟨t, ht, hpre⟩ := vsub v0 (by simp)
      refine ⟨t, ht, ?_⟩
      rw [hv']
      exact List.IsPrefix.trans (by rw [hy]; exact List.prefix_append _ _) hpre
  · intro t ht
    obtain ⟨v, hv, hpre⟩ := vcov t ht
    have hXt : ∀ (x : Bits), x <+: t → v0.parent <+: x → v0.parent <+: t := fun x h1 h2 => h2.trans h1
    rcases List.mem_cons.mp hv with rfl | hvr
    · exact ⟨e, he, by rw [hep, hq'p]; exact hXt _ hpre (by rw [hy]; exact List.prefix_append _ _)⟩
    · rcases hrem v hvr with h | h
      · exact ⟨v, hsub2 v h, hpre⟩
      · exact ⟨e, he, by rw [hep, hq'p]; exact hXt _ hpre (by rw [h]; exact List.prefix_append _ _)⟩
  · have := mV_insertAndMerge hins
    rw [mV_cons]
    rw [hq'h] at this
    omega

theorem NoEmit.mono {H : HashFn} {keyLen : Nat} {es : List Entry} {ancs out out' : List Bytes} {z : Bits}
    (h : NoEmit H keyLen es ancs out z) (ho : ∀ a ∈ out, a ∈ out') : NoEmit H keyLen es ancs out' z := by
  rcases h with h | h | h
  · exact Or.inl h
  · exact Or.inr (Or.inl h)
  · exact Or.inr (Or.inr (ho _ h))

/-- a step of both loops on a position that is the first of both work lists -/
theorem sim_fresh {H : HashFn} {n keyLen : Nat} {es : List Entry} (c : TreeCtx H n keyLen es) {Qpos : List Bits}
    {ancs : List Bytes} {p : PQ} {rest : List PQ} {v0 : QP} {vrest : List QP} {out : List Bytes}
    (inv : SimInv H keyLen es Qpos ancs (p :: rest) (v0 :: vrest) out)
    (hpath : v0.binaryPath = p.binaryPath) (h1 : 1 ≤ v0.height) {vrest' Vq' : List QP} {out' : List Bytes}
    (hV' : QInv keyLen vrest') (hsubV : ∀ v ∈ vrest', v ∈ vrest) (hmV : mV vrest' ≤ mV vrest)
    (hrem : ∀ v ∈ vrest, v ∈ vrest' ∨ v.binaryPath = v0.parent ++ [!v0.dir])
    (hnoz : ∀ v ∈ vrest', v.binaryPath ≠ v0.parent ++ [!v0.dir])
    (hins : insertAndMerge (climb H v0 (bmOf es v0.parent) (nh H (8 * keyLen) es (v0.parent ++ [!v0.dir]))) vrest'
      = some Vq')
    (hout : ∀ a ∈ out, a ∈ out')
    (hzNE : NoEmit H keyLen es ancs out' (v0.parent ++ [!v0.dir]))
    (hyNE : (∃ v ∈ vrest, v.binaryPath = v0.parent ++ [!v0.dir]) → NoEmit H keyLen es ancs out' v0.binaryPath)
    (ho1 : ∀ a ∈ out', a ∈ out ∨ (a = nh H (8 * keyLen) es (v0.parent ++ [!v0.dir]) ∧
      descend es (v0.parent ++ [!v0.dir]) ≠ [])) :
    SimInv H keyLen es Qpos ancs (insertAndFilter (pclimb H keyLen es p) rest) Vq' out' ∧
    mP (insertAndFilter (pclimb H keyLen es p) rest) < mP (p :: rest) ∧ mV Vq' < mV (v0 :: vrest) := by
  have h0 := inv.vhonest v0 (by simp)
  have hp := inv.phonest p (by simp)
  have hy := QP.path_eq h0.klen h0.hle h1
  have hXl := parent_length h0 h1
  have hph : p.height = v0.height := by
    rw [← hp.path_length, ← hpath, h0.path_length]
  have hp1 : 1 ≤ p.height := by omega
  have hpp := hp.path_eq hp1
  have hpar : p.toQP.parent = v0.parent := by
    have : p.toQP.parent ++ [p.toQP.dir] = v0.parent ++ [v0.dir] := by rw [← hpp, ← hy, hpath]
    exact (List.append_inj' this rfl).1
  obtain ⟨hq'h, hq'p, hq'ht⟩ := pclimb_honest hp hp1
  rw [hpar] at hq'p
  have hrs : rest.Pairwise (fun a b => pqLe a b = true) := (List.pairwise_cons.mp inv.psorted).2
  obtain ⟨f1, f2, f3, f4, _⟩ := insertAndFilter_spec (pclimb H keyLen es p) hrs
  obtain ⟨g1, g2, g3, g4, g5, g6, g7, g8, g9, g10⟩ := vstep_inv c inv.vinv inv.vhonest inv.anti inv.vsub inv.vcov h1
    hV' hsubV hmV hrem hnoz hins
  have hXmemP : ∃ e ∈ insertAndFilter (pclimb H keyLen es p) rest, e.binaryPath = v0.parent := by
    rcases f4 with h | ⟨e, he, hep⟩
    · exact ⟨_, h, hq'p⟩
    · exact ⟨e, f3 e he, by rw [hep, hq'p]⟩
  refine ⟨⟨f1, ?_, g1, g2, g3, g4, g5, ?_, ?_, ?_⟩, ?_, g10⟩
  · intro x hx
    rcases f2 x hx with rfl | h
    · exact hq'h
    · exact inv.phonest x (List.mem_cons_of_mem _ h)
  · -- s1
    intro v hv
    rcases g6 v hv with hv' | hv'
    · obtain ⟨x, hx, hxp⟩ := inv.s1 v (List.mem_cons_of_mem _ (hsubV v hv'))
      rcases List.mem_cons.mp hx with rfl | hxr
      · exfalso
        have hne := (List.pairwise_cons.mp inv.vinv.distinct).1 v (hsubV v hv')
        exact hne (by rw [hpath, hxp])
      · exact ⟨x, f3 x hxr, hxp⟩
    · obtain ⟨e, he, hep⟩ := hXmemP
      exact ⟨e, he, by rw [hep, hv']⟩
  · -- s2
    intro x hx
    rcases f2 x hx with rfl | hxr
    · obtain ⟨e, he, hep⟩ := g8
      exact Or.inl ⟨e, he, by rw [hep, hq'p]⟩
    · have hxh : x.height ≤ p.height := height_ge_of_qpLe ((List.pairwise_cons.mp inv.psorted).1 x hxr)
      have hxl := (inv.phonest x (List.mem_cons_of_mem _ hxr)).path_length
      rcases inv.s2 x (List.mem_cons_of_mem _ hxr) with ⟨v, hv, hvp⟩ | ⟨X1, b1, hx1, ⟨v1, hv1, hv1p⟩, hne1⟩
      · rcases List.mem_cons.mp hv with hv0 | hvr
        · right
          rw [hv0] at hvp
          refine ⟨v0.parent, v0.dir, by rw [← hvp, hy], g8, hzNE⟩
        · rcases hrem v hvr with h | h
          · exact Or.inl ⟨v, g7 v h, hvp⟩
          · right
            refine ⟨v0.parent, !v0.dir, by rw [← hvp, h], g8, ?_⟩
            rw [Bool.not_not, ← hy]
            exact hyNE ⟨v, hvr, h⟩
      · right
        have hlen : X1.length + 1 ≤ v0.height := by
          have : x.binaryPath.length = X1.length + 1 := by rw [hx1]; simp
          omega
        refine ⟨X1, b1, hx1, ?_, hne1.mono hout⟩
        rcases List.mem_cons.mp hv1 with hv0 | hvr
        · exfalso
          rw [hv0] at hv1p
          have := h0.path_length
          rw [hv1p] at this; omega
        · rcases hrem v1 hvr with h | h
          · exact ⟨v1, g7 v1 h, hv1p⟩
          · exfalso
            rw [hv1p] at h
            have := congrArg List.length h
            simp at this; omega
  · -- o1
    intro a ha
    rcases ho1 a ha with hao | ⟨rfl, hzne⟩
    · obtain ⟨X0, b0, e1, e2, e3, e4, e5⟩ := inv.o1 a hao
      have hh0 := e5 v0 (by simp)
      refine ⟨X0, b0, e1, e2, e3, ?_, ?_⟩
      · intro v hv
        rcases g6 v hv with hv' | hv'
        · exact e4 v (List.mem_cons_of_mem _ (hsubV v hv'))
        · intro hcon
          rw [hv'] at hcon
          have := congrArg List.length hcon
          simp at this; omega
      · intro v hv
        exact Nat.le_trans (g9 v hv) hh0
    · have hXb := h0.parent_branch h1
      refine ⟨v0.parent, !v0.dir, rfl, proper_sibling hXb _, hzne, ?_, ?_⟩
      · intro v hv
        rw [Bool.not_not, ← hy]
        rcases g6 v hv with hv' | hv'
        · exact fun hcon => (List.pairwise_cons.mp inv.vinv.distinct).1 v (hsubV v hv') hcon.symm
        · intro hcon
          rw [hv', hy] at hcon
          have := congrArg List.length hcon
          simp at this
      · intro v hv
        have := g9 v hv
        omega
  · have := mP_insertAndFilter (pclimb H keyLen es p) hrs
    rw [mP_cons]
    rw [hq'ht] at this
    omega

/-- a step of the prover's loop on a position the verifier has already dealt with: nothing is emitted -/
theorem sim_stale {H : HashFn} {keyLen : Nat} {es : List Entry} {Qpos : List Bits}
    {ancs : List Bytes} {p : PQ} {rest : List PQ} {Vq : List QP} {out : List Bytes}
    (inv : SimInv H keyLen es Qpos ancs (p :: rest) Vq out) (h1 : 1 ≤ p.height)
    (hstale : ¬ ∃ v ∈ Vq, v.binaryPath = p.binaryPath) :
    SimInv H keyLen es Qpos ancs (insertAndFilter (pclimb H keyLen es p) rest) Vq out ∧
    mP (insertAndFilter (pclimb H keyLen es p) rest) < mP (p :: rest) ∧
    NoEmit H keyLen es ancs out (p.toQP.parent ++ [!p.toQP.dir]) := by
  have hp := inv.phonest p (by simp)
  have hpp := hp.path_eq h1
  obtain ⟨hq'h, hq'p, hq'ht⟩ := pclimb_honest hp h1
  have hrs : rest.Pairwise (fun a b => pqLe a b = true) := (List.pairwise_cons.mp inv.psorted).2
  obtain ⟨f1, f2, f3, f4, _⟩ := insertAndFilter_spec (pclimb H keyLen es p) hrs
  rcases inv.s2 p (by simp) with hfresh | ⟨X, b, hx, ⟨v, hv, hvp⟩, hne⟩
  · exact absurd hfresh hstale
  · have hXb : X = p.toQP.parent ∧ b = p.toQP.dir := by
      rw [hpp] at hx
      have := List.append_inj' hx rfl
      exact ⟨this.1.symm, by simpa using this.2.symm⟩
    obtain ⟨rfl, rfl⟩ := hXb
    refine ⟨⟨f1, ?_, inv.vinv, inv.vhonest, inv.anti, inv.vsub, inv.vcov, ?_, ?_, inv.o1⟩, ?_, hne⟩
    · intro x hx'
      rcases f2 x hx' with rfl | h
      · exact hq'h
      · exact inv.phonest x (List.mem_cons_of_mem _ h)
    · intro w hw
      obtain ⟨x, hx', hxp⟩ := inv.s1 w hw
      rcases List.mem_cons.mp hx' with hx0 | hxr
      · exfalso; rw [hx0] at hxp; exact hstale ⟨w, hw, hxp.symm⟩
      · exact ⟨x, f3 x hxr, hxp⟩
    · intro x hx'
      rcases f2 x hx' with rfl | hxr
      · exact Or.inl ⟨v, hv, by rw [hvp, hq'p]⟩
      · exact inv.s2 x (List.mem_cons_of_mem _ hxr)
    · have := mP_insertAndFilter (pclimb H keyLen es p) hrs
      rw [mP_cons]
      rw [hq'ht] at this
      omega

theorem proper_of_prefix {es : List Entry} {t z : Bits} (ht : Proper es t) (hz : z <+: t) : Proper es z := by
  obtain ⟨r, rfl⟩ := hz
  exact ((proper_append es z r).mp ht).1

theorem noEmit_flag {H : HashFn} {keyLen : Nat} {es : List Entry} {ancs out : List Bytes} {z : Bits}
    (h : NoEmit H keyLen es ancs out z) :
    (!(descend es z).isEmpty && !out.contains (nh H (8 * keyLen) es z) && !ancs.contains (nh H (8 * keyLen) es z))
      = false := by
  rcases h with h | h | h
  · simp [h]
  · have : ancs.contains (nh H (8 * keyLen) es z) = true := List.contains_iff_mem.mpr h
    simp only [this, Bool.not_true, Bool.and_false]
  · have : out.contains (nh H (8 * keyLen) es z) = true := List.contains_iff_mem.mpr h
    simp only [this, Bool.not_true, Bool.and_false, Bool.false_and]

theorem prefix_snoc_lt {α : Type} {a X : List α} {c : α} (h : a <+: X ++ [c]) (hl : a.length ≤ X.length) : a <+: X := by
  obtain ⟨r, hr⟩ := h
  have hlen := congrArg List.length hr
  simp at hlen
  cases hrr : r.reverse with
  | nil =>
    have : r = [] := by simpa using hrr
    subst this
    simp at hlen
    omega
  | cons d r' =>
    have hr2 : r = r'.reverse ++ [d] := by
      have := congrArg List.reverse hrr
      simpa using this
    rw [hr2, ← List.append_assoc] at hr
    have := List.append_inj' hr rfl
    exact ⟨r'.reverse, this.1⟩

/-- **The sibling hashes `Prove` emits are exactly those `CalculateRoot` consumes**: from related honest work
lists, the rest of the run of `calculateSiblingHashes` appends a list `Y` of hashes to its output with which the
loop of `CalculateRoot` reaches the root hash. -/
theorem sim {H : HashFn} {n keyLen : Nat} {es : List Entry} (c : TreeCtx H n keyLen es) {Qpos : List Bits}
    {ancs : List Bytes} (A : AncCtx H keyLen es Qpos ancs) :
    ∀ (fP : Nat) (Pq : List PQ) (Vq : List QP) (out : List Bytes) (fV : Nat),
      SimInv H keyLen es Qpos ancs Pq Vq out → mP Pq ≤ fP → mV Vq ≤ fV →
      ∃ Y, sibLoop ancs fP Pq out = out ++ Y ∧ calcLoop H fV Y Vq = some (nh H (8 * keyLen) es []) := by
  intro fP
  induction fP with
  | zero =>
    intro Pq Vq out fV inv hmP _
    exfalso
    have hPq : Pq = [] := by
      cases Pq with
      | nil => rfl
      | cons p rest => rw [mP_cons] at hmP; omega
    obtain ⟨t, ht⟩ := List.exists_mem_of_ne_nil _ A.nonempty
    obtain ⟨v, hv, _⟩ := inv.vcov t ht
    obtain ⟨x, hx, _⟩ := inv.s1 v hv
    rw [hPq] at hx; simp at hx
  | succ fP ih =>
    intro Pq Vq out fV inv hmP hmV
    obtain ⟨t, ht⟩ := List.exists_mem_of_ne_nil _ A.nonempty
    obtain ⟨vt, hvt, _⟩ := inv.vcov t ht
    cases Pq with
    | nil =>
      exfalso
      obtain ⟨x, hx, _⟩ := inv.s1 vt hvt
      simp at hx
    | cons p rest =>
      cases Vq with
      | nil => simp at hvt
      | cons v0 vrest =>
      have hp := inv.phonest p (by simp)
      have h0 := inv.vhonest v0 (by simp)
      by_cases hp0 : p.height = 0
      · -- the prover's work list is at the root
        have hall : ∀ x ∈ p :: rest, x.bm = [] := by
          intro x hx
          have hle : pqLe p x = true := by
            rcases List.mem_cons.mp hx with rfl | h
            · exact qpLe_refl _
            · exact (List.pairwise_cons.mp inv.psorted).1 x h
          have := height_ge_of_qpLe hle
          have hx0 : x.height = 0 := by
            have e1 : x.toQP.height = x.height := rfl
            have e2 : p.toQP.height = p.height := rfl
            omega
          exact List.length_eq_zero_iff.mp hx0
        refine ⟨[], by rw [sibLoop_done ancs _ _ _ hall]; simp, ?_⟩
        have hv0 : ∀ v ∈ v0 :: vrest, v.binaryPath = [] := by
          intro v hv
          obtain ⟨x, hx, hxp⟩ := inv.s1 v hv
          have hxl := (inv.phonest x hx).path_length
          have : x.height = 0 := by
            show x.bm.length = 0
            rw [hall x hx]; rfl
          rw [this, hxp] at hxl
          exact List.length_eq_zero_iff.mp hxl
        have hvr : vrest = [] := by
          cases hvr : vrest with
          | nil => rfl
          | cons w _ =>
            exfalso
            subst hvr
            have hne := (List.pairwise_cons.mp inv.vinv.distinct).1 w (by simp)
            exact hne (by rw [hv0 v0 (by simp), hv0 w (by simp)])
        subst hvr
        have hbm0 : v0.bm = [] := by
          have := h0.path_length
          rw [hv0 v0 (by simp)] at this
          exact List.length_eq_zero_iff.mp this.symm
        have hfV : 1 ≤ fV := by rw [mV_cons] at hmV; omega
        obtain ⟨f, rfl⟩ : ∃ f, fV = f + 1 := ⟨fV - 1, by omega⟩
        rw [calcLoop_succ_cons, hbm0]
        simp only [List.isEmpty_nil, ↓reduceIte]
        rw [h0.hash, hv0 v0 (by simp)]
      · have hp1 : 1 ≤ p.height := by omega
        by_cases hfresh : ∃ v ∈ v0 :: vrest, v.binaryPath = p.binaryPath
        · -- both loops work on the same position
          have hpath := head_same_path inv.psorted inv.phonest inv.vinv inv.vhonest inv.s1 hfresh
          have hph : p.height = v0.height := by rw [← hp.path_length, ← hpath, h0.path_length]
          have h1 : 1 ≤ v0.height := by omega
          have hy := QP.path_eq h0.klen h0.hle h1
          have hXl := parent_length h0 h1
          have hpd : p.toQP.parent = v0.parent ∧ p.toQP.dir = v0.dir := by
            have : p.toQP.parent ++ [p.toQP.dir] = v0.parent ++ [v0.dir] := by rw [← hp.path_eq hp1, ← hy, hpath]
            have := List.append_inj' this rfl
            exact ⟨this.1, by simpa using this.2⟩
          have hXb := h0.parent_branch h1
          have hzP : Proper es (v0.parent ++ [!v0.dir]) := proper_sibling hXb _
          obtain ⟨f, rfl⟩ : ∃ f, fV = f + 1 := ⟨fV - 1, by rw [mV_cons] at hmV; omega⟩
          rw [sibLoop_step hp hp1, hpd.1, hpd.2]
          by_cases hzV : ∃ sz ∈ v0 :: vrest, sz.binaryPath = v0.parent ++ [!v0.dir]
          · -- the sibling is in the verifier's list: merged
            obtain ⟨sz, hsz, hszp⟩ := hzV
            obtain ⟨s, rest', hvr, hsp⟩ := sibling_adjacent inv.vinv inv.vhonest h1 hsz hszp
            subst hvr
            have hs := inv.vhonest s (by simp)
            have hresth : ∀ e ∈ rest', HonestQ H keyLen es e := fun e he => inv.vhonest e (by simp [he])
            obtain ⟨Vq', hins⟩ := insertAndMerge_honest (climb_honest c h0 h1).1 hresth
            have hzNE : NoEmit H keyLen es ancs out (v0.parent ++ [!v0.dir]) := by
              obtain ⟨t', ht', hpre⟩ := inv.vsub s (by simp)
              rw [hsp] at hpre
              rcases A.fwd t' ht' _ hpre with h | h
              · exact Or.inl h
              · exact Or.inr (Or.inl h)
            have hyNE : NoEmit H keyLen es ancs out v0.binaryPath := by
              obtain ⟨t', ht', hpre⟩ := inv.vsub v0 (by simp)
              rcases A.fwd t' ht' _ hpre with h | h
              · exact Or.inl h
              · exact Or.inr (Or.inl h)
            obtain ⟨inv', hmP', hmV'⟩ := sim_fresh c inv hpath h1 (vrest' := rest') (out' := out)
              inv.vinv.tail.tail (fun v hv => List.mem_cons_of_mem _ hv) (by rw [mV_cons]; omega)
              (by
                intro v hv
                rcases List.mem_cons.mp hv with rfl | h
                · exact Or.inr hsp
                · exact Or.inl h)
              (by
                intro v hv hcon
                exact (List.pairwise_cons.mp inv.vinv.tail.distinct).1 v hv (by rw [hsp, hcon]))
              hins (fun a ha => ha) hzNE (fun _ => hyNE) (fun a ha => Or.inl ha)
            rw [noEmit_flag hzNE]
            simp only [Bool.false_eq_true, ↓reduceIte]
            obtain ⟨Y, hY1, hY2⟩ := ih _ _ out f inv' (by rw [mP_cons] at hmP hmP'; omega)
              (by rw [mV_cons] at hmV hmV'; omega)
            refine ⟨Y, hY1, ?_⟩
            rw [calcLoop_step_merge c h0 hs h1 hsp, hins]
            exact hY2
          · have hrest : ∀ s rest', vrest = s :: rest' →
                s.key.length = keyLen ∧ s.binaryPath ≠ v0.parent ++ [!v0.dir] := by
              intro s rest' hvr
              subst hvr
              exact ⟨(inv.vhonest s (by simp)).klen, fun hcon => hzV ⟨s, by simp, hcon⟩⟩
            have hvresth : ∀ e ∈ vrest, HonestQ H keyLen es e := fun e he => inv.vhonest e (by simp [he])
            obtain ⟨Vq', hins⟩ := insertAndMerge_honest (climb_honest c h0 h1).1 hvresth
            have hnoz : ∀ v ∈ vrest, v.binaryPath ≠ v0.parent ++ [!v0.dir] :=
              fun v hv hcon => hzV ⟨v, List.mem_cons_of_mem _ hv, hcon⟩
            by_cases hze : descend es (v0.parent ++ [!v0.dir]) = []
            · -- empty sibling node
              have hzNE : NoEmit H keyLen es ancs out (v0.parent ++ [!v0.dir]) := Or.inl hze
              obtain ⟨inv', hmP', hmV'⟩ := sim_fresh c inv hpath h1 (vrest' := vrest) (out' := out)
                inv.vinv.tail (fun v hv => hv) (Nat.le_refl _) (fun v hv => Or.inl hv) hnoz hins
                (fun a ha => ha) hzNE (fun ⟨v, hv, hcon⟩ => absurd hcon (hnoz v hv)) (fun a ha => Or.inl ha)
              rw [noEmit_flag hzNE]
              simp only [Bool.false_eq_true, ↓reduceIte]
              obtain ⟨Y, hY1, hY2⟩ := ih _ _ out f inv' (by rw [mP_cons] at hmP hmP'; omega)
                (by rw [mV_cons] at hmV hmV'; omega)
              refine ⟨Y, hY1, ?_⟩
              rw [calcLoop_step_empty c h0 h1 hrest hze, hins]
              exact hY2
            · -- the sibling hash is emitted by the prover and consumed by the verifier
              have hnanc : nh H (8 * keyLen) es (v0.parent ++ [!v0.dir]) ∉ ancs := by
                intro hmem
                obtain ⟨t', ht', z', hz'pre, hz'ne, hz'eq⟩ := A.bwd _ hmem
                have hzz : v0.parent ++ [!v0.dir] = z' :=
                  nh_injective c.hlen c.wfe c.ncT c.klen c.path hzP (proper_of_prefix (A.proper t' ht') hz'pre)
                    hze hz'eq
                subst hzz
                obtain ⟨v, hv, hvpre⟩ := inv.vcov t' ht'
                have hvl := (inv.vhonest v hv).path_length
                have hvh : v.height ≤ v0.height := by
                  rcases List.mem_cons.mp hv with rfl | h
                  · exact Nat.le_refl _
                  · exact height_ge_of_qpLe ((List.pairwise_cons.mp inv.vinv.sorted).1 v h)
                have hzl : (v0.parent ++ [!v0.dir]).length = v0.height := by simp; omega
                rcases List.prefix_or_prefix_of_prefix hvpre hz'pre with hpre | hpre
                · by_cases hlen : v.binaryPath.length = (v0.parent ++ [!v0.dir]).length
                  · exact hzV ⟨v, hv, hpre.eq_of_length hlen⟩
                  · have hpX : v.binaryPath <+: v0.parent := prefix_snoc_lt hpre (by omega)
                    have hpy : v.binaryPath <+: v0.binaryPath := by
                      rw [hy]; exact hpX.trans (List.prefix_append _ _)
                    have := inv.anti v hv v0 (by simp) hpy
                    rw [this, h0.path_length] at hlen
                    omega
                · have hlen : (v0.parent ++ [!v0.dir]).length = v.binaryPath.length := by
                    have := hpre.length_le; omega
                  exact hzV ⟨v, hv, (hpre.eq_of_length hlen).symm⟩
              have hnout : nh H (8 * keyLen) es (v0.parent ++ [!v0.dir]) ∉ out := by
                intro hmem
                obtain ⟨X0, b0, e1, e2, e3, e4, _⟩ := inv.o1 _ hmem
                have hzz : v0.parent ++ [!v0.dir] = X0 ++ [b0] :=
                  nh_injective c.hlen c.wfe c.ncT c.klen c.path hzP e2 hze e1
                have := List.append_inj' hzz rfl
                obtain ⟨hX0, hb0⟩ := this
                simp only [List.cons.injEq, and_true] at hb0
                apply e4 v0 (by simp)
                rw [hy, ← hX0, ← hb0, Bool.not_not]
              have hzNE : NoEmit H keyLen es ancs (out ++ [nh H (8 * keyLen) es (v0.parent ++ [!v0.dir])])
                  (v0.parent ++ [!v0.dir]) := Or.inr (Or.inr (by simp))
              obtain ⟨inv', hmP', hmV'⟩ := sim_fresh c inv hpath h1 (vrest' := vrest)
                (out' := out ++ [nh H (8 * keyLen) es (v0.parent ++ [!v0.dir])])
                inv.vinv.tail (fun v hv => hv) (Nat.le_refl _) (fun v hv => Or.inl hv) hnoz hins
                (fun a ha => List.mem_append_left _ ha) hzNE (fun ⟨v, hv, hcon⟩ => absurd hcon (hnoz v hv))
                (by
                  intro a ha
                  rcases List.mem_append.mp ha with h | h
                  · exact Or.inl h
                  · exact Or.inr ⟨by simpa using h, hze⟩)
              have hflag : (!(descend es (v0.parent ++ [!v0.dir])).isEmpty &&
                  !out.contains (nh H (8 * keyLen) es (v0.parent ++ [!v0.dir])) &&
                  !ancs.contains (nh H (8 * keyLen) es (v0.parent ++ [!v0.dir]))) = true := by
                have h1' : (descend es (v0.parent ++ [!v0.dir])).isEmpty = false := by
                  cases hd : descend es (v0.parent ++ [!v0.dir]) with
                  | nil => exact absurd hd hze
                  | cons _ _ => rfl
                have h2' : out.contains (nh H (8 * keyLen) es (v0.parent ++ [!v0.dir])) = false := by
                  cases hc : out.contains (nh H (8 * keyLen) es (v0.parent ++ [!v0.dir]))
                  · rfl
                  · exact absurd (List.contains_iff_mem.mp hc) hnout
                have h3' : ancs.contains (nh H (8 * keyLen) es (v0.parent ++ [!v0.dir])) = false := by
                  cases hc : ancs.contains (nh H (8 * keyLen) es (v0.parent ++ [!v0.dir]))
                  · rfl
                  · exact absurd (List.contains_iff_mem.mp hc) hnanc
                rw [h1', h2', h3']; rfl
              rw [hflag]
              simp only [↓reduceIte]
              obtain ⟨Y, hY1, hY2⟩ := ih _ _ (out ++ [nh H (8 * keyLen) es (v0.parent ++ [!v0.dir])]) f inv'
                (by rw [mP_cons] at hmP hmP'; omega) (by rw [mV_cons] at hmV hmV'; omega)
              refine ⟨nh H (8 * keyLen) es (v0.parent ++ [!v0.dir]) :: Y, by rw [hY1]; simp, ?_⟩
              rw [calcLoop_step_take c h0 h1 hrest hze, hins]
              exact hY2
        · -- the prover works on a position the verifier has finished
          obtain ⟨inv', hmP', hne⟩ := sim_stale inv hp1 hfresh
          rw [sibLoop_step hp hp1, noEmit_flag hne]
          simp only [Bool.false_eq_true, ↓reduceIte]
          exact ih _ _ out fV inv' (by rw [mP_cons] at hmP hmP'; omega) hmV

/-! ### the wire format of bitmaps -/

theorem byteBits_pack : ∀ (b7 b6 b5 b4 b3 b2 b1 b0 : Bool),
    byteBits (UInt8.ofNat (bit b7 128 + bit b6 64 + bit b5 32 + bit b4 16 + bit b3 8 + bit b2 4 + bit b1 2 + bit b0 1))
      = [b7, b6, b5, b4, b3, b2, b1, b0] := by
  decide

theorem keyBits_packBits : ∀ (k : Nat) (l : Bits), l.length = 8 * k → keyBits (packBits l) = l
  | 0, l, h => by
    have : l = [] := List.length_eq_zero_iff.mp (by omega)
    subst this; rfl
  | k + 1, l, h => by
    match l, h with
    | b7 :: b6 :: b5 :: b4 :: b3 :: b2 :: b1 :: b0 :: r, h =>
      have hr : r.length = 8 * k := by simp at h; omega
      simp only [packBits, keyBits, byteBits_pack, keyBits_packBits k r hr]
      rfl

theorem stripPrefixFalse_replicate (k : Nat) (l : Bits) :
    stripPrefixFalse (List.replicate k false ++ l) = stripPrefixFalse l := by
  induction k with
  | zero => rfl
  | succ k ih => simp only [List.replicate_succ, List.cons_append, stripPrefixFalse, ih]

theorem stripPrefixFalse_of_head (l : Bits) (h : l = [] ∨ ∃ r, l = true :: r) : stripPrefixFalse l = l := by
  rcases h with rfl | ⟨r, rfl⟩ <;> rfl

theorem fromBools_pad_length (l : Bits) : ∃ k, (List.replicate ((8 - l.length % 8) % 8) false ++ l).length = 8 * k := by
  refine ⟨((8 - l.length % 8) % 8 + l.length) / 8, ?_⟩
  simp only [List.length_append, List.length_replicate]
  omega

/-- decoding the packed bitmap gives the bitmap back (a bitmap never starts with a `false`) -/
theorem strip_toBools_fromBools (l : Bits) (h : l = [] ∨ ∃ r, l = true :: r) :
    stripPrefixFalse (toBools (fromBools l)) = l := by
  obtain ⟨k, hk⟩ := fromBools_pad_length l
  unfold toBools fromBools
  rw [keyBits_packBits k _ hk, stripPrefixFalse_replicate, stripPrefixFalse_of_head l h]

theorem byteBits_zero : byteBits 0 = [false, false, false, false, false, false, false, false] := by decide

/-- the packed bitmap has no leading zero byte -/
theorem fromBools_head_ne_zero (l : Bits) (h : l = [] ∨ ∃ r, l = true :: r) : ((fromBools l).headD 1 == 0) = false := by
  rcases h with rfl | ⟨r, rfl⟩
  · decide
  · obtain ⟨k, hk⟩ := fromBools_pad_length (true :: r)
    unfold fromBools
    generalize hp : (8 - (true :: r).length % 8) % 8 = pad at hk ⊢
    have hpad : pad < 8 := by omega
    cases hb : (packBits (List.replicate pad false ++ true :: r)).headD 1 == 0
    · rfl
    · exfalso
      have hkb := keyBits_packBits k _ hk
      cases hpk : packBits (List.replicate pad false ++ true :: r) with
      | nil =>
        rw [hpk] at hkb
        have hlen := congrArg List.length hkb
        rw [show keyBits [] = [] from rfl] at hlen
        simp at hlen
      | cons x xs =>
        rw [hpk] at hb hkb
        have hx : x = 0 := by simpa using hb
        subst hx
        simp only [keyBits, byteBits_zero] at hkb
        have hget : ([false, false, false, false, false, false, false, false] ++ keyBits xs)[pad]? =
            (List.replicate pad false ++ true :: r)[pad]? := by rw [hkb]
        have hr : (List.replicate pad false ++ true :: r)[pad]? = some true := by
          rw [List.getElem?_append_right (by simp)]; simp
        rw [hr] at hget
        have : pad = 0 ∨ pad = 1 ∨ pad = 2 ∨ pad = 3 ∨ pad = 4 ∨ pad = 5 ∨ pad = 6 ∨ pad = 7 := by omega
        rcases this with h | h | h | h | h | h | h | h <;> subst h <;> simp at hget

/-! ### the queries `Prove` generates -/

/-- what `generateQueryProof` returns for the key `k` -/
structure PQSpec (H : HashFn) (keyLen : Nat) (es : List Entry) (k : Bytes) (pq : PQ) : Prop where
  honest : HonestP H keyLen es pq
  path : pq.binaryPath = (keyBits k).take pq.height
  term : (pq.value = [] ∧ pq.key = k ∧ descend es pq.binaryPath = []) ∨
    (∃ e, descend es pq.binaryPath = [e] ∧ pq.key = e.key ∧ pq.value = e.value)
  anc : ∀ a, a ∈ pq.anc ↔ ∃ j, j ≤ pq.height ∧ descend es ((keyBits k).take j) ≠ [] ∧
    a = nh H (8 * keyLen) es ((keyBits k).take j)

/-- the key of an entry below position `P` starts with `P` -/
theorem keyBits_of_mem_descend {H : HashFn} {n keyLen : Nat} {es : List Entry} (c : TreeCtx H n keyLen es) {P : Bits}
    {e : Entry} (he : e ∈ descend es P) : keyBits e.key = P ++ e.path ∧ e.key.length = keyLen ∧ e.value ≠ [] := by
  obtain ⟨e0, he0, hp, hk, hv⟩ := (mem_descend P).mp he
  rw [hk, hv, ← hp, c.path e0 he0]
  exact ⟨rfl, c.klen e0 he0, c.vals e0 he0⟩

theorem queryInfo_pqspec {H : HashFn} {n keyLen : Nat} {es : List Entry} (c : TreeCtx H n keyLen es) (k : Bytes)
    (hk : k.length = keyLen) :
    PQSpec H keyLen es k (queryInfo H k (buildH H (8 * keyLen) es) (toBools k)) := by
  have hql : (toBools k).length = 8 * keyLen := by unfold toBools; rw [keyBits_length, hk]
  obtain ⟨i1, i2, i3, i4, i5, i6⟩ := queryInfo_spec H k (8 * keyLen) es (toBools k) c.wfe hql c.vals
  generalize queryInfo H k (buildH H (8 * keyLen) es) (toBools k) = pq at *
  have hPl : ((toBools k).take pq.bm.length).length = pq.bm.length := by
    rw [List.length_take, hql]; omega
  have hkey : pq.key.length = keyLen ∧ (toBools pq.key).take pq.bm.length = (toBools k).take pq.bm.length := by
    rcases i5 with ⟨_, hkk, _⟩ | ⟨e, hd, hkk, _⟩
    · rw [hkk]; exact ⟨hk, rfl⟩
    · have he : e ∈ descend es ((toBools k).take pq.bm.length) := by rw [hd]; simp
      obtain ⟨hb, hl, _⟩ := keyBits_of_mem_descend c he
      rw [hkk]
      refine ⟨hl, ?_⟩
      unfold toBools at *
      rw [hb, List.take_append_of_le_length (by omega), List.take_of_length_le (by omega)]
  have hpath : pq.binaryPath = (toBools k).take pq.bm.length := hkey.2
  exact ⟨⟨hkey.1, i1, by rw [hpath]; exact i2, by rw [hpath]; exact i3, by rw [hpath]; exact i4⟩, hpath,
    by rw [hpath]; exact i5, i6⟩

/-- the query of the wire format made from a prover query -/
def wireQ (pq : PQ) : Query := ⟨pq.key, pq.value, fromBools pq.bm⟩

theorem PQSpec.terminal {H : HashFn} {keyLen : Nat} {es : List Entry} {k : Bytes} {pq : PQ}
    (s : PQSpec H keyLen es k pq) : (descend es pq.binaryPath).length ≤ 1 := by
  rcases s.term with ⟨_, _, h⟩ | ⟨e, h, _⟩ <;> rw [h] <;> simp

/-- the bitmap of a generated query does not start with `false`: the sibling of a proven node is not empty -/
theorem PQSpec.bm_head {H : HashFn} {n keyLen : Nat} {es : List Entry} (c : TreeCtx H n keyLen es) {k : Bytes}
    {pq : PQ} (s : PQSpec H keyLen es k pq) : pq.bm = [] ∨ ∃ r, pq.bm = true :: r := by
  by_cases h0 : pq.height = 0
  · exact Or.inl (List.length_eq_zero_iff.mp h0)
  · right
    have h1 : 1 ≤ pq.height := by omega
    have hpp := s.honest.path_eq h1
    obtain ⟨hX, h2⟩ := s.honest.parent_branch h1
    have hbm := s.honest.bm
    rw [hpp, bmOf_snoc] at hbm
    refine ⟨bmOf es pq.toQP.parent, ?_⟩
    rw [hbm]
    congr 1
    have hXl := proper_length c.wfe hX
    have hlt := branch_depth c.wfe hXl h2
    have hwd : WFE ((8 * keyLen - pq.toQP.parent.length - 1) + 1) (descend es pq.toQP.parent) := by
      have := wfe_descend' c.wfe _ hXl
      rwa [show 8 * keyLen - pq.toQP.parent.length - 1 + 1 = 8 * keyLen - pq.toQP.parent.length by omega]
    have hsum := length_goB_add (descend es pq.toQP.parent) (wfe_path_ne_nil hwd) pq.toQP.dir
    have hterm := s.terminal
    rw [hpp, descend_snoc] at hterm
    rw [descend_snoc]
    cases hd : goB (!pq.toQP.dir) (descend es pq.toQP.parent) with
    | nil => rw [hd] at hsum; simp at hsum; omega
    | cons _ _ => rfl

theorem PQSpec.qpOf_wire {H : HashFn} {n keyLen : Nat} {es : List Entry} (c : TreeCtx H n keyLen es) {k : Bytes}
    {pq : PQ} (s : PQSpec H keyLen es k pq) : qpOf H (wireQ pq) = mkQP H pq.key pq.value pq.bm := by
  unfold qpOf wireQ
  simp only [strip_toBools_fromBools _ (s.bm_head c)]

/-- the verifier's query proof of a generated query is honest -/
theorem PQSpec.honestQ {H : HashFn} {n keyLen : Nat} {es : List Entry} (c : TreeCtx H n keyLen es) {k : Bytes}
    {pq : PQ} (s : PQSpec H keyLen es k pq) :
    HonestQ H keyLen es (qpOf H (wireQ pq)) ∧ (qpOf H (wireQ pq)).binaryPath = pq.binaryPath := by
  rw [s.qpOf_wire c]
  have hpath : (mkQP H pq.key pq.value pq.bm).binaryPath = pq.binaryPath := rfl
  refine ⟨⟨s.honest.klen, s.honest.hle, by rw [hpath]; exact s.honest.proper, ?_, by rw [hpath]; exact s.honest.bm⟩,
    hpath⟩
  rw [hpath]
  unfold mkQP nh
  simp only
  rcases s.term with ⟨hv, _, hd⟩ | ⟨e, hd, hk, hv⟩
  · rw [hv, hd]; simp
  · have he : e ∈ descend es pq.binaryPath := by rw [hd]; simp
    have hne := (keyBits_of_mem_descend c he).2.2
    rw [hd, hv, hk]
    cases hev : e.value with
    | nil => exact absurd hev hne
    | cons _ _ => simp [hev]

/-- two generated queries with the same proven key are the same query -/
theorem PQSpec.det {H : HashFn} {n keyLen : Nat} {es : List Entry} (c : TreeCtx H n keyLen es) {k₁ k₂ : Bytes}
    {pq₁ pq₂ : PQ} (s₁ : PQSpec H keyLen es k₁ pq₁) (s₂ : PQSpec H keyLen es k₂ pq₂) (hk₁ : k₁.length = keyLen)
    (hk₂ : k₂.length = keyLen) (hkey : pq₁.key = pq₂.key) : pq₁.bm = pq₂.bm ∧ pq₁.value = pq₂.value := by
  have hlen₁ := s₁.honest.path_length
  have hlen₂ := s₂.honest.path_length
  -- an entry with the queried key is below the proven node
  have hbelow : ∀ {k : Bytes} {pq : PQ} (s : PQSpec H keyLen es k pq) (hk : k.length = keyLen) {e0 : Entry},
      e0 ∈ es → e0.key = k → ∃ e ∈ descend es pq.binaryPath, e.key = k := by
    intro k pq s hk e0 he0 hk0
    refine ⟨⟨(keyBits k).drop pq.height, e0.key, e0.value⟩, ?_, hk0⟩
    rw [mem_descend]
    exact ⟨e0, he0, by rw [c.path e0 he0, hk0, s.path]; simp, rfl, rfl⟩
  rcases s₁.term with ⟨hv1, hkk1, hd1⟩ | ⟨e1, hd1, hkk1, hv1⟩
  · rcases s₂.term with ⟨hv2, hkk2, hd2⟩ | ⟨e2, hd2, hkk2, hv2⟩
    · have : k₁ = k₂ := by rw [← hkk1, ← hkk2, hkey]
      subst this
      have hp : pq₁.binaryPath = pq₂.binaryPath := by
        -- both are the first empty position on the path of the key
        rcases Nat.lt_trichotomy pq₁.height pq₂.height with h | h | h
        · exfalso
          have hpre : pq₂.binaryPath = pq₁.binaryPath ++ (pq₂.binaryPath.drop pq₁.height) := by
            rw [s₁.path, s₂.path, List.drop_take, ← List.take_add, show pq₁.height + (pq₂.height - pq₁.height) = pq₂.height by omega]
          cases hdr : pq₂.binaryPath.drop pq₁.height with
          | nil =>
            have := congrArg List.length hdr
            simp at this; omega
          | cons b r =>
            rw [hdr] at hpre
            have := (proper_prefix_branch s₂.honest.proper hpre).2
            rw [hd1] at this; simp at this
        · rw [s₁.path, s₂.path, h]
        · exfalso
          have hpre : pq₁.binaryPath = pq₂.binaryPath ++ (pq₁.binaryPath.drop pq₂.height) := by
            rw [s₁.path, s₂.path, List.drop_take, ← List.take_add, show pq₂.height + (pq₁.height - pq₂.height) = pq₁.height by omega]
          cases hdr : pq₁.binaryPath.drop pq₂.height with
          | nil =>
            have := congrArg List.length hdr
            simp at this; omega
          | cons b r =>
            rw [hdr] at hpre
            have := (proper_prefix_branch s₁.honest.proper hpre).2
            rw [hd2] at this; simp at this
      exact ⟨by rw [s₁.honest.bm, s₂.honest.bm, hp], by rw [hv1, hv2]⟩
    · exfalso
      have he2 : e2 ∈ descend es pq₂.binaryPath := by rw [hd2]; simp
      obtain ⟨e0, he0, _, hk0, _⟩ := (mem_descend _).mp he2
      obtain ⟨e, he, _⟩ := hbelow s₁ hk₁ he0 (by rw [← hk0, ← hkk2, ← hkey, hkk1])
      rw [hd1] at he; simp at he
  · have he1 : e1 ∈ descend es pq₁.binaryPath := by rw [hd1]; simp
    obtain ⟨f1, hf1, _, hkf1, _⟩ := (mem_descend _).mp he1
    rcases s₂.term with ⟨hv2, hkk2, hd2⟩ | ⟨e2, hd2, hkk2, hv2⟩
    · exfalso
      obtain ⟨e, he, _⟩ := hbelow s₂ hk₂ hf1 (by rw [← hkf1, ← hkk1, hkey, hkk2])
      rw [hd2] at he; simp at he
    · have he2 : e2 ∈ descend es pq₂.binaryPath := by rw [hd2]; simp
      have hb1 := (keyBits_of_mem_descend c he1).1
      have hb2 := (keyBits_of_mem_descend c he2).1
      have hkk : e1.key = e2.key := by rw [← hkk1, ← hkk2, hkey]
      rw [hkk] at hb1
      have hpre1 : pq₁.binaryPath <+: keyBits e2.key := by rw [hb1]; exact List.prefix_append _ _
      have hpre2 : pq₂.binaryPath <+: keyBits e2.key := by rw [hb2]; exact List.prefix_append _ _
      have hp : pq₁.binaryPath = pq₂.binaryPath := by
        rcases List.prefix_or_prefix_of_prefix hpre1 hpre2 with ⟨t, ht⟩ | ⟨t, ht⟩
        · cases t with
          | nil => simpa using ht
          | cons b r =>
            exfalso
            have := (proper_prefix_branch s₂.honest.proper ht.symm).2
            rw [hd1] at this; simp at this
        · cases t with
          | nil => simpa using ht.symm
          | cons b r =>
            exfalso
            have := (proper_prefix_branch s₁.honest.proper ht.symm).2
            rw [hd2] at this; simp at this
      refine ⟨by rw [s₁.honest.bm, s₂.honest.bm, hp], ?_⟩
      rw [hp, hd2] at hd1
      have : e1 = e2 := by simpa using hd1.symm
      rw [hv1, hv2, this]

/-- the proven node lies on the path of the queried key -/
theorem PQSpec.prefix_ok {H : HashFn} {keyLen : Nat} {es : List Entry} {k : Bytes}
    {pq : PQ} (s : PQSpec H keyLen es k pq) :
    pq.height ≤ commonPrefixLen (toBools k) (toBools pq.key) := by
  have hl := s.honest.path_length
  have h1 : toBools k = pq.binaryPath ++ (keyBits k).drop pq.height := by
    rw [s.path]; unfold toBools; simp
  have h2 : toBools pq.key = pq.binaryPath ++ (toBools pq.key).drop pq.height := by
    unfold PQ.binaryPath; simp
  have := commonPrefixLen_append pq.binaryPath ((keyBits k).drop pq.height) ((toBools pq.key).drop pq.height)
  rw [← h1, ← h2, hl] at this
  exact this

/-! ### the first two loops of `Verify` pass generated queries -/

theorem checkOne_honest {H : HashFn} {n keyLen : Nat} {es : List Entry} (c : TreeCtx H n keyLen es) {k : Bytes}
    {pq : PQ} {seen : List Query} (s : PQSpec H keyLen es k pq) (hk : k.length = keyLen)
    (hseen : ∀ d ∈ seen, ∃ k' pq', PQSpec H keyLen es k' pq' ∧ k'.length = keyLen ∧ d = wireQ pq') :
    checkOne keyLen k (wireQ pq) seen = none := by
  have a1 : (k.length != keyLen) = false := by simp [hk]
  have a2 : ((wireQ pq).key.length != keyLen) = false := by
    show (pq.key.length != keyLen) = false
    simp [s.honest.klen]
  have a3 : ((seen.find? (fun q => q.key = (wireQ pq).key)).any
      (fun d => d.bitmap != (wireQ pq).bitmap || d.value != (wireQ pq).value)) = false := by
    cases hf : seen.find? (fun q => q.key = (wireQ pq).key) with
    | none => rfl
    | some d =>
      have hd := List.mem_of_find?_eq_some hf
      have hdk := List.find?_some hf
      simp only [decide_eq_true_eq] at hdk
      obtain ⟨k', pq', s', hk', rfl⟩ := hseen d hd
      have hkey : pq'.key = pq.key := hdk
      obtain ⟨e1, e2⟩ := s'.det c s hk' hk hkey
      simp [wireQ, e1, e2]
  have hstrip : stripPrefixFalse (toBools (wireQ pq).bitmap) = pq.bm := strip_toBools_fromBools _ (s.bm_head c)
  have a4 : ((wireQ pq).bitmap.headD 1 == 0) = false := fromBools_head_ne_zero _ (s.bm_head c)
  have a5 : ¬ (stripPrefixFalse (toBools (wireQ pq).bitmap)).length > 8 * keyLen := by
    rw [hstrip]; have := s.honest.hle; unfold PQ.height at this; omega
  have a6 : ¬ (stripPrefixFalse (toBools (wireQ pq).bitmap)).length >
      commonPrefixLen (toBools k) (toBools (wireQ pq).key) := by
    rw [hstrip]; have := s.prefix_ok; unfold PQ.height at this
    show ¬ pq.bm.length > commonPrefixLen (toBools k) (toBools pq.key)
    omega
  unfold checkOne
  rw [a1, a2, a3, a4]
  simp only [Bool.false_eq_true, ↓reduceIte, a5, a6]
  split <;> rfl

theorem checkQueries_honest {H : HashFn} {n keyLen : Nat} {es : List Entry} (c : TreeCtx H n keyLen es)
    (f : Bytes → PQ) (hf : ∀ k, k.length = keyLen → PQSpec H keyLen es k (f k)) :
    ∀ (keys : List Bytes) (seen : List Query), (∀ k ∈ keys, k.length = keyLen) →
      (∀ d ∈ seen, ∃ k' pq', PQSpec H keyLen es k' pq' ∧ k'.length = keyLen ∧ d = wireQ pq') →
      checkQueries keyLen keys (keys.map fun k => wireQ (f k)) seen = none
  | [], _, _, _ => rfl
  | k :: keys, seen, hks, hseen => by
    have hk := hks k (by simp)
    simp only [List.map_cons, checkQueries]
    rw [checkOne_honest c (hf k hk) hk hseen]
    simp only
    apply checkQueries_honest c f hf keys _ (fun k' hk' => hks k' (List.mem_cons_of_mem _ hk'))
    intro d hd
    rcases List.mem_cons.mp hd with rfl | hd
    · exact ⟨k, f k, hf k hk, hk, rfl⟩
    · exact hseen d hd

/-- among honest queries the position filter finds no clash -/
theorem filterQueries_honest {H : HashFn} {keyLen : Nat} {es : List Entry} :
    ∀ (qs : List Query) (acc : List QP), (∀ q ∈ qs, HonestQ H keyLen es (qpOf H q)) →
      (∀ e ∈ acc, HonestQ H keyLen es e) → ∃ out, filterQueries H qs acc = some out
  | [], acc, _, _ => ⟨acc.reverse, rfl⟩
  | query :: qs, acc, hqs, hacc => by
    have hq := hqs query (by simp)
    have hrest : ∀ q ∈ qs, HonestQ H keyLen es (qpOf H q) := fun q hq' => hqs q (List.mem_cons_of_mem _ hq')
    simp only [filterQueries]
    change ∃ out, (match acc.find? (fun e => e.binaryPath = (qpOf H query).binaryPath) with
      | none => filterQueries H qs (qpOf H query :: acc)
      | some existing =>
        if existing.hash = (qpOf H query).hash && existing.bm = (qpOf H query).bm then filterQueries H qs acc
        else none) = some out
    split
    · apply filterQueries_honest qs _ hrest
      intro e he
      rcases List.mem_cons.mp he with rfl | he
      · exact hq
      · exact hacc e he
    · next existing hfind =>
      have he := hacc existing (List.mem_of_find?_eq_some hfind)
      have hp := List.find?_some hfind
      simp only [decide_eq_true_eq] at hp
      have h1 : existing.hash = (qpOf H query).hash := by rw [he.hash, hq.hash, hp]
      have h2 : existing.bm = (qpOf H query).bm := by rw [he.bm, hq.bm, hp]
      simp only [h1, h2, decide_true, Bool.and_self, ↓reduceIte]
      exact filterQueries_honest qs acc hrest hacc

/-! ### `Verify (Prove keys)` -/

theorem prove_eq (H : HashFn) (keyLen : Nat) (t : HT) (keys : List Bytes) (hkeys : ∀ k ∈ keys, k.length = keyLen) :
    prove H keyLen t keys = some
      { siblings := sibLoop ((keys.map fun k => queryInfo H k t (toBools k)).flatMap (·.anc))
          (mP (isort pqLe (keys.map fun k => queryInfo H k t (toBools k))) + 1)
          (isort pqLe (keys.map fun k => queryInfo H k t (toBools k))) [],
        queries := (keys.map fun k => queryInfo H k t (toBools k)).map wireQ } := by
  unfold prove
  have : keys.any (fun k => k.length != keyLen) = false := by
    rw [List.any_eq_false]
    intro k hk
    simp [hkeys k hk]
  rw [this]
  rfl

/-- **Completeness of `Prove` / `Verify` for any non-empty list of keys**, in terms of the entries of the tree -/
theorem prove_verify {H : HashFn} {n keyLen : Nat} {es : List Entry} (c : TreeCtx H n keyLen es) (keys : List Bytes)
    (hne : keys ≠ []) (hkeys : ∀ k ∈ keys, k.length = keyLen) :
    ∃ proof, prove H keyLen (buildH H (8 * keyLen) es) keys = some proof ∧
      verify H keys proof (root H (8 * keyLen) es) keyLen = .ok true ∧
      proof.queries = keys.map (fun k => wireQ (queryInfo H k (buildH H (8 * keyLen) es) (toBools k))) ∧
      ∀ k, k.length = keyLen →
        PQSpec H keyLen es k (queryInfo H k (buildH H (8 * keyLen) es) (toBools k)) := by
  refine ⟨_, prove_eq H keyLen _ keys hkeys, ?_, by simp [List.map_map, Function.comp_def],
    fun k hk => queryInfo_pqspec c k hk⟩
  generalize hqi : (fun k => queryInfo H k (buildH H (8 * keyLen) es) (toBools k)) = qi
  have hspec : ∀ k, k.length = keyLen → PQSpec H keyLen es k (qi k) := by
    intro k hk; rw [← hqi]; exact queryInfo_pqspec c k hk
  have hpqs : ∀ pq ∈ keys.map qi, ∃ k ∈ keys, pq = qi k ∧ PQSpec H keyLen es k pq := by
    intro pq hpq
    obtain ⟨k, hk, rfl⟩ := List.mem_map.mp hpq
    exact ⟨k, hk, rfl, hspec k (hkeys k hk)⟩
  -- the ancestor hashes
  have A : AncCtx H keyLen es ((keys.map qi).map PQ.binaryPath) ((keys.map qi).flatMap (·.anc)) := by
    refine ⟨?_, ?_, ?_, ?_⟩
    · intro t ht
      obtain ⟨pq, hpq, rfl⟩ := List.mem_map.mp ht
      obtain ⟨k, _, _, s⟩ := hpqs pq hpq
      exact s.honest.proper
    · intro t ht z hz
      obtain ⟨pq, hpq, rfl⟩ := List.mem_map.mp ht
      obtain ⟨k, _, _, s⟩ := hpqs pq hpq
      by_cases hze : descend es z = []
      · exact Or.inl hze
      · right
        rw [List.mem_flatMap]
        refine ⟨pq, hpq, ?_⟩
        rw [s.anc]
        have hzl := hz.length_le
        rw [s.honest.path_length] at hzl
        have hzt : z = (keyBits k).take z.length := by
          have hz' : z <+: keyBits k := by
            rw [s.path] at hz
            exact hz.trans (List.take_prefix _ _)
          exact List.prefix_iff_eq_take.mp hz'
        exact ⟨z.length, hzl, by rw [← hzt]; exact hze, by rw [← hzt]⟩
    · intro a ha
      obtain ⟨pq, hpq, hapq⟩ := List.mem_flatMap.mp ha
      obtain ⟨k, _, _, s⟩ := hpqs pq hpq
      obtain ⟨j, hj, hne', hnh⟩ := (s.anc a).mp hapq
      refine ⟨pq.binaryPath, List.mem_map.mpr ⟨pq, hpq, rfl⟩, (keyBits k).take j, ?_, hne', hnh⟩
      rw [s.path]
      exact List.take_prefix_take_left (by omega)
    · cases keys with
      | nil => exact absurd rfl hne
      | cons k ks => simp
  -- the queries of the proof and their query proofs
  have hwire : ∀ q ∈ (keys.map qi).map wireQ, ∃ k ∈ keys, q = wireQ (qi k) ∧ PQSpec H keyLen es k (qi k) := by
    intro q hq
    obtain ⟨pq, hpq, rfl⟩ := List.mem_map.mp hq
    obtain ⟨k, hk, rfl, s⟩ := hpqs pq hpq
    exact ⟨k, hk, rfl, s⟩
  have hhon : ∀ q ∈ (keys.map qi).map wireQ, HonestQ H keyLen es (qpOf H q) := by
    intro q hq
    obtain ⟨k, _, rfl, s⟩ := hwire q hq
    exact (s.honestQ c).1
  obtain ⟨filtered, hfilt⟩ := filterQueries_honest ((keys.map qi).map wireQ) [] hhon (by simp)
  obtain ⟨hdist, hfrom, -, hrep⟩ := filterQueries_spec H _ _ _ hfilt List.Pairwise.nil
  have hfmem : ∀ x ∈ sortQPs filtered, ∃ k ∈ keys, x = qpOf H (wireQ (qi k)) ∧ PQSpec H keyLen es k (qi k) := by
    intro x hx
    rw [sortQPs_eq, mem_isort] at hx
    rcases hfrom x hx with h' | ⟨q, hq, rfl⟩
    · simp at h'
    · obtain ⟨k, hk, rfl, s⟩ := hwire q hq
      exact ⟨k, hk, rfl, s⟩
  have hVhon : ∀ x ∈ sortQPs filtered, HonestQ H keyLen es x := by
    intro x hx
    obtain ⟨k, _, rfl, s⟩ := hfmem x hx
    exact (s.honestQ c).1
  have hinv : QInv keyLen (sortQPs filtered) := by
    refine ⟨fun x hx => (hVhon x hx).klen, fun x hx => (hVhon x hx).hle, sortQPs_sorted _, ?_⟩
    rw [sortQPs_eq]
    exact ((isort_perm qpLe filtered).pairwise_iff (fun h e => h e.symm)).mpr hdist
  have hPmem : ∀ p ∈ isort pqLe (keys.map qi), ∃ k ∈ keys, p = qi k ∧ PQSpec H keyLen es k p := by
    intro p hp
    rw [mem_isort] at hp
    exact hpqs p hp
  have inv : SimInv H keyLen es ((keys.map qi).map PQ.binaryPath) ((keys.map qi).flatMap (·.anc))
      (isort pqLe (keys.map qi)) (sortQPs filtered) [] := by
    refine ⟨isort_pq_sorted _, ?_, hinv, hVhon, ?_, ?_, ?_, ?_, ?_, by simp⟩
    · intro p hp
      obtain ⟨k, _, _, s⟩ := hPmem p hp
      exact s.honest
    · -- proven nodes are empty nodes or leaves: none lies above another
      intro v hv w hw hpre
      obtain ⟨k1, _, rfl, s1⟩ := hfmem v hv
      obtain ⟨k2, _, rfl, s2⟩ := hfmem w hw
      rw [(s1.honestQ c).2, (s2.honestQ c).2] at hpre ⊢
      obtain ⟨t, ht⟩ := hpre
      cases t with
      | nil => simpa using ht
      | cons b r =>
        exfalso
        have := (proper_prefix_branch s2.honest.proper ht.symm).2
        have := s1.terminal
        omega
    · intro v hv
      obtain ⟨k, hk, rfl, s⟩ := hfmem v hv
      exact ⟨(qi k).binaryPath, List.mem_map.mpr ⟨qi k, List.mem_map.mpr ⟨k, hk, rfl⟩, rfl⟩,
        by rw [(s.honestQ c).2]; exact List.prefix_refl _⟩
    · intro t ht
      obtain ⟨pq, hpq, rfl⟩ := List.mem_map.mp ht
      obtain ⟨e, he, hep, _, _⟩ := hrep (wireQ pq) (List.mem_map.mpr ⟨pq, hpq, rfl⟩)
      obtain ⟨k, _, rfl, s⟩ := hpqs pq hpq
      refine ⟨e, by rw [sortQPs_eq, mem_isort]; exact he, ?_⟩
      rw [hep, (s.honestQ c).2]
      exact List.prefix_refl _
    · intro v hv
      obtain ⟨k, hk, rfl, s⟩ := hfmem v hv
      exact ⟨qi k, by rw [mem_isort]; exact List.mem_map.mpr ⟨k, hk, rfl⟩, (s.honestQ c).2.symm⟩
    · intro p hp
      left
      obtain ⟨k, hk, rfl, s⟩ := hPmem p hp
      obtain ⟨e, he, hep, _, _⟩ := hrep (wireQ (qi k))
        (List.mem_map.mpr ⟨qi k, List.mem_map.mpr ⟨k, hk, rfl⟩, rfl⟩)
      exact ⟨e, by rw [sortQPs_eq, mem_isort]; exact he, by rw [hep, (s.honestQ c).2]⟩
  obtain ⟨Y, hY1, hY2⟩ := sim c A (mP (isort pqLe (keys.map qi)) + 1) _ _ [] (calcFuel (sortQPs filtered)) inv
    (by omega) (by rw [calcFuel_eq]; omega)
  simp only [List.nil_append] at hY1
  -- `Verify`
  unfold verify
  simp only [List.length_map, bne_self_eq_false, Bool.false_eq_true, ↓reduceIte]
  have hcq : checkQueries keyLen keys ((keys.map qi).map wireQ) [] = none := by
    have := checkQueries_honest c qi hspec keys [] hkeys (by simp)
    rw [List.map_map]
    exact this
  rw [hcq]
  simp only [hfilt]
  unfold calculateRoot
  simp only [hY1, hY2]
  simp [nh, descend]

end LiskVerif.SMTVerify
