/-
What it means for the store to represent a map (Model/SMTImpl.lean over Model/SMTSpec.lean): definitions.

* `descend x es` – the entries of `es` below the relative position `x`, seen from there;
* `RepSub c f db d es h` – the store `db` holds, under the key `h`, the record of a canonical subtree arranging the
  entries `es` (`d` key bits left), and recursively the records of the subtrees its stubs point to (`f` bounds the
  number of levels); `Rep` – the same for some bound;
* `Represents c db root m` – the store represents the map `m` at `root`;
* `Avoids H k d es` – the key `k` is not the record key of `es` or of any group of at least two entries below it.
-/
import LiskVerif.Lemmas.SMTImplLevel
import LiskVerif.Lemmas.SMTImplLayout

namespace LiskVerif.SMTImpl
open LiskVerif LiskVerif.SMT

/-- the entries below the relative position `x` -/
def descend : Bits → List Entry → List Entry
  | [], es => es
  | false :: x, es => descend x (goL es)
  | true :: x, es => descend x (goR es)

def RepSub (c : Cfg) : Nat → DB → Nat → List Entry → Bytes → Prop
  | 0, _, _, _, _ => False
  | f + 1, db, d, es, h =>
    ∃ T : LT, Arr c.H (RepSub c f db) c.sth d T es ∧ T.Canon ∧ h = root c.H d es ∧
      dbGet db h = some (SubTree.encode ⟨T.depths 0, h, T.nodes⟩)

def Rep (c : Cfg) (db : DB) (d : Nat) (es : List Entry) (h : Bytes) : Prop := ∃ f, RepSub c f db d es h

/-- the map `m` as the trie sees it: distinct keys of the key length, values of the hash size -/
structure WFMap (c : Cfg) (m : List KV) : Prop where
  nodup : NoDupKeys m
  keys : ∀ kv ∈ m, kv.1.length = c.keyLen
  values : ∀ kv ∈ m, kv.2.length = c.hashSize

/-- **the store `db` represents the map `m` at `root`**: `root` is the LIP-0039 root of `m` and, unless `m` is empty
(no record is read for the empty root), the records of the whole tree are there (for the entries in some order) -/
def Represents (c : Cfg) (db : DB) (root : Bytes) (m : List KV) : Prop :=
  WFMap c m ∧ root = mapRoot c.H c.keyLen m ∧
    (m ≠ [] → ∃ es, es.Perm (entriesOf m) ∧ Rep c db (8 * c.keyLen) es root)

/-- `k` is not the record key of a group of at least two entries at or below the position of `es` -/
def Avoids (H : HashFn) (k : Bytes) (d : Nat) (es : List Entry) : Prop :=
  ∀ x : Bits, 2 ≤ (descend x es).length → k ≠ root H (d - x.length) (descend x es)

/-- what the refinement needs of the hash: outputs of one positive length and no collision among the inputs `X`
(a hash with outputs of one length cannot be injective on all byte strings, so `X` is the finite set of inputs
hashed for the trees involved, see `treeInputs`) -/
structure GoodHash (c : Cfg) (X : Bytes → Prop) : Prop where
  inj : ∀ a b, X a → X b → c.H a = c.H b → a = b
  len : ∀ x, (c.H x).length = c.hashSize
  pos : 0 < c.hashSize
  nil : X []

/-- all inputs hashed for the root of the group `es` are among `X` -/
def InX (c : Cfg) (X : Bytes → Prop) (d : Nat) (es : List Entry) : Prop := ∀ a ∈ treeInputs c.H d es, X a

/-- a represented group of well-formed entries whose hash inputs are among `X` -/
def RepW (c : Cfg) (X : Bytes → Prop) (db : DB) (d : Nat) (es : List Entry) (h : Bytes) : Prop :=
  WFE d es ∧ (∀ e ∈ es, e.key.length = c.keyLen) ∧ InX c X d es ∧ Rep c db d es h

/-- frame: records of subtrees at positions diverging from `pre` are kept -/
def KeepsOutside (c : Cfg) (X : Bytes → Prop) (pre : Bits) (db db' : DB) : Prop :=
  ∀ (pre' : Bits) (d : Nat) (es : List Entry) (h : Bytes), Diverge pre pre' → (∀ e ∈ es, Under pre' e) →
    2 ≤ es.length → RepW c X db d es h → RepW c X db' d es h

end LiskVerif.SMTImpl
