/-
Lemmas about remembering store views (Model/StoreView.lean): a view whose memory agrees with the database
answers every entry point as specified.  Core Lean only.
-/
import LiskVerif.Model.StoreView

namespace LiskVerif.StoreView

theorem fresh_agrees (db : DB) : View.fresh.agrees db := by
  intro k x h
  simp [View.fresh, lookup] at h

theorem get_agrees (v : View) (db : DB) (k : Nat) (h : v.agrees db) :
    (v.get db k).2 = db k ∧ (v.get db k).1.agrees db := by
  unfold View.get
  cases hl : lookup k v.cache with
  | some x => exact ⟨h k x hl, h⟩
  | none =>
    refine ⟨rfl, ?_⟩
    intro k' x' hx
    simp only [lookup] at hx
    split at hx
    · rename_i hk
      cases hx
      rw [hk]
    · exact h k' x' hx

/-- a view that agrees with the database answers as specified and still agrees afterwards -/
theorem Prog.run_eq_spec {α : Type} (p : Prog α) (v : View) (db : DB) (h : v.agrees db) :
    (p.run v db).2 = p.spec db ∧ (p.run v db).1.agrees db := by
  induction p generalizing v with
  | ret a => exact ⟨rfl, h⟩
  | read k f ih =>
    have hg := get_agrees v db k h
    simp only [Prog.run, Prog.spec]
    rw [hg.1]
    exact ih (db k) (v.get db k).1 hg.2

end LiskVerif.StoreView
