/- C14: eviction and `add` preserve the pool invariant. -/
import LiskVerif.Lemmas.TxPoolInv

namespace LiskVerif.TxPool

/-! ### choosing the eviction victim -/

theorem minPrio_mem : ∀ (l : List Tx) (m : Nat), minPrio l = some m → ∃ t ∈ l, t.prio = m := by
  intro l
  induction l with
  | nil => intro m h; cases h
  | cons a r ih =>
    intro m h
    unfold minPrio at h
    cases hr : minPrio r with
    | none =>
      rw [hr] at h
      exact ⟨a, List.mem_cons_self, by simpa using h⟩
    | some m' =>
      rw [hr] at h
      simp only [Option.some.injEq] at h
      by_cases hc : a.prio < m'
      · rw [if_pos hc] at h; exact ⟨a, List.mem_cons_self, h⟩
      · rw [if_neg hc] at h
        obtain ⟨t, ht, htm⟩ := ih m' hr
        exact ⟨t, List.mem_cons_of_mem _ ht, htm.trans h⟩

theorem minPrio_none : ∀ (l : List Tx), minPrio l = none → l = [] := by
  intro l h
  cases l with
  | nil => rfl
  | cons a r =>
    unfold minPrio at h
    cases hr : minPrio r <;> rw [hr] at h <;> cases h

theorem minCands_subset {l : List Tx} {t : Tx} (h : t ∈ minCands l) : t ∈ l := by
  unfold minCands at h
  split at h
  · cases h
  · exact (List.mem_filter.1 h).1

theorem minCands_ne_nil {l : List Tx} (h : l ≠ []) : minCands l ≠ [] := by
  unfold minCands
  cases hm : minPrio l with
  | none => exact absurd (minPrio_none l hm) h
  | some m =>
    obtain ⟨t, ht, htm⟩ := minPrio_mem l m hm
    intro hf
    have : t ∈ l.filter (fun t => t.prio == m) := List.mem_filter.2 ⟨ht, by simpa using htm⟩
    simp only at hf
    rw [hf] at this; cases this

theorem pickMin_mem {l : List Tx} {tie : Nat} {t : Tx} (h : pickMin l tie = some t) : t ∈ l := by
  unfold pickMin at h
  exact minCands_subset (List.mem_of_getElem? h)

theorem pickMin_some {l : List Tx} (tie : Nat) (h : l ≠ []) : ∃ t, pickMin l tie = some t := by
  unfold pickMin
  have hc := minCands_ne_nil h
  have hpos : 0 < (minCands l).length := List.length_pos_iff.2 hc
  exact ⟨_, List.getElem?_eq_getElem (Nat.mod_lt _ hpos)⟩

theorem processables_subset {a : Acct} {t : Tx} (h : t ∈ a.processables) : t ∈ a.txs := by
  unfold Acct.processables at h
  obtain ⟨n, _, hg⟩ := List.mem_filterMap.1 h
  exact (get_some hg).1

theorem unprocessables_subset {a : Acct} {t : Tx} (h : t ∈ a.unprocessables) : t ∈ a.txs := by
  unfold Acct.unprocessables at h
  obtain ⟨n, _, hg⟩ := List.mem_filterMap.1 h
  exact (get_some hg).1

theorem evictCands_mem {p : Pool} {t : Tx} (h : t ∈ evictCands p) : ∃ e ∈ p.accts, t ∈ e.2.txs := by
  unfold evictCands at h
  split at h
  · unfold procCands at h
    obtain ⟨e, he, hl⟩ := List.mem_filterMap.1 h
    exact ⟨e, he, processables_subset (List.mem_of_getLast? hl)⟩
  · unfold unprocCands at h
    obtain ⟨e, he, hl⟩ := List.mem_flatMap.1 h
    exact ⟨e, he, unprocessables_subset hl⟩

theorem filterMap_get_ne_nil {a : Acct} {l : List Nat} (hl : l ≠ [])
    (h : ∀ n ∈ l, ∃ t ∈ a.txs, t.nonce = n) : l.filterMap a.get ≠ [] := by
  cases l with
  | nil => exact absurd rfl hl
  | cons n r =>
    obtain ⟨t, ht, htn⟩ := h n List.mem_cons_self
    obtain ⟨t', ht'⟩ := get_isSome_of_mem ht
    rw [htn] at ht'
    rw [List.filterMap_cons, ht']
    exact List.cons_ne_nil _ _

theorem sortedNonces_mem {a : Acct} {n : Nat} (h : n ∈ a.sortedNonces) : ∃ t ∈ a.txs, t.nonce = n := by
  unfold Acct.sortedNonces at h
  rw [mem_isort] at h
  exact List.mem_map.1 h

theorem sortedNonces_length (a : Acct) : a.sortedNonces.length = a.txs.length := by
  unfold Acct.sortedNonces
  rw [(isort_perm _ _).length_eq, List.length_map]

theorem evictCands_ne_nil {cfg : Cfg} {p : Pool} (h : C14Inv cfg p) (hne : p.all ≠ []) : evictCands p ≠ [] := by
  unfold evictCands
  split
  · rename_i hu
    have hu : unprocCands p = [] := by simpa using hu
    obtain ⟨t, ht⟩ := List.exists_mem_of_ne_nil _ hne
    obtain ⟨a, ha, hta⟩ := h.allInAcct t ht
    have hai := h.acctOk _ ha
    have hua : a.unprocessables = [] := by
      unfold unprocCands at hu
      exact List.flatMap_eq_nil_iff.1 hu _ ha
    have hdrop : a.sortedNonces.drop a.proc.length = [] := by
      apply Classical.byContradiction
      intro hd
      exact filterMap_get_ne_nil hd (fun n hn => sortedNonces_mem (List.mem_of_mem_drop hn)) hua
    have hlen : a.txs.length ≤ a.proc.length := by
      rw [← sortedNonces_length]; exact List.drop_eq_nil_iff.1 hdrop
    have hprocne : a.proc ≠ [] := by
      intro hp
      rw [hp] at hlen
      have : a.txs = [] := List.eq_nil_of_length_eq_zero (by simpa using hlen)
      exact hai.nonempty this
    have hps : a.processables ≠ [] := filterMap_get_ne_nil hprocne hai.procIn
    obtain ⟨x, hx⟩ : ∃ x, a.processables.getLast? = some x := by
      cases hl : a.processables.getLast? with
      | none => exact absurd (List.getLast?_eq_none_iff.1 hl) hps
      | some x => exact ⟨x, rfl⟩
    intro hnil
    have : x ∈ procCands p := List.mem_filterMap.2 ⟨_, ha, hx⟩
    rw [hnil] at this; cases this
  · rename_i hu
    intro hnil; rw [hnil] at hu; simp at hu

theorem evict_inv {cfg : Cfg} {p : Pool} (h : C14Inv cfg p) (tie : Nat) : C14Inv cfg (evict p tie) := by
  unfold evict
  split
  · exact remove_inv h _
  · exact h

theorem evict_all_subset (p : Pool) (tie : Nat) : ∀ t ∈ (evict p tie).all, t ∈ p.all := by
  unfold evict
  split
  · exact remove_all_subset p _
  · exact fun _ h => h

theorem evict_length_lt {cfg : Cfg} {p : Pool} (h : C14Inv cfg p) (hne : p.all ≠ []) (tie : Nat) :
    (evict p tie).all.length < p.all.length := by
  unfold evict
  obtain ⟨t, ht⟩ := pickMin_some tie (evictCands_ne_nil h hne)
  rw [ht]
  obtain ⟨e, he, hte⟩ := evictCands_mem (pickMin_mem ht)
  exact remove_length_lt h (h.acctInAll e he t hte)

/-! ### adding to a sender list -/

theorem acct_add_spec (cfg : Cfg) (hmax : 1 ≤ cfg.maxPerAcct) (a : Acct) (tx : Tx) :
    (a.add cfg tx = (a, false, none) ∧
      ∀ old, a.get tx.nonce = some old → tx.fee < old.fee + cfg.minFeeDiff) ∨
    (a.get tx.nonce = none ∧ a.txs.length + 1 ≤ cfg.maxPerAcct ∧
      a.add cfg tx = ({ a with txs := tx :: a.txs }, true, none)) ∨
    (∃ old, a.get old.nonce = some old ∧ (old.nonce = tx.nonce ∨ a.get tx.nonce = none) ∧
      (old.nonce = tx.nonce → old.fee + cfg.minFeeDiff ≤ tx.fee) ∧
      a.add cfg tx = ({ txs := tx :: a.txs.filter (fun x => x.nonce != old.nonce),
                        proc := demote a.proc old.nonce }, true, some old)) := by
  unfold Acct.add
  cases hg : a.get tx.nonce with
  | some old =>
    have hon := (get_some hg).2
    simp only
    by_cases hf : tx.fee < old.fee + cfg.minFeeDiff
    · rw [if_pos hf]; left
      refine ⟨rfl, ?_⟩
      intro o ho; cases ho; exact hf
    · rw [if_neg hf]; right; right
      refine ⟨old, by rw [hon]; exact hg, Or.inl hon, fun _ => by omega, ?_⟩
      rw [hon]
  | none =>
    simp only
    by_cases hfull : a.txs.length + 1 > cfg.maxPerAcct
    · rw [if_pos hfull]
      by_cases hgt : tx.nonce > a.maxNonce
      · rw [if_pos hgt]; left
        refine ⟨rfl, ?_⟩
        intro o ho; cases ho
      · rw [if_neg hgt]; right; right
        have hne : a.txs ≠ [] := by
          intro h0; rw [h0] at hfull; simp at hfull; omega
        obtain ⟨t, ht, htm⟩ := maxNonce_mem a hne
        obtain ⟨t', ht'⟩ := get_isSome_of_mem ht
        rw [htm] at ht'
        have hn' := (get_some ht').2
        rcases acct_remove_spec a a.maxNonce with ⟨hn, _⟩ | ⟨t'', hg'', hr⟩
        · rw [ht'] at hn; cases hn
        · rw [ht'] at hg''; cases hg''
          refine ⟨t', by rw [hn']; exact ht', by simp, ?_, ?_⟩
          · intro hcontra
            have := get_none hg t' (get_some ht').1
            exact absurd hcontra this
          · rw [hr, hn']
    · rw [if_neg hfull]; right; left
      exact ⟨by simp, by omega, rfl⟩

/-! ### facts about the list `Add` works on -/

structure AcctFacts (cfg : Cfg) (p : Pool) (s : Nat) (a : Acct) : Prop where
  sender : ∀ t ∈ a.txs, t.sender = s
  nodup : (a.txs.map (·.nonce)).Nodup
  bound : a.txs.length ≤ cfg.maxPerAcct
  gapfree : GapFree a.proc
  procIn : ∀ n ∈ a.proc, ∃ t ∈ a.txs, t.nonce = n
  inAll : ∀ t ∈ a.txs, t ∈ p.all
  owns : ∀ x ∈ p.all, x.sender = s → x ∈ a.txs
  reg : a.txs ≠ [] → (s, a) ∈ p.accts

theorem acct_facts {cfg : Cfg} {p : Pool} (h : C14Inv cfg p) (s : Nat) :
    AcctFacts cfg p s ((findAcct p.accts s).getD {}) := by
  cases hf : findAcct p.accts s with
  | none =>
    simp only [Option.getD_none]
    refine ⟨by simp, by simp, by simp, gapFree_nil, by simp, by simp, ?_, by simp⟩
    intro x hx hs
    obtain ⟨ax, hax, _⟩ := h.allInAcct x hx
    exact absurd hs (findAcct_none hf _ hax)
  | some a =>
    simp only [Option.getD_some]
    have ha := findAcct_some hf
    have hai := h.acctOk _ ha
    refine ⟨hai.sender, hai.nodup, hai.bound, hai.gapfree, hai.procIn, h.acctInAll _ ha, ?_, fun _ => ha⟩
    intro x hx hs
    obtain ⟨ax, hax, hxax⟩ := h.allInAcct x hx
    rw [hs] at hax
    have := inj_of_nodup_map _ _ h.acctsNodup _ hax _ ha rfl
    rw [← (Prod.mk.inj this).2]; exact hxax

/-- putting a new transaction into a free slot -/
theorem insert_inv {cfg : Cfg} {p : Pool} (h : C14Inv cfg p) (tx : Tx) (hid : ∀ t ∈ p.all, t.id ≠ tx.id)
    (hlen : p.all.length + 1 ≤ cfg.maxTx) (a : Acct) (hf : AcctFacts cfg p tx.sender a)
    (hget : a.get tx.nonce = none) (hal : a.txs.length + 1 ≤ cfg.maxPerAcct) :
    C14Inv cfg { all := tx :: p.all, accts := setAcct p.accts tx.sender { a with txs := tx :: a.txs },
                 heap := tx :: p.heap, fault := p.fault } := by
  refine ⟨h.noFault, ?_, nodup_setAcct _ _ h.acctsNodup, ?_, ?_, ?_, List.Perm.cons _ h.heapPerm, by simpa using hlen⟩
  · show ((tx :: p.all).map (·.id)).Nodup
    rw [List.map_cons, List.nodup_cons]
    refine ⟨?_, h.allNodup⟩
    intro hm
    obtain ⟨t, ht, hti⟩ := List.mem_map.1 hm
    exact hid t ht hti
  · intro e he
    rcases mem_setAcct.1 he with rfl | he
    · refine ⟨List.cons_ne_nil _ _, ?_, ?_, by simpa using hal, hf.gapfree, ?_⟩
      · show ((tx :: a.txs).map (·.nonce)).Nodup
        rw [List.map_cons, List.nodup_cons]
        refine ⟨?_, hf.nodup⟩
        intro hm
        obtain ⟨t, ht, htn⟩ := List.mem_map.1 hm
        exact get_none hget t ht htn
      · intro t ht
        rcases List.mem_cons.1 ht with rfl | ht
        · rfl
        · exact hf.sender t ht
      · intro n hn
        obtain ⟨t, ht, htn⟩ := hf.procIn n hn
        exact ⟨t, List.mem_cons_of_mem _ ht, htn⟩
    · exact h.acctOk e he.1
  · intro x hx
    rcases List.mem_cons.1 hx with rfl | hx
    · exact ⟨_, mem_setAcct.2 (Or.inl rfl), List.mem_cons_self⟩
    · by_cases hs : x.sender = tx.sender
      · refine ⟨{ a with txs := tx :: a.txs }, ?_, List.mem_cons_of_mem _ (hf.owns x hx hs)⟩
        rw [hs]; exact mem_setAcct.2 (Or.inl rfl)
      · obtain ⟨ax, hax, hxax⟩ := h.allInAcct x hx
        exact ⟨ax, mem_setAcct.2 (Or.inr ⟨hax, hs⟩), hxax⟩
  · intro e he x hx
    rcases mem_setAcct.1 he with rfl | he
    · rcases List.mem_cons.1 hx with rfl | hx
      · exact List.mem_cons_self
      · exact List.mem_cons_of_mem _ (hf.inAll x hx)
    · exact List.mem_cons_of_mem _ (h.acctInAll e he.1 x hx)

theorem delAcct_setAcct (accts : List (Nat × Acct)) (s : Nat) (a : Acct) :
    delAcct (setAcct accts s a) s = delAcct accts s := by
  unfold setAcct delAcct
  rw [List.filter_cons]
  simp [List.filter_filter]

theorem delAcct_delAcct (accts : List (Nat × Acct)) (s : Nat) : delAcct (delAcct accts s) s = delAcct accts s := by
  unfold delAcct
  simp [List.filter_filter]

theorem setAcct_setAcct (accts : List (Nat × Acct)) (s : Nat) (a b : Acct) :
    setAcct (setAcct accts s a) s b = setAcct accts s b := by
  show (s, b) :: delAcct (setAcct accts s a) s = (s, b) :: delAcct accts s
  rw [delAcct_setAcct]

theorem setAcct_delAcct (accts : List (Nat × Acct)) (s : Nat) (b : Acct) :
    setAcct (delAcct accts s) s b = setAcct accts s b := by
  show (s, b) :: delAcct (delAcct accts s) s = (s, b) :: delAcct accts s
  rw [delAcct_delAcct]

theorem findAcct_setAcct (accts : List (Nat × Acct)) (s : Nat) (a : Acct) : findAcct (setAcct accts s a) s = some a := by
  unfold findAcct setAcct
  simp

theorem findAcct_delAcct (accts : List (Nat × Acct)) (s : Nat) : findAcct (delAcct accts s) s = none := by
  unfold findAcct
  have : (delAcct accts s).find? (fun e => e.1 == s) = none := by
    rw [List.find?_eq_none]
    intro e he
    have := (mem_delAcct.1 he).2
    simpa using this
  rw [this]; rfl

/-- putting a transaction in while the list drops `old` (replacement or per-sender limit):
`remove old` followed by an insertion into a free slot -/
theorem replace_inv {cfg : Cfg} {p : Pool} (h : C14Inv cfg p) (tx old : Tx) (hid : ∀ t ∈ p.all, t.id ≠ tx.id)
    (a : Acct) (ha : findAcct p.accts tx.sender = some a)
    (hold : a.get old.nonce = some old) (hslot : old.nonce = tx.nonce ∨ a.get tx.nonce = none) :
    C14Inv cfg { all := tx :: p.all.filter (fun x => x.id != old.id),
                 accts := setAcct p.accts tx.sender
                   { txs := tx :: a.txs.filter (fun x => x.nonce != old.nonce), proc := demote a.proc old.nonce },
                 heap := tx :: p.all.filter (fun x => x.id != old.id), fault := p.fault } := by
  have hmem := findAcct_some ha
  have hai := h.acctOk _ hmem
  have holdA := (get_some hold).1
  have holdAll := h.acctInAll _ hmem old holdA
  have holdS : old.sender = tx.sender := hai.sender old holdA
  obtain ⟨a0, ha0, _, hr⟩ := remove_spec h holdAll
  have : a0 = a := by
    rw [holdS] at ha0
    have := inj_of_nodup_map _ _ h.acctsNodup _ ha0 _ hmem rfl
    exact (Prod.mk.inj this).2
  subst this
  have h2 := remove_inv h old.id
  have hlt := remove_length_lt h holdAll
  rw [hr] at h2 hlt
  rw [holdS] at h2
  simp only at h2 hlt
  -- the sender list after the removal
  let a2 : Acct := { txs := a0.txs.filter (fun x => x.nonce != old.nonce), proc := demote a0.proc old.nonce }
  have hget2 : a2.get tx.nonce = none := by
    show List.find? _ (a0.txs.filter _) = none
    rw [List.find?_eq_none]
    intro x hx
    obtain ⟨hxa, hxn⟩ := List.mem_filter.1 hx
    rcases hslot with hs | hs
    · rw [← hs]; simpa using hxn
    · have := get_none hs x hxa; simpa using this
  have hlen2 : a2.txs.length + 1 ≤ cfg.maxPerAcct := by
    have : a2.txs.length < a0.txs.length := length_filter_lt _ _ old holdA (by simp)
    have hb : a0.txs.length ≤ cfg.maxPerAcct := hai.bound
    omega
  have hid2 : ∀ t ∈ p.all.filter (fun x => x.id != old.id), t.id ≠ tx.id :=
    fun t ht => hid t (List.mem_filter.1 ht).1
  by_cases hempty : (a0.txs.filter (fun x => x.nonce != old.nonce)).isEmpty = true
  · rw [if_pos hempty] at h2
    have hnil : a0.txs.filter (fun x => x.nonce != old.nonce) = [] := by simpa using hempty
    have hproc : demote a0.proc old.nonce = [] := by
      apply List.eq_nil_iff_forall_not_mem.2
      intro n hn
      rw [mem_demote] at hn
      obtain ⟨t, ht, htn⟩ := hai.procIn n hn.1
      have : t ∈ a0.txs.filter (fun x => x.nonce != old.nonce) :=
        List.mem_filter.2 ⟨ht, by simp; omega⟩
      rw [hnil] at this; cases this
    have hfacts := acct_facts h2 tx.sender
    simp only [findAcct_delAcct, Option.getD_none] at hfacts
    have := insert_inv h2 tx hid2 (by have := h.bounded; simp only; omega) {} hfacts (by simp [Acct.get])
      (by simp; omega)
    rw [setAcct_delAcct] at this
    rw [hnil, hproc]
    exact this
  · rw [if_neg hempty] at h2
    have hfacts := acct_facts h2 tx.sender
    simp only [findAcct_setAcct, Option.getD_some] at hfacts
    have := insert_inv h2 tx hid2 (by have := h.bounded; simp only; omega) a2 hfacts hget2 hlen2
    rw [setAcct_setAcct] at this
    exact this

/-! ### `add` -/

theorem addCore_inv {cfg : Cfg} (hper : 1 ≤ cfg.maxPerAcct) {p1 : Pool} (h1 : C14Inv cfg p1) (tx : Tx)
    (hid1 : ∀ t ∈ p1.all, t.id ≠ tx.id) (hlen1 : p1.all.length + 1 ≤ cfg.maxTx) (pubOk : Bool) :
    C14Inv cfg (addCore cfg p1 tx pubOk).1 := by
  unfold addCore
  have hfacts := acct_facts h1 tx.sender
  rcases acct_add_spec cfg hper ((findAcct p1.accts tx.sender).getD {}) tx with ⟨hr, _⟩ | ⟨hg, hl, hr⟩ | ⟨old, hold, hslot, _, hr⟩
  · simp only [hr, Bool.false_eq_true, if_false]
    -- the list stays registered; a fresh list would have accepted the transaction
    cases hfa : findAcct p1.accts tx.sender with
    | none =>
      rw [hfa] at hr
      have hne : cfg.maxPerAcct ≠ 0 := by omega
      simp [Acct.add, Acct.get, hne] at hr
    | some a =>
      simp only [Option.getD_some]
      have hmem := findAcct_some hfa
      refine ⟨h1.noFault, h1.allNodup, nodup_setAcct _ _ h1.acctsNodup, ?_, ?_, ?_, h1.heapPerm, h1.bounded⟩
      · intro e he
        rcases mem_setAcct.1 he with rfl | he
        · exact h1.acctOk _ hmem
        · exact h1.acctOk e he.1
      · intro x hx
        obtain ⟨ax, hax, hxax⟩ := h1.allInAcct x hx
        by_cases hs : x.sender = tx.sender
        · rw [hs] at hax
          have := inj_of_nodup_map _ _ h1.acctsNodup _ hax _ hmem rfl
          rw [(Prod.mk.inj this).2] at hxax
          exact ⟨a, by rw [hs]; exact mem_setAcct.2 (Or.inl rfl), hxax⟩
        · exact ⟨ax, mem_setAcct.2 (Or.inr ⟨hax, hs⟩), hxax⟩
      · intro e he x hx
        rcases mem_setAcct.1 he with rfl | he
        · exact h1.acctInAll _ hmem x hx
        · exact h1.acctInAll e he.1 x hx
  · simp only [hr, if_true]
    exact insert_inv h1 tx hid1 hlen1 _ hfacts hg hl
  · simp only [hr, if_true]
    have holdA := (get_some hold).1
    cases hfa : findAcct p1.accts tx.sender with
    | none => rw [hfa] at holdA; simp at holdA
    | some a =>
      rw [hfa] at hold hslot
      simp only [Option.getD_some] at hold hslot ⊢
      exact replace_inv h1 tx old hid1 a hfa hold hslot

theorem add_inv {cfg : Cfg} (hmax : 1 ≤ cfg.maxTx) (hper : 1 ≤ cfg.maxPerAcct) {p : Pool} (h : C14Inv cfg p)
    (tx : Tx) (v : Verdict) (pubOk : Bool) (tie : Nat) : C14Inv cfg (add cfg p tx v pubOk tie).1 := by
  unfold add
  by_cases hnew : p.all.any (fun t => t.id == tx.id) = true
  · rw [if_pos hnew]; exact h
  rw [if_neg hnew]
  by_cases hent : tx.prio < cfg.minEntrance
  · rw [if_pos hent]; exact h
  rw [if_neg hent]
  by_cases hcheap : (isFull cfg p && tooCheap p.heap tx) = true
  · rw [if_pos hcheap]; exact h
  rw [if_neg hcheap]
  by_cases hv : (v == Verdict.invalid) = true
  · rw [if_pos hv]; exact h
  rw [if_neg hv]
  have hid : ∀ t ∈ p.all, t.id ≠ tx.id := by
    intro t ht hti
    apply hnew
    rw [List.any_eq_true]; exact ⟨t, ht, by simpa using hti⟩
  apply addCore_inv hper
  · split
    · exact evict_inv h tie
    · exact h
  · intro t ht
    apply hid
    split at ht
    · exact evict_all_subset p tie t ht
    · exact ht
  · split
    · rename_i hfull
      have hfull : cfg.maxTx ≤ p.all.length := by simpa [isFull] using hfull
      have hne : p.all ≠ [] := by
        intro h0; rw [h0] at hfull; simp at hfull; omega
      have := evict_length_lt h hne tie
      have := h.bounded
      omega
    · rename_i hfull
      have : ¬ cfg.maxTx ≤ p.all.length := by simpa [isFull] using hfull
      omega

end LiskVerif.TxPool
