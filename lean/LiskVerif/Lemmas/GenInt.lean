/-
Lemmas about the integer wrappers emitted by the typed translation of tools/fngen
(`LiskVerif/Gen/Fns2.lean`): `Gen.i64` (two's complement wrap of Go `int`/`int64`) is the identity on
the int64 range, and the conversions `uintN(int)` / `int(uintN)` are the identity on naturals in range.
-/
import LiskVerif.Gen.Fns2

namespace LiskVerif.Gen

theorem i64_eq {x : Int} (h1 : -9223372036854775808 ≤ x) (h2 : x < 9223372036854775808) : i64 x = x := by
  unfold i64; omega

theorem i64_ofNat {n : Nat} (h : n < 9223372036854775808) : i64 (n : Int) = (n : Int) := by
  unfold i64; omega

/-- the wrap of a value just above the range is negative (used by the counterexamples) -/
theorem i64_wrap {x : Int} (h1 : 9223372036854775808 ≤ x) (h2 : x < 18446744073709551616) :
    i64 x = x - 18446744073709551616 := by
  unfold i64; omega

theorem i64_range (x : Int) : -9223372036854775808 ≤ i64 x ∧ i64 x < 9223372036854775808 := by
  unfold i64; omega

/-- `uint64(int)` of a natural below 2^64 -/
theorem toNat_emod64 {n : Nat} (h : n < 18446744073709551616) :
    Int.toNat ((n : Int) % 18446744073709551616) = n := by omega

/-- `uint32(int)` of a natural: reduction modulo 2^32 -/
theorem toNat_emod32 (n : Nat) : Int.toNat ((n : Int) % 4294967296) = n % 4294967296 := by omega

end LiskVerif.Gen
