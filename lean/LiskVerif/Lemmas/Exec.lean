/-
Helper lemmas for the execution model (`LiskVerif.Model.Exec`): event numbering, what a piece of
module code can do to the event logger, and the correspondence between a batch of store writes
and the updates of the state tree.
-/
import LiskVerif.Model.Exec
import LiskVerif.Lemmas.DiffDB

namespace LiskVerif.Exec
open LiskVerif.DiffDB

/-! ### event numbering -/

/-- the events of the list are numbered `n, n+1, …` -/
def IdxFrom : Nat → List Logged → Prop
  | _, [] => True
  | n, e :: r => e.event.index = n ∧ IdxFrom (n + 1) r

theorem idxFrom_append (a b : List Logged) : ∀ n,
    IdxFrom n (a ++ b) ↔ IdxFrom n a ∧ IdxFrom (n + a.length) b := by
  induction a with
  | nil => intro n; simp [IdxFrom]
  | cons e r ih =>
    intro n
    simp only [List.cons_append, IdxFrom, ih, List.length_cons]
    have : n + 1 + r.length = n + (r.length + 1) := by omega
    rw [this]
    exact and_assoc.symm

theorem idxFrom_reindexFrom (l : List Logged) : ∀ n, IdxFrom n (reindexFrom n l) := by
  induction l with
  | nil => intro n; trivial
  | cons e r ih => intro n; exact ⟨rfl, ih (n + 1)⟩

theorem idxFrom_take (l : List Logged) : ∀ n k, IdxFrom n l → IdxFrom n (l.take k) := by
  induction l with
  | nil => intro n k _; simp [IdxFrom]
  | cons e r ih =>
    intro n k h
    cases k with
    | zero => simp [IdxFrom]
    | succ k => exact ⟨h.1, ih (n + 1) k h.2⟩

theorem idxFrom_get (l : List Logged) : ∀ n, IdxFrom n l →
    ∀ i (h : i < l.length), (l[i]).event.index = n + i := by
  induction l with
  | nil => intro n _ i h; simp at h
  | cons e r ih =>
    intro n hl i h
    cases i with
    | zero => simpa using hl.1
    | succ i =>
      have := ih (n + 1) hl.2 i (by simpa using h)
      simp only [List.getElem_cons_succ]
      omega

theorem reindexFrom_length (l : List Logged) : ∀ n, (reindexFrom n l).length = l.length := by
  induction l with
  | nil => intro n; rfl
  | cons e r ih => intro n; simp [reindexFrom, ih]

theorem reindexFrom_noRevert (l : List Logged) : ∀ n, ∀ e ∈ reindexFrom n l, ∃ e' ∈ l,
    e.noRevert = e'.noRevert ∧ e.event.name = e'.event.name ∧ e.event.data = e'.event.data ∧
      e.event.module = e'.event.module ∧ e.event.ntopics = e'.event.ntopics ∧
      e.event.height = e'.event.height := by
  induction l with
  | nil => intro n e h; simp [reindexFrom] at h
  | cons a r ih =>
    intro n e h
    simp only [reindexFrom, List.mem_cons] at h
    rcases h with h | h
    · exact ⟨a, List.mem_cons_self, by subst h; simp⟩
    · obtain ⟨e', he', hp⟩ := ih (n + 1) e h
      exact ⟨e', List.mem_cons_of_mem _ he', hp⟩

/-! ### the logger under `add`, `addUnrevertible` and module code -/

/-- everything but the list of events -/
def SameCfg (a b : EventLogger) : Prop :=
  a.snapshotIndex = b.snapshotIndex ∧ a.height = b.height ∧ a.hasTopic = b.hasTopic

theorem sameCfg_refl (a : EventLogger) : SameCfg a a := ⟨rfl, rfl, rfl⟩

theorem sameCfg_trans {a b c : EventLogger} (h1 : SameCfg a b) (h2 : SameCfg b c) : SameCfg a c :=
  ⟨h1.1.trans h2.1, h1.2.1.trans h2.2.1, h1.2.2.trans h2.2.2⟩

theorem add_spec {l l' : EventLogger} {m n : String} {d : Bytes} {x : Nat}
    (h : add l m n d x = some l') :
    ∃ e, l'.events = l.events ++ [{ event := e, noRevert := false }] ∧ e.index = l.events.length ∧
      e.module = m ∧ e.name = n ∧ e.data = d ∧ e.ntopics = 1 + x ∧ e.height = l.height ∧
      SameCfg l l' := by
  unfold add at h
  cases hc : createEvent l m n d x with
  | none => simp [hc] at h
  | some e =>
    simp only [hc, Option.some.injEq] at h
    subst h
    unfold createEvent at hc
    split at hc
    · cases hc
    · dsimp only at hc
      split at hc
      · simp only [Option.some.injEq] at hc
        subst hc
        exact ⟨_, rfl, rfl, rfl, rfl, rfl, rfl, rfl, rfl, rfl, rfl⟩
      · cases hc

theorem addUnrevertible_spec {l l' : EventLogger} {m n : String} {d : Bytes} {x : Nat}
    (h : addUnrevertible l m n d x = some l') :
    ∃ e, l'.events = l.events ++ [{ event := e, noRevert := true }] ∧ e.index = l.events.length ∧
      e.module = m ∧ e.name = n ∧ e.data = d ∧ e.ntopics = 1 + x ∧ e.height = l.height ∧
      SameCfg l l' := by
  unfold addUnrevertible at h
  cases hc : createEvent l m n d x with
  | none => simp [hc] at h
  | some e =>
    simp only [hc, Option.some.injEq] at h
    subst h
    unfold createEvent at hc
    split at hc
    · cases hc
    · dsimp only at hc
      split at hc
      · simp only [Option.some.injEq] at hc
        subst hc
        exact ⟨_, rfl, rfl, rfl, rfl, rfl, rfl, rfl, rfl, rfl, rfl⟩
      · cases hc

/-- the logger only grows, by events numbered consecutively -/
structure Grows (a b : EventLogger) : Prop where
  cfg : SameCfg a b
  ext : ∃ new, b.events = a.events ++ new ∧ IdxFrom a.events.length new

theorem grows_refl (a : EventLogger) : Grows a a :=
  ⟨sameCfg_refl a, [], by simp, trivial⟩

theorem grows_trans {a b c : EventLogger} (h1 : Grows a b) (h2 : Grows b c) : Grows a c := by
  obtain ⟨n1, e1, i1⟩ := h1.ext
  obtain ⟨n2, e2, i2⟩ := h2.ext
  refine ⟨sameCfg_trans h1.cfg h2.cfg, n1 ++ n2, by rw [e2, e1, List.append_assoc], ?_⟩
  rw [idxFrom_append]
  refine ⟨i1, ?_⟩
  rw [e1, List.length_append] at i2
  exact i2

theorem grows_add {l l' : EventLogger} {m n : String} {d : Bytes} {x : Nat}
    (h : add l m n d x = some l') : Grows l l' := by
  obtain ⟨e, he, hi, _, _, _, _, _, hc⟩ := add_spec h
  exact ⟨hc, [_], he, ⟨hi, trivial⟩⟩

theorem grows_addUnrevertible {l l' : EventLogger} {m n : String} {d : Bytes} {x : Nat}
    (h : addUnrevertible l m n d x = some l') : Grows l l' := by
  obtain ⟨e, he, hi, _, _, _, _, _, hc⟩ := addUnrevertible_spec h
  exact ⟨hc, [_], he, ⟨hi, trivial⟩⟩

theorem runItem_grows (s : SecSt) (it : Item) : Grows s.lg (runItem s it).1.lg := by
  cases it with
  | set k v => exact grows_refl _
  | del k => exact grows_refl _
  | get k =>
    simp only [runItem]
    split
    · next lg' h => exact grows_add h
    · exact grows_refl _
  | chk k v => exact grows_refl _
  | ev unrev n d =>
    simp only [runItem]
    split
    · next lg' h =>
      cases unrev
      · simp only [Bool.false_eq_true, if_false] at h; exact grows_add h
      · simp only [if_true] at h; exact grows_addUnrevertible h
    · exact grows_refl _
  | badEv =>
    simp only [runItem]
    split
    · next lg' h => exact grows_add h
    · exact grows_refl _
  | push => exact grows_refl _
  | pop =>
    simp only [runItem]
    split
    · exact grows_refl _
    · exact grows_refl _
  | fail => exact grows_refl _

theorem runSection_grows (items : List Item) : ∀ s, Grows s.lg (runSection s items).1.lg := by
  induction items with
  | nil => intro s; exact grows_refl _
  | cons it r ih =>
    intro s
    simp only [runSection]
    split
    · exact grows_trans (runItem_grows s it) (ih _)
    · exact runItem_grows s it

/-! ### batches, the store and the state tree -/

/-- `getTreeKey` never maps two state keys to the same tree key -/
def TreeKeyInj (H : Bytes → Bytes) : Prop := ∀ a b, treeKey H a = treeKey H b → a = b

/-- it follows from collision freedom of the hash for keys that carry the 6-byte store prefix -/
theorem treeKey_inj_of_len (H : Bytes → Bytes) (hH : ∀ a b, H a = H b → a = b) (a b : Bytes)
    (ha : 6 ≤ a.length) (hb : 6 ≤ b.length) (h : treeKey H a = treeKey H b) : a = b := by
  unfold treeKey at h
  have hl : (a.take 6).length = (b.take 6).length := by
    simp only [List.length_take]; omega
  have := List.append_inj h hl
  have hd := hH _ _ this.2
  rw [← List.take_append_drop 6 a, ← List.take_append_drop 6 b, this.1, hd]

/-- the tree holds exactly the image of the state: one leaf `(treeKey k, H v)` per entry -/
def LeafInv (H : Bytes → Bytes) (s : Store) (l : Leaves) : Prop :=
  ∀ tk hv, slookup l tk = some hv ↔ ∃ k v, slookup s k = some v ∧ treeKey H k = tk ∧ H v = hv

theorem leafInv_empty (H : Bytes → Bytes) : LeafInv H [] [] := by
  intro tk hv; simp [slookup]

theorem leafInv_applyWrite {H : Bytes → Bytes} (hTK : TreeKeyInj H) {s : Store} {l : Leaves}
    (h : LeafInv H s l) (w : Write) : LeafInv H (applyWrite s w) (applyLeaf H l w) := by
  obtain ⟨k0, o⟩ := w
  intro tk hv
  cases o with
  | some v0 =>
    simp only [applyWrite, applyLeaf, slookup_sset]
    by_cases htk : treeKey H k0 = tk
    · subst htk
      simp only [if_true, Option.some.injEq]
      constructor
      · intro hh; exact ⟨k0, v0, by simp, rfl, hh⟩
      · rintro ⟨k, v, h1, h2, h3⟩
        have := hTK _ _ h2
        subst this
        simp at h1
        rw [h1]; exact h3
    · simp only [htk, if_false]
      rw [h tk hv]
      constructor
      · rintro ⟨k, v, h1, h2, h3⟩
        refine ⟨k, v, ?_, h2, h3⟩
        have : k0 ≠ k := by intro hk; subst hk; exact htk h2
        simp [this, h1]
      · rintro ⟨k, v, h1, h2, h3⟩
        refine ⟨k, v, ?_, h2, h3⟩
        have : k0 ≠ k := by intro hk; subst hk; exact htk h2
        simpa [this] using h1
  | none =>
    simp only [applyWrite, applyLeaf, slookup_sdel]
    by_cases htk : treeKey H k0 = tk
    · subst htk
      simp only [if_true]
      constructor
      · intro hh; cases hh
      · rintro ⟨k, v, h1, h2, _⟩
        have := hTK _ _ h2
        subst this
        simp at h1
    · simp only [htk, if_false]
      rw [h tk hv]
      constructor
      · rintro ⟨k, v, h1, h2, h3⟩
        refine ⟨k, v, ?_, h2, h3⟩
        have : k0 ≠ k := by intro hk; subst hk; exact htk h2
        simp [this, h1]
      · rintro ⟨k, v, h1, h2, h3⟩
        refine ⟨k, v, ?_, h2, h3⟩
        have : k0 ≠ k := by intro hk; subst hk; exact htk h2
        simpa [this] using h1

theorem leafInv_apply {H : Bytes → Bytes} (hTK : TreeKeyInj H) (ws : List Write) :
    ∀ {s : Store} {l : Leaves}, LeafInv H s l →
      LeafInv H (applyStore s ws) (applyLeaves H l ws) := by
  induction ws with
  | nil => intro s l h; exact h
  | cons w r ih =>
    intro s l h
    exact ih (leafInv_applyWrite hTK h w)

private theorem option_ext_iff {α : Type} {a b : Option α} (h : ∀ v, a = some v ↔ b = some v) :
    a = b := by
  cases a with
  | none =>
    cases b with
    | none => rfl
    | some y => exact ((h y).mpr rfl)
  | some x => exact ((h x).mp rfl).symm

/-- two trees that hold the image of the same state are the same map -/
theorem leafInv_unique {H : Bytes → Bytes} {s s' : Store} {l l' : Leaves}
    (h : LeafInv H s l) (h' : LeafInv H s' l') (hs : ∀ k, slookup s k = slookup s' k) :
    ∀ tk, slookup l tk = slookup l' tk := by
  intro tk
  apply option_ext_iff
  intro hv
  rw [h tk hv, h' tk hv]
  constructor
  · rintro ⟨k, v, h1, h2⟩; exact ⟨k, v, by rw [← hs]; exact h1, h2⟩
  · rintro ⟨k, v, h1, h2⟩; exact ⟨k, v, by rw [hs]; exact h1, h2⟩

/-- the specification tree `leavesOf` satisfies the invariant -/
theorem leafInv_leavesOf {H : Bytes → Bytes} (hTK : TreeKeyInj H) (s : Store) (hnd : NoDupKeys s) :
    LeafInv H s (leavesOf H s) := by
  induction s with
  | nil => exact leafInv_empty H
  | cons e r ih =>
    obtain ⟨k0, v0⟩ := e
    unfold NoDupKeys at hnd
    simp only [List.map_cons, List.nodup_cons] at hnd
    have ihr := ih hnd.2
    intro tk hv
    simp only [leavesOf, List.map_cons, slookup]
    by_cases htk : treeKey H k0 = tk
    · subst htk
      simp only [if_true, Option.some.injEq]
      constructor
      · intro hh; exact ⟨k0, v0, by simp, rfl, hh⟩
      · rintro ⟨k, v, h1, h2, h3⟩
        have := hTK _ _ h2
        subst this
        simp at h1
        rw [h1]; exact h3
    · simp only [htk, if_false]
      have := ihr tk hv
      simp only [leavesOf] at this
      rw [this]
      constructor
      · rintro ⟨k, v, h1, h2, h3⟩
        refine ⟨k, v, ?_, h2, h3⟩
        have : k0 ≠ k := by intro hk; subst hk; exact htk h2
        simp [this, h1]
      · rintro ⟨k, v, h1, h2, h3⟩
        refine ⟨k, v, ?_, h2, h3⟩
        have : k0 ≠ k := by intro hk; subst hk; exact htk h2
        simpa [this] using h1

/-- the pebble batch of a commit is what `cacheDB.commit` writes -/
theorem applyStore_batchOfCache (c : Cache) : ∀ (s : Store) (d : Diff),
    (commitCache c s d).1 = applyStore s (batchOfCache c) := by
  induction c with
  | nil => intro s d; rfl
  | cons e r ih =>
    intro s d
    obtain ⟨k, cv⟩ := e
    unfold commitCache batchOfCache
    cases hi : cv.init with
    | none => simp only [applyStore, List.foldl_cons, applyWrite]; exact ih _ _
    | some i =>
      simp only
      cases hd : cv.deleted with
      | true => simp only [if_true, applyStore, List.foldl_cons, applyWrite]; exact ih _ _
      | false =>
        cases hdi : cv.dirty with
        | true =>
          simp only [Bool.false_eq_true, if_false, if_true, applyStore, List.foldl_cons, applyWrite]
          exact ih _ _
        | false => simp only [Bool.false_eq_true, if_false]; exact ih _ _

/-- the pebble batch of a revert is `RevertDiff` -/
theorem applyStore_batchOfDiff (s : Store) (d : Diff) :
    applyStore s (batchOfDiff d) = revertDiff s d := by
  unfold applyStore batchOfDiff revertDiff
  simp only [List.foldl_append, List.foldl_map, applyWrite]

theorem nodup_applyStore (ws : List Write) : ∀ (s : Store), NoDupKeys s → NoDupKeys (applyStore s ws) := by
  induction ws with
  | nil => intro s h; exact h
  | cons w r ih =>
    intro s h
    apply ih
    obtain ⟨k, o⟩ := w
    cases o with
    | some v => exact nodup_put s k v h
    | none => exact nodup_filter s _ h

theorem findDiff_putDiff (l : List (Nat × Diff)) (h : Nat) (d : Diff) :
    findDiff (putDiff l h d) h = some d := by
  simp [putDiff, findDiff]

end LiskVerif.Exec
