/-
  Lemmas for C13 (Model/Crash.lean):
  1. soundness of the static criterion `outs` w.r.t. the monitor on every path (`outs_sound`);
  2. a trace accepted by the monitor drives the database-history machine through `pre` … `pre` then
     `pre ++ [all staged ops]` (`mon_mach`, `atomic_of_accept`);
  3. the abstract node database: block commit / removal batches preserve `NodeInv`, and the
     restart finds the tip the consensus store is at.
-/
import LiskVerif.Model.Crash

namespace LiskVerif.Crash

/-! ## 1. Static criterion ⇒ monitor accepts every path -/

theorem mem_dedup {x : Out × St} : ∀ {l : Outs}, x ∈ dedup l ↔ x ∈ l
  | [] => by simp [dedup]
  | y :: l => by
    unfold dedup
    by_cases h : y ∈ l
    · rw [if_pos h, mem_dedup (l := l)]
      constructor
      · intro hx; exact List.mem_cons_of_mem _ hx
      · intro hx
        cases hx with
        | head => exact h
        | tail _ hx => exact hx
    · rw [if_neg h]
      constructor
      · intro hx
        cases hx with
        | head => exact List.mem_cons_self
        | tail _ hx => exact List.mem_cons_of_mem _ (mem_dedup.mp hx)
      · intro hx
        cases hx with
        | head => exact List.mem_cons_self
        | tail _ hx => exact List.mem_cons_of_mem _ (mem_dedup.mpr hx)

theorem bindG_mem {f : Out × St → Option Outs} :
    ∀ {l R : Outs}, bindG f l = some R → ∀ p, p ∈ l → ∃ A, f p = some A ∧ ∀ q, q ∈ A → q ∈ R
  | [], _, _, p, hp => by cases hp
  | x :: r, R, h, p, hp => by
    unfold bindG at h
    cases hfx : f x with
    | none => rw [hfx] at h; simp at h
    | some a =>
      cases hr : bindG f r with
      | none => rw [hfx, hr] at h; simp at h
      | some b =>
        rw [hfx, hr] at h
        simp only [Option.some.injEq] at h
        subst h
        cases hp with
        | head =>
          exact ⟨a, hfx, fun q hq => mem_dedup.mpr (List.mem_append_left _ hq)⟩
        | tail _ hp =>
          obtain ⟨A, hA, hsub⟩ := bindG_mem hr p hp
          exact ⟨A, hA, fun q hq => mem_dedup.mpr (List.mem_append_right _ (hsub q hq))⟩

theorem runMon_append (st : St) (t1 t2 : List Act) :
    runMon st (t1 ++ t2) = (runMon st t1).bind fun st' => runMon st' t2 := by
  induction t1 generalizing st with
  | nil => simp [runMon]
  | cons a l ih =>
    simp only [List.cons_append, runMon]
    cases stepAct st a with
    | none => simp
    | some st' => simp [ih]

theorem runMon_append_some {st st1 st2 : St} {t1 t2 : List Act}
    (h1 : runMon st t1 = some st1) (h2 : runMon st1 t2 = some st2) : runMon st (t1 ++ t2) = some st2 := by
  rw [runMon_append, h1]; simpa using h2

theorem runMon_append_split {st st2 : St} {t1 t2 : List Act} (h : runMon st (t1 ++ t2) = some st2) :
    ∃ st1, runMon st t1 = some st1 ∧ runMon st1 t2 = some st2 := by
  rw [runMon_append] at h
  cases h1 : runMon st t1 with
  | none => rw [h1] at h; simp at h
  | some st1 => rw [h1] at h; exact ⟨st1, rfl, by simpa using h⟩

/-- statement of soundness for one skeleton -/
def Sound (s : Stmt) : Prop :=
  ∀ tr o, Exec s tr o → ∀ st O, outs s st = some O → ∃ st', runMon st tr = some st' ∧ (o, st') ∈ O

private theorem mem_heads {R : List St} {x : St} (h : x ∈ R) : (Out.fall, x) ∈ heads R :=
  List.mem_map.mpr ⟨x, h, rfl⟩

private theorem loop_sound (s : Stmt) (ih : Sound s) (R : List St) (A : Outs)
    (hA : bindO (fun x => outs s x) (heads R) = some A)
    (hcl : ∀ p, p ∈ A → ∀ x, backOf p = some x → x ∈ R) :
    ∀ l tr o, Exec l tr o → l = .loop s → ∀ x, x ∈ R →
      ∃ st', runMon x tr = some st' ∧ (o, st') ∈ heads R ++ A.filterMap exitOf := by
  have body : ∀ x, x ∈ R → ∃ Ax, outs s x = some Ax ∧ ∀ q, q ∈ Ax → q ∈ A := by
    intro x hx
    obtain ⟨Ax, hAx, hsub⟩ := bindG_mem hA _ (mem_heads hx)
    simp only [if_true] at hAx
    exact ⟨Ax, hAx, hsub⟩
  intro l tr o hex
  induction hex with
  | skip | act | ret | retErr | brk | cont => intro h; cases h
  | seqFall | seqStop | choiceL | choiceR | scope | tryErr | tryOk => intro h; cases h
  | loopDone =>
    intro _ x hx
    exact ⟨x, rfl, List.mem_append_left _ (mem_heads hx)⟩
  | @loopIter s' t1 t2 o o1 h1 ho1 _ _ ih2 =>
    intro h x hx
    cases h
    obtain ⟨Ax, hAx, hsub⟩ := body x hx
    obtain ⟨x1, hr1, hm1⟩ := ih t1 o1 h1 x Ax hAx
    have hx1 : x1 ∈ R := by
      apply hcl _ (hsub _ hm1)
      cases ho1 with
      | inl h => subst h; rfl
      | inr h => subst h; rfl
    obtain ⟨st', hr2, hm2⟩ := ih2 rfl x1 hx1
    exact ⟨st', runMon_append_some hr1 hr2, hm2⟩
  | @loopBrk s' t1 h1 _ =>
    intro h x hx
    cases h
    obtain ⟨Ax, hAx, hsub⟩ := body x hx
    obtain ⟨x1, hr1, hm1⟩ := ih t1 .brk h1 x Ax hAx
    refine ⟨x1, hr1, List.mem_append_right _ (List.mem_filterMap.mpr ⟨_, hsub _ hm1, rfl⟩)⟩
  | @loopStop s' t1 o h1 ho _ =>
    intro h x hx
    cases h
    obtain ⟨Ax, hAx, hsub⟩ := body x hx
    obtain ⟨x1, hr1, hm1⟩ := ih t1 o h1 x Ax hAx
    refine ⟨x1, hr1, List.mem_append_right _ (List.mem_filterMap.mpr ⟨_, hsub _ hm1, ?_⟩)⟩
    cases ho with
    | inl h => subst h; rfl
    | inr h => subst h; rfl

theorem outs_sound : ∀ s : Stmt, Sound s := by
  intro s
  induction s with
  | skip =>
    intro tr o hex st O hO
    cases hex
    simp only [outs, Option.some.injEq] at hO
    subst hO
    exact ⟨st, rfl, List.mem_cons_self⟩
  | act a =>
    intro tr o hex st O hO
    cases hex
    simp only [outs] at hO
    cases hs : stepAct st a with
    | none => rw [hs] at hO; simp at hO
    | some st' =>
      rw [hs] at hO
      simp only [Option.some.injEq] at hO
      subst hO
      exact ⟨st', by simp [runMon, hs], List.mem_cons_self⟩
  | seq s t ihs iht =>
    intro tr o hex st O hO
    simp only [outs] at hO
    cases hl : outs s st with
    | none => rw [hl] at hO; simp at hO
    | some l =>
      rw [hl] at hO
      cases hex with
      | @seqFall _ _ t1 t2 _ h1 h2 =>
        obtain ⟨st1, hr1, hm1⟩ := ihs t1 .fall h1 st l hl
        obtain ⟨A, hA, hsub⟩ := bindG_mem hO _ hm1
        simp only [if_true] at hA
        obtain ⟨st2, hr2, hm2⟩ := iht t2 o h2 st1 A hA
        exact ⟨st2, runMon_append_some hr1 hr2, hsub _ hm2⟩
      | seqStop h1 hne =>
        obtain ⟨st1, hr1, hm1⟩ := ihs tr o h1 st l hl
        obtain ⟨A, hA, hsub⟩ := bindG_mem hO _ hm1
        simp only [if_neg hne, Option.some.injEq] at hA
        subst hA
        exact ⟨st1, hr1, hsub _ List.mem_cons_self⟩
  | choice s t ihs iht =>
    intro tr o hex st O hO
    simp only [outs] at hO
    cases ha : outs s st with
    | none => rw [ha] at hO; simp at hO
    | some a =>
      cases hb : outs t st with
      | none => rw [ha, hb] at hO; simp at hO
      | some b =>
        rw [ha, hb] at hO
        simp only [Option.some.injEq] at hO
        subst hO
        cases hex with
        | choiceL h =>
          obtain ⟨st', hr, hm⟩ := ihs tr o h st a ha
          exact ⟨st', hr, mem_dedup.mpr (List.mem_append_left _ hm)⟩
        | choiceR h =>
          obtain ⟨st', hr, hm⟩ := iht tr o h st b hb
          exact ⟨st', hr, mem_dedup.mpr (List.mem_append_right _ hm)⟩
  | loop s ih =>
    intro tr o hex st O hO
    simp only [outs] at hO
    generalize hR : reach (fun x => outs s x) 4 [st] = R at hO
    cases hA : bindO (fun x => outs s x) (heads R) with
    | none => rw [hA] at hO; simp at hO
    | some A =>
      rw [hA] at hO
      simp only at hO
      split at hO
      · rename_i hc
        simp only [Option.some.injEq] at hO
        subst hO
        obtain ⟨st', hr, hm⟩ := loop_sound s ih R A hA hc.2 _ tr o hex rfl st hc.1
        exact ⟨st', hr, mem_dedup.mpr hm⟩
      · simp at hO
  | scope s ih =>
    intro tr o hex st O hO
    simp only [outs] at hO
    cases hl : outs s st with
    | none => rw [hl] at hO; simp at hO
    | some l =>
      rw [hl] at hO
      simp only [Option.some.injEq] at hO
      subst hO
      cases hex with
      | @scope _ _ o' h =>
        obtain ⟨st', hr, hm⟩ := ih tr o' h st l hl
        exact ⟨st', hr, mem_dedup.mpr (List.mem_map.mpr ⟨_, hm, rfl⟩)⟩
  | call f args =>
    intro tr o hex
    cases hex
  | tryCall c a b ihc iha ihb =>
    intro tr o hex st O hO
    simp only [outs] at hO
    cases hl : outs c st with
    | none => rw [hl] at hO; simp at hO
    | some l =>
      rw [hl] at hO
      cases hex with
      | @tryErr _ _ _ t1 t2 _ h1 h2 =>
        obtain ⟨st1, hr1, hm1⟩ := ihc t1 .err h1 st l hl
        obtain ⟨A, hA, hsub⟩ := bindG_mem hO _ hm1
        simp only [if_true] at hA
        obtain ⟨st2, hr2, hm2⟩ := iha t2 o h2 st1 A hA
        exact ⟨st2, runMon_append_some hr1 hr2, hsub _ hm2⟩
      | @tryOk _ _ _ t1 t2 _ o1 h1 hne h2 =>
        obtain ⟨st1, hr1, hm1⟩ := ihc t1 o1 h1 st l hl
        obtain ⟨A, hA, hsub⟩ := bindG_mem hO _ hm1
        simp only [if_neg hne] at hA
        obtain ⟨st2, hr2, hm2⟩ := ihb t2 o h2 st1 A hA
        exact ⟨st2, runMon_append_some hr1 hr2, hsub _ hm2⟩
  | ret =>
    intro tr o hex st O hO
    cases hex
    simp only [outs, Option.some.injEq] at hO
    subst hO
    exact ⟨st, rfl, List.mem_cons_self⟩
  | retErr =>
    intro tr o hex st O hO
    cases hex
    simp only [outs, Option.some.injEq] at hO
    subst hO
    exact ⟨st, rfl, List.mem_cons_self⟩
  | brk =>
    intro tr o hex st O hO
    cases hex
    simp only [outs, Option.some.injEq] at hO
    subst hO
    exact ⟨st, rfl, List.mem_cons_self⟩
  | cont =>
    intro tr o hex st O hO
    cases hex
    simp only [outs, Option.some.injEq] at hO
    subst hO
    exact ⟨st, rfl, List.mem_cons_self⟩

/-- every path of a skeleton that satisfies the criterion is accepted by the monitor and ends well -/
theorem accept_of_singleWriteFrom {s : Stmt} {st0 : St} (hs : singleWriteFrom st0 s = true)
    {tr : List Act} {o : Out} (hex : Exec s tr o) :
    ∃ st', runMon st0 tr = some st' ∧ endOk (o, st') = true := by
  unfold singleWriteFrom at hs
  cases hO : outs s st0 with
  | none => rw [hO] at hs; simp at hs
  | some O =>
    rw [hO] at hs
    obtain ⟨st', hr, hm⟩ := outs_sound s tr o hex st0 O hO
    exact ⟨st', hr, List.all_eq_true.mp hs _ hm⟩

/-! ## 2. Monitor-accepted traces on the database-history machine -/

section Machine
variable {κ ν : Type}

theorem stagedOps_append (p q : List (Ev κ ν)) : stagedOps (p ++ q) = stagedOps p ++ stagedOps q := by
  induction p with
  | nil => rfl
  | cons e l ih => cases e <;> simp [stagedOps, ih]

theorem run_append (m : Mach κ ν) (p q : List (Ev κ ν)) : m.run (p ++ q) = (m.run p).run q := by
  simp [Mach.run, List.foldl_append]

/-- relation between the monitor state and the machine: `acc` = operations staged so far -/
def Rel (h0 : List (List (Op κ ν))) (st : St) (m : Mach κ ν) (acc : List (Op κ ν)) : Prop :=
  (st.written = true → m.hist = h0 ++ [acc]) ∧
  (st.written = false → m.hist = h0 ∧ (∀ b, st.batch = some b → m.pendOf b = acc) ∧ (st.batch = none → acc = []))

theorem pendOf_cons_self (m : Mach κ ν) (b : String) (l : List (Op κ ν)) :
    ({ m with pend := (b, l) :: m.pend } : Mach κ ν).pendOf b = l := by
  simp [Mach.pendOf, List.lookup]

theorem stepAct_aux {st st' : St} {a : Act} (ha : a.isAux = true) (hs : stepAct st a = some st') :
    st' = st := by
  cases a with
  | cacheUpdate =>
    simp only [stepAct] at hs
    split at hs
    · exact (Option.some.inj hs).symm
    · cases hs
  | publish =>
    simp only [stepAct] at hs
    split at hs
    · exact (Option.some.inj hs).symm
    · cases hs
  | abiCommit => simp only [stepAct] at hs; exact (Option.some.inj hs).symm
  | abiRevert => simp only [stepAct] at hs; exact (Option.some.inj hs).symm
  | netPublish => simp only [stepAct] at hs; exact (Option.some.inj hs).symm
  | newBatch _ => simp [Act.isAux] at ha
  | batchSet _ => simp [Act.isAux] at ha
  | batchDel _ => simp [Act.isAux] at ha
  | write _ => simp [Act.isAux] at ha
  | directSet => simp [Act.isAux] at ha
  | directDel => simp [Act.isAux] at ha
  | unknown _ => simp [Act.isAux] at ha

theorem other_step {st st' : St} {a : Act} (hs : stepAct st (Ev.other a : Ev κ ν).abs = some st') :
    st' = st := by
  simp only [Ev.abs] at hs
  by_cases ha : a.isAux = true
  · rw [if_pos ha] at hs; exact stepAct_aux ha hs
  · rw [if_neg ha] at hs; simp [stepAct] at hs

private theorem rel_step (h0 : List (List (Op κ ν))) (e : Ev κ ν) (st st' : St) (m : Mach κ ν)
    (acc : List (Op κ ν)) (hs : stepAct st e.abs = some st') (hr : Rel h0 st m acc) :
    Rel h0 st' (m.step e) (acc ++ stagedOps [e]) := by
  obtain ⟨hw, hnw⟩ := hr
  cases e with
  | newBatch b =>
    simp only [Ev.abs, stepAct] at hs
    split at hs
    · rename_i hc
      simp only [Option.some.injEq] at hs
      subst hs
      obtain ⟨_, hacc0⟩ := (hnw hc.2).2
      refine ⟨fun h => by simp [hc.2] at h, fun _ => ⟨(hnw hc.2).1, ?_, ?_⟩⟩
      · intro b' hb'
        simp only [Option.some.injEq] at hb'
        subst hb'
        simp only [stagedOps, List.append_nil, Mach.step]
        rw [pendOf_cons_self]
        exact (hacc0 hc.1).symm
      · intro h; simp at h
    · simp at hs
  | batchOp b op =>
    have key : st.batch = some b ∧ st.written = false →
        Rel h0 { st with staged := true } (m.step (.batchOp b op)) (acc ++ stagedOps [Ev.batchOp b op]) := by
      intro hc
      refine ⟨fun h => by simp [hc.2] at h, fun _ => ⟨(hnw hc.2).1, ?_, ?_⟩⟩
      · intro b' hb'
        have : b' = b := by
          have := hc.1
          simp only at hb'
          rw [this] at hb'
          exact (Option.some.inj hb').symm
        subst this
        simp only [stagedOps, Mach.step]
        rw [pendOf_cons_self, (hnw hc.2).2.1 _ hc.1]
      · intro h
        simp only at h
        rw [hc.1] at h
        cases h
    cases op with
    | set k v =>
      simp only [Ev.abs, stepAct] at hs
      split at hs
      · rename_i hc
        simp only [Option.some.injEq] at hs
        subst hs
        exact key hc
      · simp at hs
    | del k =>
      simp only [Ev.abs, stepAct] at hs
      split at hs
      · rename_i hc
        simp only [Option.some.injEq] at hs
        subst hs
        exact key hc
      · simp at hs
  | write b =>
    simp only [Ev.abs, stepAct] at hs
    split at hs
    · rename_i hc
      simp only [Option.some.injEq] at hs
      subst hs
      refine ⟨fun _ => ?_, fun h => by simp at h⟩
      simp only [stagedOps, List.append_nil, Mach.step]
      rw [(hnw hc.2).1, (hnw hc.2).2.1 _ hc.1]
    · simp at hs
  | direct op =>
    cases op <;> simp [Ev.abs, stepAct] at hs
  | other a =>
    have hst : st' = st := other_step hs
    subst hst
    have hrel : Rel h0 st' m acc := ⟨hw, hnw⟩
    simpa [stagedOps, Mach.step] using hrel

theorem mon_mach (h0 : List (List (Op κ ν))) :
    ∀ (evs : List (Ev κ ν)) (st st' : St) (m : Mach κ ν) (acc : List (Op κ ν)),
      runMon st (evs.map Ev.abs) = some st' → Rel h0 st m acc →
      Rel h0 st' (m.run evs) (acc ++ stagedOps evs)
  | [], st, st', m, acc, h, hr => by
    simp only [List.map_nil, runMon, Option.some.injEq] at h
    subst h
    simpa [stagedOps, Mach.run] using hr
  | e :: l, st, st', m, acc, h, hr => by
    simp only [List.map_cons, runMon] at h
    cases hs : stepAct st e.abs with
    | none => rw [hs] at h; simp at h
    | some st1 =>
      rw [hs] at h
      have h1 := rel_step h0 e st st1 m acc hs hr
      have h2 := mon_mach h0 l st1 st' (m.step e) _ h h1
      have e1 : stagedOps (e :: l) = stagedOps [e] ++ stagedOps l := stagedOps_append [e] l
      rw [e1, ← List.append_assoc]
      simpa [Mach.run] using h2

/-- once the batch is written the monitor accepts no further staging -/
theorem no_staging_after_write :
    ∀ (evs : List (Ev κ ν)) (st st' : St), st.written = true →
      runMon st (evs.map Ev.abs) = some st' → stagedOps evs = [] ∧ st'.written = true
  | [], st, st', hw, h => by
    simp only [List.map_nil, runMon, Option.some.injEq] at h
    subst h
    exact ⟨rfl, hw⟩
  | e :: l, st, st', hw, h => by
    simp only [List.map_cons, runMon] at h
    cases hs : stepAct st e.abs with
    | none => rw [hs] at h; simp at h
    | some st1 =>
      rw [hs] at h
      cases e with
      | newBatch b => simp [Ev.abs, stepAct, hw] at hs
      | batchOp b op => cases op <;> simp [Ev.abs, stepAct, hw] at hs
      | write b => simp [Ev.abs, stepAct, hw] at hs
      | direct op => cases op <;> simp [Ev.abs, stepAct] at hs
      | other a =>
        have hst : st1 = st := other_step hs
        subst hst
        exact no_staging_after_write l st1 st' hw h

/-- a run that never staged anything ends with `staged = false` only if no operation was staged -/
theorem staged_of_ops :
    ∀ (evs : List (Ev κ ν)) (st st' : St),
      runMon st (evs.map Ev.abs) = some st' → st'.staged = false → stagedOps evs = [] ∧ st.staged = false
  | [], st, st', h, hf => by
    simp only [List.map_nil, runMon, Option.some.injEq] at h
    subst h
    exact ⟨rfl, hf⟩
  | e :: l, st, st', h, hf => by
    simp only [List.map_cons, runMon] at h
    cases hs : stepAct st e.abs with
    | none => rw [hs] at h; simp at h
    | some st1 =>
      rw [hs] at h
      obtain ⟨hl, h1⟩ := staged_of_ops l st1 st' h hf
      cases e with
      | newBatch b =>
        simp only [Ev.abs, stepAct] at hs
        split at hs
        · simp only [Option.some.injEq] at hs
          subst hs
          exact ⟨by simpa [stagedOps] using hl, h1⟩
        · simp at hs
      | batchOp b op =>
        exfalso
        cases op <;>
        · simp only [Ev.abs, stepAct] at hs
          split at hs
          · simp only [Option.some.injEq] at hs
            subst hs
            simp at h1
          · simp at hs
      | write b =>
        simp only [Ev.abs, stepAct] at hs
        split at hs
        · simp only [Option.some.injEq] at hs
          subst hs
          exact ⟨by simpa [stagedOps] using hl, h1⟩
        · simp at hs
      | direct op => cases op <;> simp [Ev.abs, stepAct] at hs
      | other a =>
        have hst : st1 = st := other_step hs
        subst hst
        exact ⟨by simpa [stagedOps] using hl, h1⟩

/-- initial relation: nothing staged, the step's batch (if handed in by the caller) is empty -/
theorem rel_init (m0 : Mach κ ν) (bo : Option String) (hfresh : ∀ b, bo = some b → m0.pendOf b = []) :
    Rel m0.hist ⟨bo, false, false⟩ m0 [] :=
  ⟨fun h => by simp at h, fun _ => ⟨rfl, hfresh, fun _ => rfl⟩⟩

/-- **Atomicity of an accepted trace.** At every crash point (prefix of the run) the durable
    history is the old one or the old one plus ONE batch holding every operation staged in the
    whole step. -/
theorem atomic_of_accept (evs : List (Ev κ ν)) (bo : Option String) (st' : St)
    (hacc : runMon ⟨bo, false, false⟩ (evs.map Ev.abs) = some st')
    (m0 : Mach κ ν) (hfresh : ∀ b, bo = some b → m0.pendOf b = []) :
    ∀ p, p <+: evs →
      (m0.run p).hist = m0.hist ∨ (m0.run p).hist = m0.hist ++ [stagedOps evs] := by
  intro p hp
  obtain ⟨q, rfl⟩ := hp
  rw [List.map_append] at hacc
  obtain ⟨st1, h1, h2⟩ := runMon_append_split hacc
  have hr := mon_mach m0.hist p _ st1 m0 [] h1 (rel_init m0 bo hfresh)
  simp only [List.nil_append] at hr
  cases hw : st1.written with
  | false => exact Or.inl (hr.2 hw).1
  | true =>
    right
    rw [hr.1 hw, stagedOps_append, (no_staging_after_write q st1 st' hw h2).1, List.append_nil]

/-- the end of an accepted trace: written ⇒ post, not written ⇒ pre -/
theorem final_of_accept (evs : List (Ev κ ν)) (bo : Option String) (st' : St)
    (hacc : runMon ⟨bo, false, false⟩ (evs.map Ev.abs) = some st')
    (m0 : Mach κ ν) (hfresh : ∀ b, bo = some b → m0.pendOf b = []) :
    (st'.written = true → (m0.run evs).hist = m0.hist ++ [stagedOps evs]) ∧
    (st'.written = false → (m0.run evs).hist = m0.hist) := by
  have hr := mon_mach m0.hist evs _ st' m0 [] hacc (rel_init m0 bo hfresh)
  simp only [List.nil_append] at hr
  exact ⟨hr.1, fun h => (hr.2 h).1⟩

end Machine

/-! ## 3. Abstract node database -/

theorem applyBatch_append {κ ν} [DecidableEq κ] (db : DBOf κ ν) (a b : List (Op κ ν)) :
    applyBatch db (a ++ b) = applyBatch (applyBatch db a) b := by
  simp [applyBatch, List.foldl_append]

theorem dbOf_append_one {κ ν} [DecidableEq κ] (db0 : DBOf κ ν) (h : List (List (Op κ ν))) (b : List (Op κ ν)) :
    dbOf db0 (h ++ [b]) = applyBatch (dbOf db0 h) b := by
  simp [dbOf, List.foldl_append]

/-- deleting the pruned diff keys -/
theorem prune_lookup (db : NodeDB) (pruned : List Nat) (k : Key) :
    applyBatch db (pruned.map fun h => Op.del (Key.diff h)) k =
      match k with
      | .diff h => if h ∈ pruned then none else db (.diff h)
      | k => db k := by
  induction pruned generalizing db with
  | nil => cases k <;> simp [applyBatch]
  | cons x l ih =>
    simp only [List.map_cons, applyBatch, List.foldl_cons]
    have := ih (applyOp db (Op.del (Key.diff x)))
    simp only [applyBatch] at this
    rw [this]
    cases k with
    | diff h =>
      simp only [applyOp, List.mem_cons]
      by_cases hx : h = x
      · subst hx; simp
      · by_cases hl : h ∈ l
        · simp [hl]
        · simp [hl, hx]
    | index h => simp [applyOp]
    | header i => simp [applyOp]
    | bftTip => simp [applyOp]
    | fin => simp [applyOp]

theorem add_lookup (db : NodeDB) (tip id newFin : Nat) (pruned : List Nat) (k : Key) :
    applyBatch db (addBatch tip id newFin pruned) k =
      match k with
      | .bftTip => some (.num (tip + 1))
      | .fin => some (.num newFin)
      | .index h => if h = tip + 1 then some (.id id) else db (.index h)
      | .header i => if i = id then some (.hdr (tip + 1)) else db (.header i)
      | .diff h => if h ∈ pruned then none else if h = tip + 1 then some .blob else db (.diff h) := by
  unfold addBatch
  rw [applyBatch_append, prune_lookup]
  cases k <;> simp [applyBatch, applyOp]

theorem remove_lookup (db : NodeDB) (tip id : Nat) (k : Key) :
    applyBatch db (removeBatch tip id) k =
      match k with
      | .bftTip => some (.num (tip - 1))
      | .fin => db .fin
      | .index h => if h = tip then none else db (.index h)
      | .header i => if i = id then none else db (.header i)
      | .diff h => if h = tip then none else db (.diff h) := by
  unfold removeBatch
  cases k <;> simp [applyBatch, applyOp]

/-- block commit preserves the restart invariant -/
theorem add_preserves {db : NodeDB} {tip f id newFin : Nat} {pruned : List Nat}
    (hinv : NodeInv db tip f) (hfresh : db (.header id) = none)
    (hf1 : f ≤ newFin) (hf2 : newFin ≤ tip + 1) (hpr : ∀ h, h ∈ pruned → h ≤ newFin) :
    NodeInv (applyBatch db (addBatch tip id newFin pruned)) (tip + 1) newFin := by
  refine ⟨?_, ?_, hf2, ?_, ?_, ?_, ?_⟩
  · rw [add_lookup]
  · rw [add_lookup]
  · intro h hh
    by_cases e : h = tip + 1
    · refine ⟨id, ?_, ?_⟩
      · rw [add_lookup]; simp [e]
      · rw [add_lookup]; simp [e]
    · obtain ⟨i, hi, hhd⟩ := hinv.chain h (by omega)
      have hne : i ≠ id := by
        intro hc; subst hc; rw [hfresh] at hhd; cases hhd
      refine ⟨i, ?_, ?_⟩
      · rw [add_lookup]; simp [e, hi]
      · rw [add_lookup]; simp [hne, hhd]
  · intro h hh
    have ⟨a1, a2⟩ := hinv.above h (by omega)
    constructor
    · rw [add_lookup]; simp [show h ≠ tip + 1 by omega, a1]
    · rw [add_lookup]
      by_cases hp : h ∈ pruned
      · simp [hp]
      · simp [hp, show h ≠ tip + 1 by omega, a2]
  · intro h h1 h2
    rw [add_lookup]
    have hp : h ∉ pruned := fun hp => by have := hpr h hp; omega
    by_cases e : h = tip + 1
    · subst e; simp [hp]
    · simp only [hp, e, if_false]
      exact hinv.diffs h (by omega) (by omega)
  · intro i h hh
    rw [add_lookup] at hh
    rw [add_lookup]
    by_cases e : i = id
    · subst e
      simp only [if_true, Option.some.injEq, Val.hdr.injEq] at hh
      subst hh
      simp
    · simp only [e, if_false] at hh
      have hidx := hinv.hdrs i h hh
      have hne : h ≠ tip + 1 := by
        intro hc; subst hc
        rw [(hinv.above (tip + 1) (by omega)).1] at hidx; cases hidx
      simp [hne, hidx]

/-- block removal preserves the restart invariant -/
theorem remove_preserves {db : NodeDB} {tip f id : Nat}
    (hinv : NodeInv db tip f) (hf : f < tip) (hid : db (.index tip) = some (.id id)) :
    NodeInv (applyBatch db (removeBatch tip id)) (tip - 1) f := by
  have hhdr : db (.header id) = some (.hdr tip) := by
    obtain ⟨i, hi, hh⟩ := hinv.chain tip (Nat.le_refl _)
    rw [hid] at hi
    cases hi
    exact hh
  refine ⟨?_, ?_, by omega, ?_, ?_, ?_, ?_⟩
  · rw [remove_lookup]
  · rw [remove_lookup]; exact hinv.fin
  · intro h hh
    obtain ⟨i, hi, hhd⟩ := hinv.chain h (by omega)
    have hne : i ≠ id := by
      intro hc; subst hc
      rw [hhdr] at hhd
      simp only [Option.some.injEq, Val.hdr.injEq] at hhd
      omega
    refine ⟨i, ?_, ?_⟩
    · rw [remove_lookup]; simp [show h ≠ tip by omega, hi]
    · rw [remove_lookup]; simp [hne, hhd]
  · intro h hh
    by_cases e : h = tip
    · constructor <;> (rw [remove_lookup]; simp [e])
    · have ⟨a1, a2⟩ := hinv.above h (by omega)
      constructor <;> (rw [remove_lookup]; simp [e, a1, a2])
  · intro h h1 h2
    rw [remove_lookup]
    simp only [show h ≠ tip by omega, if_false]
    exact hinv.diffs h h1 (by omega)
  · intro i h hh
    rw [remove_lookup] at hh
    rw [remove_lookup]
    by_cases e : i = id
    · simp [e] at hh
    · simp only [e, if_false] at hh
      have hidx := hinv.hdrs i h hh
      have hne : h ≠ tip := by
        intro hc; subst hc
        rw [hid] at hidx
        simp only [Option.some.injEq, Val.id.injEq] at hidx
        exact e hidx.symm
      simp [hne, hidx]

/-- the tip found at restart is the one the consensus store, header and revert diff belong to -/
theorem recover_consistent {db : NodeDB} {tip f t : Nat} (hinv : NodeInv db tip f) (hr : RecoveredTip db t) :
    t = tip ∧ db .bftTip = some (.num t) ∧
    (∃ id, db (.index t) = some (.id id) ∧ db (.header id) = some (.hdr t)) ∧
    (f < t → db (.diff t) ≠ none) ∧ (∀ h, t < h → db (.diff h) = none) := by
  have ht : t = tip := by
    have h1 : ¬ tip < t := fun h => hr.1 (hinv.above t h).1
    have h2 : ¬ t < tip := fun h => by
      obtain ⟨i, hi, _⟩ := hinv.chain tip (Nat.le_refl _)
      rw [hr.2 tip h] at hi; cases hi
    omega
  subst ht
  exact ⟨rfl, hinv.bft, hinv.chain t (Nat.le_refl _), fun h => hinv.diffs t h (Nat.le_refl _),
    fun h hh => (hinv.above h hh).2⟩

/-! ## 4. `okPath` is a real path -/

theorem okPath_sound : ∀ (s : Stmt) (tr : List Act) (o : Out), okPath s = some (tr, o) → Exec s tr o := by
  intro s
  induction s with
  | skip =>
    intro tr o h
    simp only [okPath, Option.some.injEq, Prod.mk.injEq] at h
    obtain ⟨rfl, rfl⟩ := h
    exact .skip
  | act a =>
    intro tr o h
    simp only [okPath, Option.some.injEq, Prod.mk.injEq] at h
    obtain ⟨rfl, rfl⟩ := h
    exact .act a
  | seq s t ihs iht =>
    intro tr o h
    simp only [okPath] at h
    cases hs : okPath s with
    | none => rw [hs] at h; simp at h
    | some p1 =>
      obtain ⟨t1, o1⟩ := p1
      rw [hs] at h
      by_cases ho : o1 = .fall
      · subst ho
        simp only at h
        cases ht : okPath t with
        | none => rw [ht] at h; simp at h
        | some p2 =>
          obtain ⟨t2, o2⟩ := p2
          rw [ht] at h
          simp only [Option.some.injEq, Prod.mk.injEq] at h
          obtain ⟨rfl, rfl⟩ := h
          exact .seqFall (ihs _ _ hs) (iht _ _ ht)
      · have h' : some (t1, o1) = some (tr, o) := by
          cases o1 <;> first | exact absurd rfl ho | exact h
        simp only [Option.some.injEq, Prod.mk.injEq] at h'
        obtain ⟨rfl, rfl⟩ := h'
        exact .seqStop (ihs _ _ hs) ho
  | choice s t ihs iht =>
    intro tr o h
    simp only [okPath] at h
    cases hs : okPath s with
    | none => rw [hs] at h; exact .choiceR (iht _ _ h)
    | some p1 =>
      obtain ⟨t1, o1⟩ := p1
      rw [hs] at h
      simp only at h
      by_cases ho : o1 = .err
      · rw [if_pos ho] at h; exact .choiceR (iht _ _ h)
      · rw [if_neg ho] at h
        simp only [Option.some.injEq, Prod.mk.injEq] at h
        obtain ⟨rfl, rfl⟩ := h
        exact .choiceL (ihs _ _ hs)
  | loop s _ =>
    intro tr o h
    simp only [okPath, Option.some.injEq, Prod.mk.injEq] at h
    obtain ⟨rfl, rfl⟩ := h
    exact .loopDone
  | scope s ih =>
    intro tr o h
    simp only [okPath] at h
    cases hs : okPath s with
    | none => rw [hs] at h; simp at h
    | some p1 =>
      obtain ⟨t1, o1⟩ := p1
      rw [hs] at h
      simp only [Option.some.injEq, Prod.mk.injEq] at h
      obtain ⟨rfl, rfl⟩ := h
      exact .scope (ih _ _ hs)
  | call f args => intro tr o h; simp [okPath] at h
  | tryCall c a b ihc iha ihb =>
    intro tr o h
    simp only [okPath] at h
    cases hc : okPath c with
    | none => rw [hc] at h; simp at h
    | some p1 =>
      obtain ⟨t1, o1⟩ := p1
      rw [hc] at h
      simp only at h
      by_cases ho : o1 = .err
      · rw [if_pos ho] at h
        subst ho
        cases ha : okPath a with
        | none => rw [ha] at h; simp at h
        | some p2 =>
          obtain ⟨t2, o2⟩ := p2
          rw [ha] at h
          simp only [Option.some.injEq, Prod.mk.injEq] at h
          obtain ⟨rfl, rfl⟩ := h
          exact .tryErr (ihc _ _ hc) (iha _ _ ha)
      · rw [if_neg ho] at h
        cases hb : okPath b with
        | none => rw [hb] at h; simp at h
        | some p2 =>
          obtain ⟨t2, o2⟩ := p2
          rw [hb] at h
          simp only [Option.some.injEq, Prod.mk.injEq] at h
          obtain ⟨rfl, rfl⟩ := h
          exact .tryOk (ihc _ _ hc) ho (ihb _ _ hb)
  | ret =>
    intro tr o h
    simp only [okPath, Option.some.injEq, Prod.mk.injEq] at h
    obtain ⟨rfl, rfl⟩ := h
    exact .ret
  | retErr =>
    intro tr o h
    simp only [okPath, Option.some.injEq, Prod.mk.injEq] at h
    obtain ⟨rfl, rfl⟩ := h
    exact .retErr
  | brk =>
    intro tr o h
    simp only [okPath, Option.some.injEq, Prod.mk.injEq] at h
    obtain ⟨rfl, rfl⟩ := h
    exact .brk
  | cont =>
    intro tr o h
    simp only [okPath, Option.some.injEq, Prod.mk.injEq] at h
    obtain ⟨rfl, rfl⟩ := h
    exact .cont

/-! ## 5. Genesis -/

theorem genesis_inv (id : Nat) : NodeInv (applyBatch emptyDB (genesisBatch id)) 0 0 := by
  have look : ∀ k, applyBatch emptyDB (genesisBatch id) k =
      match k with
      | .bftTip => some (.num 0)
      | .fin => some (.num 0)
      | .index h => if h = 0 then some (.id id) else none
      | .header i => if i = id then some (.hdr 0) else none
      | .diff h => if h = 0 then some .blob else none := by
    intro k
    cases k <;> simp [applyBatch, applyOp, genesisBatch, emptyDB]
  refine ⟨by rw [look], by rw [look], Nat.le_refl _, ?_, ?_, ?_, ?_⟩
  · intro h hh
    have : h = 0 := by omega
    subst this
    exact ⟨id, by rw [look]; simp, by rw [look]; simp⟩
  · intro h hh
    constructor <;> (rw [look]; simp [show h ≠ 0 by omega])
  · intro h h1 h2; omega
  · intro i h hh
    rw [look] at hh
    rw [look]
    by_cases e : i = id
    · subst e
      simp only [if_true, Option.some.injEq, Val.hdr.injEq] at hh
      subst hh; simp
    · simp [e] at hh

theorem empty_no_tip (t : Nat) : ¬ RecoveredTip emptyDB t := fun h => h.1 rfl

/-! ## 6. No write event, no effect -/

theorem no_write_not_written {κ ν : Type} :
    ∀ (evs : List (Ev κ ν)) (st st' : St), st.written = false → (∀ b, Ev.write b ∉ evs) →
      runMon st (evs.map Ev.abs) = some st' → st'.written = false
  | [], st, st', hw, _, h => by
    simp only [List.map_nil, runMon, Option.some.injEq] at h
    subst h; exact hw
  | e :: l, st, st', hw, hno, h => by
    simp only [List.map_cons, runMon] at h
    cases hs : stepAct st e.abs with
    | none => rw [hs] at h; simp at h
    | some st1 =>
      rw [hs] at h
      have hno' : ∀ b, Ev.write b ∉ l := fun b hb => hno b (List.mem_cons_of_mem _ hb)
      have hw1 : st1.written = false := by
        cases e with
        | newBatch b =>
          simp only [Ev.abs, stepAct] at hs
          split at hs
          · simp only [Option.some.injEq] at hs; subst hs; exact hw
          · simp at hs
        | batchOp b op =>
          cases op <;>
          · simp only [Ev.abs, stepAct] at hs
            split at hs
            · simp only [Option.some.injEq] at hs; subst hs; exact hw
            · simp at hs
        | write b => exact absurd List.mem_cons_self (hno b)
        | direct op => cases op <;> simp [Ev.abs, stepAct] at hs
        | other a => rw [other_step hs]; exact hw
      exact no_write_not_written l st1 st' hw1 hno' h

end LiskVerif.Crash
