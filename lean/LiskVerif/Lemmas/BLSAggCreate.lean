/-
Lemmas about the bitmap built by BLSCreateAggSig (Model/BLSAgg.lean): `Bits.write(i, true)` sets bit `i`
and nothing else; the loop never leaves the bitmap and flags exactly the first positions of the supplied
public keys.
-/
import LiskVerif.Lemmas.BLSAgg

namespace LiskVerif.BLSAgg

private theorem byte_or : ∀ x, x < 256 → ∀ k, k < 8 → ∀ j, j < 8 →
    ((((x ||| 2 ^ k) % 256) / 2 ^ j) % 2 == 1) = (decide (j = k) || ((x / 2 ^ j) % 2 == 1)) := by
  decide +kernel

theorem findIndex_lt {κ : Type} [DecidableEq κ] : ∀ (keys : List κ) (x : κ) (i : Nat),
    findIndex keys x = some i → i < keys.length
  | [], _, _, h => by simp [findIndex] at h
  | k :: r, x, i, h => by
    unfold findIndex at h
    split at h
    · simp only [Option.some.injEq] at h; subst h; simp
    · cases hr : findIndex r x with
      | none => simp [hr] at h
      | some j =>
        simp only [hr, Option.map_some, Option.some.injEq] at h
        have := findIndex_lt r x j hr
        simp only [List.length_cons]; omega

/-- writing `true` inside the bitmap: the length stays, bit `i` is set, every other bit keeps its value -/
theorem bitsWrite_true (b : Bytes) (i : Nat) (h : i / 8 < b.length) :
    ∃ b', bitsWrite b i true = some b' ∧ b'.length = b.length ∧
      ∀ j, bitSet b' j = (decide (j = i) || bitSet b j) := by
  unfold bitsWrite
  have hx : b[i / 8]? = some b[i / 8] := List.getElem?_eq_getElem h
  rw [hx]
  refine ⟨_, rfl, by simp, ?_⟩
  intro j
  unfold bitSet
  simp only [List.getD_eq_getElem?_getD, List.getElem?_set]
  by_cases hj : i / 8 = j / 8
  · have e : j / 8 = i / 8 := hj.symm
    rw [e]
    simp only [if_true, h, hx, Option.getD_some]
    have hb := byte_or b[i / 8].toNat b[i / 8].toNat_lt (i % 8) (by omega) (j % 8) (by omega)
    have ht : (UInt8.ofNat (b[i / 8].toNat ||| 2 ^ (i % 8))).toNat = (b[i / 8].toNat ||| 2 ^ (i % 8)) % 256 :=
      UInt8.toNat_ofNat'
    rw [ht, hb]
    congr 1
    by_cases hji : j = i
    · subst hji; simp
    · have : j % 8 ≠ i % 8 := by omega
      simp [hji, this]
  · have hji : j ≠ i := by intro e; subst e; exact hj rfl
    simp [hj, hji]

/-- the bitmap loop of `BLSCreateAggSig` never panics, keeps the length and flags exactly the first
positions of the supplied public keys (in addition to what was flagged before) -/
theorem createBitsLoop_spec {κ : Type} [DecidableEq κ] (keys : List κ) :
    ∀ (pks : List κ) (b : Bytes), keys.length ≤ 8 * b.length →
      ∃ b', createBitsLoop keys pks b = some b' ∧ b'.length = b.length ∧
        ∀ j, bitSet b' j = true ↔ (bitSet b j = true ∨ ∃ pk, pk ∈ pks ∧ findIndex keys pk = some j)
  | [], b, _ => ⟨b, rfl, rfl, fun j => by simp⟩
  | pk :: r, b, h => by
    unfold createBitsLoop
    cases hf : findIndex keys pk with
    | none =>
      obtain ⟨b', h1, h2, h3⟩ := createBitsLoop_spec keys r b h
      refine ⟨b', h1, h2, fun j => ?_⟩
      rw [h3 j]
      constructor
      · rintro (hb | ⟨q, hq, hqf⟩)
        · exact Or.inl hb
        · exact Or.inr ⟨q, List.mem_cons_of_mem _ hq, hqf⟩
      · rintro (hb | ⟨q, hq, hqf⟩)
        · exact Or.inl hb
        · rcases List.mem_cons.1 hq with rfl | hq
          · rw [hf] at hqf; cases hqf
          · exact Or.inr ⟨q, hq, hqf⟩
    | some i =>
      have hi : i / 8 < b.length := by have := findIndex_lt keys pk i hf; omega
      obtain ⟨b1, hw, hl1, hb1⟩ := bitsWrite_true b i hi
      simp only [hw]
      obtain ⟨b', h1, h2, h3⟩ := createBitsLoop_spec keys r b1 (by rw [hl1]; exact h)
      refine ⟨b', h1, by rw [h2, hl1], fun j => ?_⟩
      rw [h3 j, hb1 j]
      constructor
      · rintro (hb | ⟨q, hq, hqf⟩)
        · simp only [Bool.or_eq_true, decide_eq_true_eq] at hb
          rcases hb with rfl | hb
          · exact Or.inr ⟨pk, List.mem_cons_self, hf⟩
          · exact Or.inl hb
        · exact Or.inr ⟨q, List.mem_cons_of_mem _ hq, hqf⟩
      · rintro (hb | ⟨q, hq, hqf⟩)
        · exact Or.inl (by simp [hb])
        · rcases List.mem_cons.1 hq with rfl | hq
          · rw [hf] at hqf
            simp only [Option.some.injEq] at hqf
            exact Or.inl (by simp [hqf])
          · exact Or.inr ⟨q, hq, hqf⟩

theorem bitSet_zero (n j : Nat) : bitSet (List.replicate n 0) j = false := by
  unfold bitSet
  simp only [List.getD_eq_getElem?_getD, List.getElem?_replicate]
  split <;> simp

end LiskVerif.BLSAgg
