/-
The whole trie: the recursion of `updateSubtree` through the stored levels refines the specification
(for a hash without collisions and with outputs of one length), and `trie.Update` maps a store representing `m`
to a store representing `applyBatch m b`, returning the LIP-0039 root.
-/
import LiskVerif.Lemmas.SMTImplDistinct
import LiskVerif.Lemmas.SMTImplFrame

namespace LiskVerif.SMTImpl
open LiskVerif LiskVerif.SMT

variable {X : Bytes → Prop}

/-- the world of the full trie: stubs commit to represented groups of well-formed entries whose hash inputs are
among `X`; the frame keeps such groups at diverging positions -/
def World.trie (c : Cfg) (g : GoodHash c X) : World where
  S := RepW c X
  F := KeepsOutside c X
  EOK := fun k v => k.length = c.keyLen ∧ v.length = c.hashSize
  OOK := fun k v => k.length = c.keyLen ∧ (v = [] ∨ v.length = c.hashSize)
  IOK := InX c X
  IOK_goL := fun _ _ hw hx => inX_goL c g hw hx
  IOK_goR := fun _ _ hw hx => inX_goR c g hw hx
  F_refl := fun _ _ _ _ _ _ _ _ _ h => h
  F_trans := fun _ _ _ _ h1 h2 pre' d es h hd hu hn hr => h2 pre' d es h hd hu hn (h1 pre' d es h hd hu hn hr)
  F_ext := fun _ x _ _ h pre' d es hh hd hu hn hr => h pre' d es hh (hd.ext_left x) hu hn hr
  S_frame := fun _ pre' _ _ d es h hF hd hu hn hs => hF pre' d es h hd hu hn hs

/-- heights at which a subtree of this height can start -/
def Aligned (c : Cfg) (h : Nat) : Prop := (c.sth = 8 ∧ h % 8 = 0) ∨ (c.sth = 4 ∧ (h % 8 = 0 ∨ h % 8 = 4))

theorem Aligned.next {c : Cfg} {h : Nat} (ha : Aligned c h) : Aligned c (h + c.sth) := by
  rcases ha with ⟨h8, hm⟩ | ⟨h4, hm⟩
  · left; exact ⟨h8, by omega⟩
  · right; refine ⟨h4, ?_⟩; omega

theorem opOf_kvOf {pre : Bits} {o : Entry} (hu : Under pre o) : opOf pre.length (kvOf o) = o := by
  cases o with
  | mk p k v =>
    simp only [opOf, kvOf, Under] at *
    rw [hu]; simp

theorem map_opOf_kvOf {pre : Bits} {ops : List Entry} (hu : ∀ o ∈ ops, Under pre o) :
    (ops.map kvOf).map (opOf pre.length) = ops := by
  rw [List.map_map]
  conv => rhs; rw [← List.map_id ops]
  apply List.map_congr_left
  intro o ho
  exact opOf_kvOf (hu o ho)

theorem eok_applyE (c : Cfg) (g : GoodHash c X) {es ops : List Entry}
    (he : ∀ e ∈ es, (World.trie c g).EOK e.key e.value) (ho : ∀ o ∈ ops, (World.trie c g).OOK o.key o.value) :
    ∀ e ∈ applyE es ops, (World.trie c g).EOK e.key e.value := by
  intro e hm
  rcases maps_mem_applyE.mp hm with ⟨h1, _⟩ | ⟨h1, h2⟩
  · exact he e h1
  · obtain ⟨hk, hv⟩ := ho e h1
    exact ⟨hk, by rcases hv with hv | hv; exact absurd hv h2; exact hv⟩

theorem eok_value_ne (c : Cfg) (g : GoodHash c X) {k v : Bytes} (h : (World.trie c g).EOK k v) : v ≠ [] := by
  intro hv; have := h.2; rw [hv] at this; have := g.pos; simp at *; omega

/-- the stubs of a tree over `Rep` are groups of well-formed entries as soon as the entries of the tree are -/
theorem Arr.toW (c : Cfg) (g : GoodHash c X) {db : DB} {rem d : Nat} {T : LT} {es : List Entry}
    (hA : Arr c.H (Rep c db) rem d T es) (he : WFE d es) (hk : ∀ e ∈ es, e.key.length = c.keyLen)
    (hx : InX c X d es) (hrd : rem ≤ d) : Arr c.H (RepW c X db) rem d T es := by
  refine Arr.mono_stubs hA ?_
  intro y hh hy _ hrep
  have hw := wfe_descend he y (by omega)
  have hxd := inX_descend c g he hx y (by omega)
  rw [hy] at hw hxd
  exact ⟨hw, distinct_keylen_descend hk y, hxd, hrep⟩

theorem Arr.ofW (c : Cfg) (X : Bytes → Prop) {db : DB} {rem d : Nat} {T : LT} {es : List Entry} (hA : Arr c.H (RepW c X db) rem d T es) :
    Arr c.H (Rep c db) rem d T es :=
  Arr.mono (fun _ _ _ h => h.2.2.2) hA

/-- reading the subtree below a bottom node -/
theorem readBottom_ok (c : Cfg) (hs : c.sth = 8 ∨ c.sth = 4) (g : GoodHash c X) {pre : Bits} {db : DB} {cur : Node}
    {es : List Entry} {d : Nat} (hd : c.sth ≤ d) (hcur : ArrTip c.H (RepW c X db) 0 d cur es) (he : WFE d es)
    (hue : ∀ e ∈ es, Under pre e) (hev : ∀ e ∈ es, (World.trie c g).EOK e.key e.value) (hx : InX c X d es) :
    ∃ db1 T0 rt0, readBottom c db cur = (db1, .ok ⟨T0.depths 0, rt0, T0.nodes⟩) ∧
      Arr c.H (RepW c X db1) c.sth d T0 es ∧ KeepsOutside c X pre db db1 := by
  have hsth : 0 < c.sth := by omega
  have hkl : ∀ e ∈ es, e.key.length = c.keyLen ∧ e.value.length = c.hashSize := fun e hm => hev e hm
  cases hcur with
  | empty =>
    refine ⟨db, .tip (newEmptyNode c.H), emptyHash c.H, ?_, Arr.tip _ _ _ _ ArrTip.empty, (World.trie c g).F_refl _ _⟩
    simp [readBottom, newEmptyNode, getSubtree, newEmptySubTree, LT.depths, LT.nodes]
  | leaf e hv =>
    refine ⟨db, .tip (newLeafNode c.H e.key e.value), (newLeafNode c.H e.key e.value).hash, ?_,
      Arr.tip _ _ _ _ (ArrTip.leaf e hv), (World.trie c g).F_refl _ _⟩
    have := newSubtreeFromData_tree c.H (.tip (newLeafNode c.H e.key e.value))
    simp only [LT.depths, LT.nodes, LT.hash] at this
    simp only [readBottom, LT.depths, LT.nodes]
    have hk : (newLeafNode c.H e.key e.value).kind = .leaf := rfl
    rw [hk]
    simp only [this]
  | stub es _ h2 hr =>
    obtain ⟨_, _, _, hr⟩ := hr
    obtain ⟨T0, hA, hC, _, hget⟩ := Rep.elim c hr
    have hxnil : InX c X 0 [] := by intro a ha; simp [treeInputs] at ha; rw [ha]; exact g.nil
    have hwf := Arr.wfSub hA (by omega) hkl g.len
    have hhash : T0.hash c.H = root c.H d es := by
      have := (collapse_exp c.H d T0 es he hA.exp).1
      rwa [LT.collapse_of_canon T0 hC] at this
    rw [hhash] at hwf
    have hdec := newSubTree_encode c _ hwf
    have hlen : (root c.H d es).length ≠ 0 := by rw [root_length c g]; have := g.pos; omega
    have hne : root c.H d es ≠ emptyHash c.H := by
      intro h
      have := root_kind_sep c g he (wfe_nil 0) hx hxnil (by simpa using h)
      have h3 := kindOfLen_stub.mpr h2
      rw [this] at h3
      simp [kindOfLen] at h3
    refine ⟨dbDel db (root c.H d es), T0, root c.H d es, ?_, ?_, ?_⟩
    · simp only [readBottom, newStubNode, getSubtree]
      have hcond : ¬ ((root c.H d es).length = 0 ∨ root c.H d es = emptyHash c.H) := by simp [hlen, hne]
      simp only [if_neg hcond, hget, hdec]
    · refine Arr.toW c g (Arr.mono_stubs hA ?_) he (fun e hm => (hkl e hm).1) hx hd
      intro y hh hy h2y hrep
      have hyne : y ≠ [] := by intro h; rw [h] at hy; simp at hy; omega
      have hav := avoids_below c g he hx y hyne (by omega)
      rw [hy] at hav
      exact Rep.frame_del c h2y hav hrep
    · intro pre' dO eo ho hdv huo h2o hrep
      obtain ⟨hwo, hko, hxo, hrep⟩ := hrep
      exact ⟨hwo, hko, hxo, Rep.frame_del c h2o
        (avoids_outside c g c.keyLen hdv hue huo he hwo hx hxo (fun e hm => (hkl e hm).1) hko) hrep⟩

theorem Arr.tip_inv {H : HashFn} {S : Nat → List Entry → Bytes → Prop} {rem d : Nat} {n : Node} {es : List Entry}
    (h : Arr H S rem d (.tip n) es) : ArrTip H S rem d n es := by
  cases h; assumption

theorem nodes_br_not_single (l r : LT) : ∃ a b rest, (LT.br l r).nodes = a :: b :: rest := by
  have hl := LT.nodes_length_pos l
  have hr := LT.nodes_length_pos r
  simp only [LT.nodes]
  cases hln : l.nodes with
  | nil => rw [hln] at hl; simp at hl
  | cons a la =>
    cases hrn : r.nodes with
    | nil => rw [hrn] at hr; simp at hr
    | cons b lb =>
      cases la with
      | nil => exact ⟨a, b, lb, rfl⟩
      | cons a2 la' => exact ⟨a, a2, la' ++ b :: lb, rfl⟩

/-- one more stored level: if the level below refines the specification, so does the bottom of this level -/
theorem bottom_step (c : Cfg) (hs : c.sth = 8 ∨ c.sth = 4) (g : GoodHash c X) (n height dB' : Nat)
    (ha : Aligned c (height + c.sth))
    (hlow : BottomOK c (World.trie c g) (updateSubtree c n) (height + c.sth) dB') :
    BottomOK c (World.trie c g) (updateSubtree c (n + 1)) height (c.sth + dB') := by
  intro pre db bins cur es ops hpre hcur he ho hue huo hev hov hie hia hb hne hsr
  have hsth : 0 < c.sth := by omega
  have hbins : bins = [ops.map kvOf] := hb
  subst hbins
  obtain ⟨db1, T0, rt0, hread, hA0, hF0⟩ := readBottom_ok c hs g (pre := pre) (by omega) hcur he hue hev hie
  have hops : (ops.map kvOf).map (opOf (height + c.sth)) = ops := by rw [← hpre]; exact map_opOf_kvOf huo
  have hk : ∀ kv ∈ ops.map kvOf, height + c.sth + c.sth ≤ 8 * kv.1.length := by
    intro kv hkv
    obtain ⟨o, ho', rfl⟩ := List.mem_map.mp hkv
    have hu := huo o ho'
    have hl := ho.1 o ho'
    have hlen : (keyBits o.key).length = pre.length + o.path.length := by
      have : keyBits o.key = pre ++ o.path := hu
      rw [this]; simp
    rw [keyBits_length] at hlen
    simp only [kvOf]
    omega
  obtain ⟨db2, T', hupd, hA', hF'⟩ := updateSubtree_level c (World.trie c g) n (height + c.sth) dB' hlow ha
    (c.sth + dB') T0 es db1 rt0 pre (ops.map kvOf) hA0 hpre rfl he (by rw [hops]; exact ho) hue
    (by rw [hops]; exact huo) hev (by rw [hops]; exact hov) hie (by rw [hops]; exact hia) hk (by simpa using hne)
  rw [hops] at hupd hA'
  have hwf' : WFE (c.sth + dB') (applyE es ops) := wfe_applyE he ho
  have hue' : ∀ e ∈ applyE es ops, Under pre e := under_applyE hue huo
  have hev' := eok_applyE c g hev hov
  have hkind := (collapse_exp c.H (c.sth + dB') T' _ hwf' hA'.exp).2
  have hAc : Arr c.H (RepW c X db2) c.sth (c.sth + dB') T'.collapse (applyE es ops) := Arr.collapse hwf' hA'
  have hcanon := LT.collapse_canon T'
  generalize applyE es ops = es' at *
  generalize T'.collapse = Tc at *
  have hAc3 : Arr c.H (RepW c X (dbSet db2 (root c.H (c.sth + dB') es')
      (SubTree.encode ⟨Tc.depths 0, root c.H (c.sth + dB') es', Tc.nodes⟩))) c.sth (c.sth + dB') Tc es' := by
    refine Arr.mono_stubs hAc ?_
    intro y hh hy h2y hrep
    have hyne : y ≠ [] := by intro h; rw [h] at hy; simp at hy; omega
    have hav := avoids_below c g hwf' hia y hyne (by omega)
    rw [hy] at hav
    exact ⟨hrep.1, hrep.2.1, hrep.2.2.1, Rep.frame_set c h2y hav hrep.2.2.2⟩
  have hF3 : KeepsOutside c X pre db2 (dbSet db2 (root c.H (c.sth + dB') es')
      (SubTree.encode ⟨Tc.depths 0, root c.H (c.sth + dB') es', Tc.nodes⟩)) := by
    intro pre' dO eo ho' hdv huo' h2o hrep
    obtain ⟨hwo, hko, hxo, hrep⟩ := hrep
    exact ⟨hwo, hko, hxo, Rep.frame_set c h2o
      (avoids_outside c g c.keyLen hdv hue' huo' hwf' hwo hia hxo (fun e hm => (hev' e hm).1) hko) hrep⟩
  have hFall := (World.trie c g).F_trans _ _ _ _ ((World.trie c g).F_trans _ _ _ _ hF0 hF') hF3
  unfold updateBottom
  simp only [hread, hupd]
  cases Tc with
  | tip nd =>
    refine ⟨_, nd, rfl, ?_, hFall⟩
    cases Arr.tip_inv hAc3 with
    | empty => exact ArrTip.empty
    | leaf e hv => exact ArrTip.leaf e hv
    | stub _ h0 _ _ => omega
  | br l r =>
    obtain ⟨a, b, rest, hnodes⟩ := nodes_br_not_single l r
    have h2 : 2 ≤ es'.length := kindOfLen_stub.mp (by simpa [LT.topKind] using hkind.symm)
    refine ⟨_, newStubNode (root c.H (c.sth + dB') es'), ?_, ?_, hFall⟩
    · simp only [hnodes]
    · refine ArrTip.stub es' rfl h2 ⟨hwf', fun e hm => (hev' e hm).1, hia, ?_⟩
      exact Rep.intro c (.br l r) (Arr.ofW c X hAc3) hcanon rfl (dbGet_dbSet_self _ _ _)

/-- with no key bits left below the subtree there is nothing below its bottom -/
theorem bottom_zero (c : Cfg) (g : GoodHash c X) (lower : DB → List KV → SubTree → Nat → St SubTree) (height : Nat) :
    BottomOK c (World.trie c g) lower height 0 := by
  intro pre db bins cur es ops hpre hcur he ho hue huo hev hov _ _ hb hne hsr
  exfalso
  have hl := wfe_zero_length ho
  obtain ⟨o, rfl⟩ : ∃ o, ops = [o] := by
    cases ops with
    | nil => exact absurd rfl hne
    | cons o r =>
      cases r with
      | nil => exact ⟨o, rfl⟩
      | cons _ _ => simp at hl
  have htot := hb.total (by intro o' _; exact Nat.zero_le _)
  have hf := hb.firstKV_single (Nat.zero_le _)
  unfold singleResult at hsr
  rw [if_pos (by simpa using htot), hf] at hsr
  cases hcur with
  | empty =>
    by_cases hv : o.value = [] <;> simp [kvOf, newEmptyNode, hv] at hsr
  | leaf e hv =>
    have h1 := he.1 e (by simp)
    have h2 := ho.1 o (by simp)
    have hp : e.path = o.path := by
      rw [List.length_eq_zero_iff.mp h1, List.length_eq_zero_iff.mp h2]
    have hk := (under_key_eq (hue e (by simp)) (huo o (by simp))).mp hp
    by_cases hv' : o.value = [] <;> simp [kvOf, newLeafNode, hk, hv'] at hsr
  | stub es _ h2 _ =>
    have := wfe_zero_length he
    omega

/-- **every level below refines the specification** (`L` levels below, fuel at least `L`) -/
theorem bottomOK_trie (c : Cfg) (hs : c.sth = 8 ∨ c.sth = 4) (g : GoodHash c X) :
    ∀ (L n height : Nat), L ≤ n → Aligned c height →
      BottomOK c (World.trie c g) (updateSubtree c n) height (c.sth * L)
  | 0, n, height, _, _ => by rw [Nat.mul_zero]; exact bottom_zero c g _ height
  | L + 1, 0, _, hle, _ => by omega
  | L + 1, n + 1, height, hle, ha => by
    have := bottom_step c hs g n height (c.sth * L) ha.next
      (bottomOK_trie c hs g L n (height + c.sth) (by omega) ha.next)
    rw [Nat.mul_succ, Nat.add_comm (c.sth * L) c.sth]
    exact this

/-- the record of a represented group can be read back -/
theorem getSubtree_rep (c : Cfg) (hs : c.sth = 8 ∨ c.sth = 4) (g : GoodHash c X) {db : DB} {d : Nat} {es : List Entry}
    {h : Bytes} (hr : Rep c db d es h) (he : WFE d es) (hne : es ≠ [])
    (hkl : ∀ e ∈ es, e.key.length = c.keyLen ∧ e.value.length = c.hashSize) (hx : InX c X d es) :
    ∃ T0, getSubtree c db h = .ok ⟨T0.depths 0, h, T0.nodes⟩ ∧ Arr c.H (Rep c db) c.sth d T0 es := by
  obtain ⟨T0, hA, hC, hh, hget⟩ := Rep.elim c hr
  have hwf := Arr.wfSub hA (by omega) hkl g.len
  have hhash : T0.hash c.H = root c.H d es := by
    have := (collapse_exp c.H d T0 es he hA.exp).1
    rwa [LT.collapse_of_canon T0 hC] at this
  rw [hhash, ← hh] at hwf
  have hdec := newSubTree_encode c _ hwf
  have hlen : h.length ≠ 0 := by rw [hh, root_length c g]; have := g.pos; omega
  have hne' : h ≠ emptyHash c.H := by
    intro h0
    rw [hh] at h0
    have hxnil : InX c X 0 [] := by intro a ha; simp [treeInputs] at ha; rw [ha]; exact g.nil
    have := root_kind_sep c g he (wfe_nil 0) hx hxnil (by simpa using h0)
    have h3 : kindOfLen es.length = .empty := by rw [this]; rfl
    exact hne (List.length_eq_zero_iff.mp (kindOfLen_empty.mp h3))
  refine ⟨T0, ?_, hA⟩
  have hcond : ¬ (h.length = 0 ∨ h = emptyHash c.H) := by simp [hlen, hne']
  simp only [getSubtree, if_neg hcond, hget, hdec]

/-- storing the collapsed tree makes the updated group represented -/
theorem store_rep (c : Cfg) (hs : c.sth = 8 ∨ c.sth = 4) (g : GoodHash c X) {db2 : DB} {d : Nat} {T' : LT}
    {es' : List Entry} (hd : c.sth ≤ d) (hA' : Arr c.H (RepW c X db2) c.sth d T' es') (hwf' : WFE d es')
    (hx' : InX c X d es') :
    Rep c (dbSet db2 (root c.H d es') (SubTree.encode ⟨T'.collapse.depths 0, root c.H d es', T'.collapse.nodes⟩))
      d es' (root c.H d es') := by
  have hAc : Arr c.H (RepW c X db2) c.sth d T'.collapse es' := Arr.collapse hwf' hA'
  refine Rep.intro c T'.collapse (Arr.ofW c X (Arr.mono_stubs hAc ?_)) (LT.collapse_canon T') rfl (dbGet_dbSet_self _ _ _)
  intro y hh hy h2y hrep
  have hyne : y ≠ [] := by intro h; rw [h] at hy; simp at hy; omega
  have hav := avoids_below c g hwf' hx' y hyne (by omega)
  rw [hy] at hav
  exact ⟨hrep.1, hrep.2.1, hrep.2.2.1, Rep.frame_set c h2y hav hrep.2.2.2⟩

theorem zip_map_fst_snd (b : List KV) : (b.map (·.1)).zip (b.map (·.2)) = b := by
  induction b with
  | nil => rfl
  | cons kv r ih => simp [ih]

theorem foldl_max_ge (l : List Bytes) (n : Nat) : n ≤ l.foldl (fun m k => max m k.length) n := by
  induction l generalizing n with
  | nil => exact Nat.le_refl _
  | cons k r ih => exact Nat.le_trans (Nat.le_max_left _ _) (ih _)

theorem applyE_perm_left {es es' : List Entry} (h : es.Perm es') (ops : List Entry) :
    (applyE es ops).Perm (applyE es' ops) :=
  (h.filter _).append_right _

theorem wfe_perm {d : Nat} {es es' : List Entry} (h : es.Perm es') (hw : WFE d es') : WFE d es := by
  refine ⟨fun e he => hw.1 e (h.mem_iff.mp he), ?_⟩
  exact (h.pairwise_iff (fun {a b} (hab : a.path ≠ b.path) => fun hba => hab hba.symm)).mpr hw.2

theorem uniqueFirst_ne_nil {b : List KV} (h : b ≠ []) : uniqueFirst b ≠ [] := by
  cases b with
  | nil => exact absurd rfl h
  | cons kv r => simp [uniqueFirst]

theorem mem_uniqueFirst {b : List KV} {kv : KV} (h : kv ∈ uniqueFirst b) : kv ∈ b := by
  rw [uniqueFirst_eq_dedupFirst] at h; exact mem_dedupFirst h

/-- **`trie.Update` refines the specification**: from a store representing `m` the update with the batch `b`
returns the LIP-0039 root of `applyBatch m b` and leaves a store representing `applyBatch m b`. -/
theorem update_refines (c : Cfg) (hs : c.sth = 8 ∨ c.sth = 4) (g : GoodHash c X) (hkl : 0 < c.keyLen)
    (db : DB) (rt : Bytes) (m b : List KV) (hR : Represents c db rt m)
    (hb : ∀ kv ∈ b, kv.1.length = c.keyLen ∧ (kv.2 = [] ∨ kv.2.length = c.hashSize))
    (hXm : InX c X (8 * c.keyLen) (entriesOf m)) (hXm' : InX c X (8 * c.keyLen) (entriesOf (applyBatch m b))) :
    ∃ db', update c ⟨rt⟩ db (b.map (·.1)) (b.map (·.2)) =
        (⟨mapRoot c.H c.keyLen (applyBatch m b)⟩, db', .ok (mapRoot c.H c.keyLen (applyBatch m b))) ∧
      Represents c db' (mapRoot c.H c.keyLen (applyBatch m b)) (applyBatch m b) := by
  obtain ⟨hm, hrt, hrep⟩ := hR
  by_cases hbn : b = []
  · subst hbn
    refine ⟨db, ?_, ?_⟩
    · simp [update, applyBatch, batchOps, dedupFirst, hrt]
    · have hab : applyBatch m [] = m := by simp [applyBatch, batchOps, dedupFirst]
      rw [hab, ← hrt]
      exact ⟨hm, hrt, hrep⟩
  · -- the entries the store holds and the subtree read at the root
    have hent : ∃ es T0, es.Perm (entriesOf m) ∧
        getSubtree c db rt = .ok ⟨T0.depths 0, rt, T0.nodes⟩ ∧ Arr c.H (RepW c X db) c.sth (8 * c.keyLen) T0 es := by
      by_cases hmn : m = []
      · subst hmn
        refine ⟨[], .tip (newEmptyNode c.H), List.Perm.refl _, ?_, Arr.tip _ _ _ _ ArrTip.empty⟩
        simp [hrt, mapRoot, entriesOf, getSubtree, newEmptySubTree, LT.depths, LT.nodes]
      · obtain ⟨es, hp, hr⟩ := hrep hmn
        have hwe : WFE (8 * c.keyLen) es := wfe_perm hp (wfe_entriesOf c.keyLen m hm.nodup hm.keys)
        have hkle : ∀ e ∈ es, e.key.length = c.keyLen ∧ e.value.length = c.hashSize := by
          intro e he
          have := hp.mem_iff.mp he
          obtain ⟨kv, hkv, rfl⟩ := List.mem_map.mp this
          exact ⟨hm.keys kv hkv, hm.values kv hkv⟩
        have hne : es ≠ [] := by
          intro h; rw [h] at hp
          have := hp.length_eq
          simp [entriesOf] at this
          exact hmn (List.length_eq_zero_iff.mp this.symm)
        obtain ⟨T0, hg, hA⟩ := getSubtree_rep c hs g hr hwe hne hkle (inX_perm c hp hXm)
        exact ⟨es, T0, hp, hg, Arr.toW c g hA hwe (fun e he => (hkle e he).1) (inX_perm c hp hXm) (by omega)⟩
    obtain ⟨es, T0, hp, hget, hA0⟩ := hent
    have hwe : WFE (8 * c.keyLen) es := wfe_perm hp (wfe_entriesOf c.keyLen m hm.nodup hm.keys)
    have hue : ∀ e ∈ es, Under [] e := fun e he => under_entriesOf m e (hp.mem_iff.mp he)
    have hev : ∀ e ∈ es, (World.trie c g).EOK e.key e.value := by
      intro e he
      obtain ⟨kv, hkv, rfl⟩ := List.mem_map.mp (hp.mem_iff.mp he)
      exact ⟨hm.keys kv hkv, hm.values kv hkv⟩
    have hbk : ∀ kv ∈ b, kv.1.length = c.keyLen := fun kv h => (hb kv h).1
    have hwo := wfe_ops c.keyLen b hbk
    have huo := under_ops b
    have hov : ∀ o ∈ (uniqueFirst b).map (opOf 0), (World.trie c g).OOK o.key o.value := by
      intro o ho
      obtain ⟨kv, hkv, rfl⟩ := List.mem_map.mp ho
      exact hb kv (mem_uniqueFirst hkv)
    -- the number of levels and the fuel
    obtain ⟨L, hL⟩ : ∃ L, 8 * c.keyLen = c.sth + c.sth * L := by
      rcases hs with h8 | h4
      · exact ⟨c.keyLen - 1, by rw [h8]; omega⟩
      · exact ⟨2 * c.keyLen - 1, by rw [h4]; omega⟩
    have hLle : L ≤ 8 * c.keyLen := by
      have : 0 < c.sth := by omega
      have : L ≤ c.sth * L := Nat.le_mul_of_pos_left L this
      omega
    obtain ⟨N, hN, hNL⟩ : ∃ N, fuelFor c (b.map (·.1)) = N + 1 ∧ L ≤ N := by
      have := foldl_max_ge (b.map (·.1)) c.keyLen
      refine ⟨8 * (List.foldl (fun m k => max m k.length) c.keyLen (b.map (·.1))) + 7, rfl, ?_⟩
      omega
    have hal : Aligned c 0 := by
      rcases hs with h8 | h4
      · exact Or.inl ⟨h8, rfl⟩
      · exact Or.inr ⟨h4, Or.inl rfl⟩
    have hk : ∀ kv ∈ uniqueFirst b, 0 + c.sth ≤ 8 * kv.1.length := by
      intro kv hkv
      rw [hbk kv (mem_uniqueFirst hkv)]
      omega
    have hperm : (applyE es ((uniqueFirst b).map (opOf 0))).Perm (entriesOf (applyBatch m b)) :=
      (applyE_perm_left hp _).trans (applyE_entriesOf c.keyLen m b hm.nodup hm.keys hbk)
    have hxe : InX c X (8 * c.keyLen) es := inX_perm c hp hXm
    have hxa : InX c X (8 * c.keyLen) (applyE es ((uniqueFirst b).map (opOf 0))) := inX_perm c hperm hXm'
    obtain ⟨db1, T', hupd, hA', _⟩ := updateSubtree_level c (World.trie c g) N 0 (c.sth * L)
      (bottomOK_trie c hs g L N 0 hNL hal) hal (8 * c.keyLen) T0 es db rt [] (uniqueFirst b) hA0 rfl hL hwe hwo hue huo
      hev hov hxe hxa hk (uniqueFirst_ne_nil hbn)
    -- the new root is the specification root
    have hwf' : WFE (8 * c.keyLen) (applyE es ((uniqueFirst b).map (opOf 0))) := wfe_applyE hwe hwo
    have hroot : root c.H (8 * c.keyLen) (applyE es ((uniqueFirst b).map (opOf 0))) =
        mapRoot c.H c.keyLen (applyBatch m b) := root_perm c.H _ hperm
    have hev' := eok_applyE c g hev hov
    have hstore := store_rep c hs g (by omega) hA' hwf' hxa
    rw [hroot] at hupd hstore
    refine ⟨dbSet db1 (mapRoot c.H c.keyLen (applyBatch m b))
      (SubTree.encode ⟨T'.collapse.depths 0, mapRoot c.H c.keyLen (applyBatch m b), T'.collapse.nodes⟩), ?_, ?_⟩
    · unfold update
      simp only [List.length_map, ne_eq, not_true_eq_false, if_false, zip_map_fst_snd]
      rw [if_neg (by simpa [List.length_eq_zero_iff] using hbn), hget]
      simp only [hN, hupd]
    · refine ⟨⟨nodupKeys_applyBatch hm.nodup b, ?_, ?_⟩, rfl, fun _ => ⟨_, hperm, hstore⟩⟩
      · intro kv hkv
        have : (⟨keyBits kv.1, kv.1, kv.2⟩ : Entry) ∈ entriesOf (applyBatch m b) := List.mem_map.mpr ⟨kv, hkv, rfl⟩
        exact (hev' _ (hperm.mem_iff.mpr this)).1
      · intro kv hkv
        have : (⟨keyBits kv.1, kv.1, kv.2⟩ : Entry) ∈ entriesOf (applyBatch m b) := List.mem_map.mpr ⟨kv, hkv, rfl⟩
        exact (hev' _ (hperm.mem_iff.mpr this)).2

end LiskVerif.SMTImpl
