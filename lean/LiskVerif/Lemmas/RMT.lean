/-
Lemmas about the regular Merkle tree model (`LiskVerif.Model.RMT`): the binary counter of perfect
subtrees that links the incremental `Append` to the LIP-0031 root.
-/
import LiskVerif.Model.RMT

namespace LiskVerif.RMT

/-! ### the split of `rootH` -/

theorem rootH_ge2 (hf : HashFns) (l : List Bytes) (h : 2 ≤ l.length) :
    rootH hf l = hf.branch (rootH hf (l.take (splitPoint l.length))) (rootH hf (l.drop (splitPoint l.length))) := by
  match l, h with
  | a :: b :: r, _ => rw [rootH]; simp only [List.length_cons]

theorem log2_eq_of {n k : Nat} (h1 : 2 ^ k ≤ n) (h2 : n < 2 ^ (k + 1)) : Nat.log2 n = k := by
  have hn : n ≠ 0 := by
    have := Nat.pow_pos (n := k) (show 0 < 2 by decide); omega
  have a : k ≤ Nat.log2 n := (Nat.le_log2 hn).2 h1
  have b : Nat.log2 n < k + 1 := (Nat.log2_lt hn).2 h2
  omega

/-- A perfect left part of `2^k` leaves followed by at most `2^k` leaves splits at `2^k`. -/
theorem rootH_split (hf : HashFns) (k : Nat) (a b : List Bytes) (ha : a.length = 2 ^ k)
    (hb0 : 0 < b.length) (hb : b.length ≤ 2 ^ k) :
    rootH hf (a ++ b) = hf.branch (rootH hf a) (rootH hf b) := by
  have hp : 0 < 2 ^ k := Nat.pow_pos (by decide)
  have hlen : (a ++ b).length = 2 ^ k + b.length := by simp [ha]
  have hsp : splitPoint (a ++ b).length = 2 ^ k := by
    unfold splitPoint
    rw [hlen, log2_eq_of (k := k)]
    · omega
    · rw [Nat.pow_succ]; omega
  rw [rootH_ge2 hf (a ++ b) (by omega), hsp, ← ha]
  simp

/-! ### the binary counter of perfect subtrees -/

/-- entry `i` holds the leaf hashes of the perfect subtree of `2^(k+i)` leaves, if that bit is set -/
abbrev Ctr := List (Option (List Bytes))

namespace Ctr

def toNat : Ctr → Nat
  | [] => 0
  | o :: r => (if o.isSome then 1 else 0) + 2 * toNat r

/-- the leaves in order (the high entries come first) -/
def flat : Ctr → List Bytes
  | [] => []
  | o :: r => flat r ++ o.getD []

def WF (k : Nat) : Ctr → Prop
  | [] => True
  | o :: r => (∀ s, o = some s → s.length = 2 ^ k) ∧ WF (k + 1) r

/-- no trailing empty entry -/
def Canon : Ctr → Prop
  | [] => True
  | [o] => o.isSome = true
  | _ :: b :: r => Canon (b :: r)

def path (hf : HashFns) : Ctr → List Bytes
  | [] => []
  | none :: r => path hf r
  | some s :: r => rootH hf s :: path hf r

def inc (s : List Bytes) : Ctr → Ctr
  | [] => [some s]
  | none :: r => some s :: r
  | some p :: r => none :: inc (p ++ s) r

/-- number of leading set entries -/
def lead : Ctr → Nat
  | some _ :: r => 1 + lead r
  | _ => 0

theorem flat_inc (s : List Bytes) (c : Ctr) : flat (inc s c) = flat c ++ s := by
  induction c generalizing s with
  | nil => simp [inc, flat]
  | cons o r ih =>
    cases o with
    | none => simp [inc, flat]
    | some p => simp [inc, flat, ih]

theorem toNat_inc (s : List Bytes) (c : Ctr) : toNat (inc s c) = toNat c + 1 := by
  induction c generalizing s with
  | nil => simp [inc, toNat]
  | cons o r ih =>
    cases o with
    | none => simp [inc, toNat]; omega
    | some p => simp [inc, toNat, ih]; omega

theorem WF_inc {k : Nat} {s : List Bytes} {c : Ctr} (h : WF k c) (hs : s.length = 2 ^ k) :
    WF k (inc s c) := by
  induction c generalizing s k with
  | nil => simp [inc, WF, hs]
  | cons o r ih =>
    cases o with
    | none => exact ⟨fun s' h' => (by cases h'; exact hs), h.2⟩
    | some p =>
      refine ⟨fun s' h' => (by cases h'), ih h.2 ?_⟩
      have := h.1 p rfl
      simp [this, hs, Nat.pow_succ]; omega

theorem Canon_inc (s : List Bytes) {c : Ctr} (h : Canon c) : Canon (inc s c) := by
  induction c generalizing s with
  | nil => simp [inc, Canon]
  | cons o r ih =>
    cases o with
    | none =>
      cases r with
      | nil => simp [Canon] at h
      | cons b r' => simpa [inc, Canon] using h
    | some p =>
      cases r with
      | nil => simp [inc, Canon]
      | cons b r' =>
        have h' : Canon (b :: r') := by simpa [Canon] using h
        have := ih (p ++ s) h'
        cases hq : inc (p ++ s) (b :: r') with
        | nil => cases b <;> simp [inc] at hq
        | cons x y => rw [hq] at this; simpa [inc, Canon, hq] using this

theorem two_pow_le_toNat {c : Ctr} (h : Canon c) (hne : c ≠ []) : 2 ^ (c.length - 1) ≤ toNat c := by
  induction c with
  | nil => exact absurd rfl hne
  | cons o r ih =>
    cases r with
    | nil =>
      simp [Canon] at h
      simp [toNat, h]
    | cons b r' =>
      have h' : Canon (b :: r') := by simpa [Canon] using h
      have := ih h' (by simp)
      simp only [List.length_cons, toNat] at this ⊢
      have e : 2 ^ (r'.length + 1 + 1 - 1) = 2 * 2 ^ (r'.length + 1 - 1) := by
        rw [show r'.length + 1 + 1 - 1 = (r'.length + 1 - 1) + 1 by omega, Nat.pow_succ]; omega
      rw [e]; omega

theorem lead_le_path (hf : HashFns) (c : Ctr) : lead c ≤ (path hf c).length := by
  induction c with
  | nil => simp [lead]
  | cons o r ih =>
    cases o with
    | none => simp [lead]
    | some p => simp [lead, path]; omega

end Ctr

/-! ### the loops of `Append` on a counter -/

theorem foldBits_zero (hf : HashFns) (f : Nat) (path : List Bytes) (cur : Bytes) :
    foldBits hf f 0 path cur = some cur := by
  induction f with
  | zero => rfl
  | succ f ih => simp [foldBits, ih]

/-- with enough iterations the bit loop folds the whole path -/
theorem foldBits_ctr (hf : HashFns) (c : Ctr) (f : Nat) (cur : Bytes) (hf' : c.length ≤ f) :
    foldBits hf f (Ctr.toNat c) (Ctr.path hf c) cur = some (foldPath hf cur (Ctr.path hf c)) := by
  induction c generalizing f cur with
  | nil => simp [Ctr.toNat, Ctr.path, foldBits_zero, foldPath]
  | cons o r ih =>
    cases f with
    | zero => simp at hf'
    | succ f =>
      have hl : r.length ≤ f := by simpa using hf'
      cases o with
      | none =>
        have e1 : (Ctr.toNat (none :: r)) % 2 = 0 := by simp [Ctr.toNat]
        have e2 : (Ctr.toNat (none :: r)) / 2 = Ctr.toNat r := by simp [Ctr.toNat]
        simp [foldBits, e1, e2, Ctr.path, ih f cur hl]
      | some p =>
        have e1 : (Ctr.toNat (some p :: r)) % 2 = 1 := by simp [Ctr.toNat]
        have e2 : (Ctr.toNat (some p :: r)) / 2 = Ctr.toNat r := by simp [Ctr.toNat]; omega
        simp [foldBits, e1, e2, Ctr.path, ih f _ hl, foldPath]

/-- folding the path over the root of a short tail gives the root of the whole list -/
theorem foldPath_ctr (hf : HashFns) (c : Ctr) (k : Nat) (t : List Bytes) (hw : Ctr.WF k c)
    (ht0 : 0 < t.length) (ht : t.length ≤ 2 ^ k) :
    foldPath hf (rootH hf t) (Ctr.path hf c) = rootH hf (Ctr.flat c ++ t) := by
  induction c generalizing k t with
  | nil => simp [Ctr.path, Ctr.flat, foldPath]
  | cons o r ih =>
    cases o with
    | none =>
      have := ih (k + 1) t hw.2 ht0 (by rw [Nat.pow_succ]; omega)
      simpa [Ctr.path, Ctr.flat] using this
    | some p =>
      have hp := hw.1 p rfl
      have := ih (k + 1) (p ++ t) hw.2 (by simp; omega) (by simp [hp, Nat.pow_succ]; omega)
      simp only [Ctr.path, Ctr.flat, Option.getD_some, foldPath, List.foldl_cons, List.append_assoc]
      rw [← rootH_split hf k p t hp ht0 ht]
      simpa [foldPath] using this

theorem trailingOnes_ctr (c : Ctr) (f : Nat) (hf' : c.length ≤ f) :
    trailingOnes f (Ctr.toNat c) = Ctr.lead c := by
  induction c generalizing f with
  | nil => cases f <;> simp [trailingOnes, Ctr.toNat, Ctr.lead]
  | cons o r ih =>
    cases f with
    | zero => simp at hf'
    | succ f =>
      have hl : r.length ≤ f := by simpa using hf'
      cases o with
      | none =>
        have e1 : (Ctr.toNat (none :: r)) % 2 = 0 := by simp [Ctr.toNat]
        simp [trailingOnes, e1, Ctr.lead]
      | some p =>
        have e1 : (Ctr.toNat (some p :: r)) % 2 = 1 := by simp [Ctr.toNat]
        have e2 : (Ctr.toNat (some p :: r)) / 2 = Ctr.toNat r := by simp [Ctr.toNat]; omega
        simp [trailingOnes, e1, e2, Ctr.lead, ih f hl]

/-- the new append path is the path of the incremented counter -/
theorem nextPath_ctr (hf : HashFns) (c : Ctr) (k : Nat) (s : List Bytes) (hw : Ctr.WF k c)
    (hs : s.length = 2 ^ k) :
    foldPath hf (rootH hf s) ((Ctr.path hf c).take (Ctr.lead c)) :: (Ctr.path hf c).drop (Ctr.lead c)
      = Ctr.path hf (Ctr.inc s c) := by
  induction c generalizing k s with
  | nil => simp [Ctr.path, Ctr.lead, Ctr.inc, foldPath]
  | cons o r ih =>
    cases o with
    | none => simp [Ctr.path, Ctr.lead, Ctr.inc, foldPath]
    | some p =>
      have hp := hw.1 p rfl
      have hpos : 0 < 2 ^ k := Nat.pow_pos (by decide)
      have := ih (k + 1) (p ++ s) hw.2 (by simp [hp, hs, Nat.pow_succ]; omega)
      rw [rootH_split hf k p s hp (by omega) (by omega)] at this
      simpa [Ctr.path, Ctr.lead, Ctr.inc, foldPath, Nat.add_comm 1] using this

/-! ### the append path is the list of peaks -/

theorem peaksDesc_cons (hf : HashFns) (l : List Bytes) (h : l ≠ []) :
    peaksDesc hf l = rootH hf (l.take (2 ^ Nat.log2 l.length)) :: peaksDesc hf (l.drop (2 ^ Nat.log2 l.length)) := by
  match l, h with
  | a :: r, _ => rw [peaksDesc]; simp only [List.length_cons]

theorem peaksDesc_append (hf : HashFns) (k : Nat) (s : List Bytes) (hs : s.length = 2 ^ k) :
    ∀ (n : Nat) (l : List Bytes), l.length = n → 2 ^ (k + 1) ∣ l.length →
      peaksDesc hf (l ++ s) = peaksDesc hf l ++ [rootH hf s] := by
  have hk : 0 < 2 ^ k := Nat.pow_pos (by decide)
  intro n
  induction n using Nat.strongRecOn with
  | _ n ih =>
    intro l hn hd
    by_cases hl : l = []
    · subst hl
      have hsne : s ≠ [] := by intro h; simp [h] at hs; omega
      rw [List.nil_append, peaksDesc_cons hf s hsne, hs, Nat.log2_two_pow, ← hs]
      simp [peaksDesc]
    · have hL : 0 < l.length := List.length_pos_iff.mpr hl
      have hP : 0 < 2 ^ (k + 1) := Nat.pow_pos (by decide)
      have hPL : 2 ^ (k + 1) ≤ l.length := Nat.le_of_dvd hL hd
      have hj : k + 1 ≤ Nat.log2 l.length := (Nat.le_log2 (by omega)).2 hPL
      have hK : 2 ^ Nat.log2 l.length ≤ l.length := Nat.log2_self_le (by omega)
      have hKpos : 0 < 2 ^ Nat.log2 l.length := Nat.pow_pos (by decide)
      have hlt : l.length < 2 ^ (Nat.log2 l.length + 1) := Nat.lt_log2_self
      have hdK : 2 ^ (k + 1) ∣ 2 ^ Nat.log2 l.length := Nat.pow_dvd_pow 2 hj
      have hdK1 : 2 ^ (k + 1) ∣ 2 ^ (Nat.log2 l.length + 1) := Nat.pow_dvd_pow 2 (by omega)
      have hbound : l.length + 2 ^ (k + 1) ≤ 2 ^ (Nat.log2 l.length + 1) := by
        obtain ⟨m, hm⟩ := hd
        obtain ⟨q, hq⟩ := hdK1
        have hlt' : 2 ^ (k + 1) * m < 2 ^ (k + 1) * q := by rw [← hm, ← hq]; exact hlt
        have : m < q := Nat.lt_of_mul_lt_mul_left hlt'
        have := Nat.mul_le_mul_left (2 ^ (k + 1)) (show m + 1 ≤ q by omega)
        rw [Nat.mul_succ] at this
        rw [hq]; omega
      have hlog : Nat.log2 (l ++ s).length = Nat.log2 l.length := by
        apply log2_eq_of
        · simp; omega
        · simp [hs]; rw [Nat.pow_succ 2 k] at hbound; omega
      have hne : l ++ s ≠ [] := by simp [hl]
      rw [peaksDesc_cons hf (l ++ s) hne, hlog, peaksDesc_cons hf l hl]
      rw [List.take_append_of_le_length hK, List.drop_append_of_le_length hK]
      rw [ih (l.length - 2 ^ Nat.log2 l.length) (by omega) (l.drop (2 ^ Nat.log2 l.length)) (by simp)
        (by simp; exact Nat.dvd_sub hd hdK)]
      simp

theorem Ctr.dvd_flat {k : Nat} {c : Ctr} (h : Ctr.WF k c) : 2 ^ k ∣ (Ctr.flat c).length := by
  induction c generalizing k with
  | nil => simp [Ctr.flat]
  | cons o r ih =>
    have h2 : 2 ^ k ∣ (Ctr.flat r).length := by
      have := ih h.2
      exact Nat.dvd_trans (Nat.pow_dvd_pow 2 (by omega)) this
    cases o with
    | none => simpa [Ctr.flat] using h2
    | some p =>
      have hp := h.1 p rfl
      simp only [Ctr.flat, Option.getD_some, List.length_append, hp]
      exact (Nat.dvd_add_right h2).2 (Nat.dvd_refl _)

theorem Ctr.path_reverse_eq_peaksDesc (hf : HashFns) {k : Nat} {c : Ctr} (h : Ctr.WF k c) :
    (Ctr.path hf c).reverse = peaksDesc hf (Ctr.flat c) := by
  induction c generalizing k with
  | nil => simp [Ctr.path, Ctr.flat, peaksDesc]
  | cons o r ih =>
    cases o with
    | none => simpa [Ctr.path, Ctr.flat] using ih h.2
    | some p =>
      have hp := h.1 p rfl
      simp only [Ctr.path, Ctr.flat, Option.getD_some, List.reverse_cons]
      rw [peaksDesc_append hf k p hp _ _ rfl (Ctr.dvd_flat h.2), ih h.2]

theorem Ctr.path_eq_peaks (hf : HashFns) {k : Nat} {c : Ctr} (h : Ctr.WF k c) :
    Ctr.path hf c = peaks hf (Ctr.flat c) := by
  unfold peaks; rw [← Ctr.path_reverse_eq_peaksDesc hf h]; simp

theorem le_two_pow_clog2 (n : Nat) (h : 1 ≤ n) : n ≤ 2 ^ clog2 n := by
  unfold clog2
  split
  · omega
  · have := @Nat.lt_log2_self (n - 1); omega

theorem lt_two_pow_getHeight (n : Nat) (h : 1 ≤ n) : n < 2 ^ getHeight n := by
  have := le_two_pow_clog2 n h
  unfold getHeight; rw [Nat.pow_succ]; omega

theorem Ctr.length_le_of_lt {c : Ctr} (hc : Ctr.Canon c) {f : Nat} (h : Ctr.toNat c < 2 ^ f) : c.length ≤ f := by
  by_cases hne : c = []
  · simp [hne]
  · have h1 := Ctr.two_pow_le_toNat hc hne
    have : 2 ^ (c.length - 1) < 2 ^ f := by omega
    have := (Nat.pow_lt_pow_iff_right (a := 2) (by decide)).1 this
    have : 0 < c.length := List.length_pos_iff.mpr hne
    omega

def coreOf (hf : HashFns) (c : Ctr) : Core := ⟨rootH hf (Ctr.flat c), Ctr.path hf c, Ctr.toNat c⟩

theorem Ctr.eq_nil_of_toNat_zero {c : Ctr} (hc : Ctr.Canon c) (h : Ctr.toNat c = 0) : c = [] := by
  by_cases hne : c = []
  · exact hne
  · have h1 := Ctr.two_pow_le_toNat hc hne
    have : 0 < 2 ^ (c.length - 1) := Nat.pow_pos (by decide)
    omega

theorem rootH_singleton (hf : HashFns) (x : Bytes) : rootH hf [x] = x := by rw [rootH]

theorem appendCore_ctr (hf : HashFns) (c : Ctr) (hw : Ctr.WF 0 c) (hc : Ctr.Canon c) (v : Bytes) :
    appendCore hf (coreOf hf c) v = some (coreOf hf (Ctr.inc [hf.leaf v] c)) := by
  by_cases hz : Ctr.toNat c = 0
  · have := Ctr.eq_nil_of_toNat_zero hc hz
    subst this
    simp [appendCore, coreOf, Ctr.toNat, Ctr.flat, Ctr.path, Ctr.inc, rootH_singleton]
  · have hpos : 1 ≤ Ctr.toNat c := by omega
    have hlen : c.length ≤ getHeight (Ctr.toNat c) :=
      Ctr.length_le_of_lt hc (lt_two_pow_getHeight _ hpos)
    have hfold := foldBits_ctr hf c (getHeight (Ctr.toNat c)) (hf.leaf v) hlen
    have hroot := foldPath_ctr hf c 0 [hf.leaf v] hw (by simp) (by simp)
    rw [rootH_singleton] at hroot
    have hnext := nextPath_ctr hf c 0 [hf.leaf v] hw (by simp)
    rw [rootH_singleton] at hnext
    have hto := trailingOnes_ctr c (getHeight (Ctr.toNat c)) hlen
    have hle := Ctr.lead_le_path hf c
    simp only [appendCore, coreOf, hz, if_false, hfold, nextPath, hto]
    rw [if_neg (by omega)]
    simp only [hroot, hnext, Ctr.flat_inc, Ctr.toNat_inc]

/-- both `Append` and `CalculateRootFromAppendPath` with any sufficient number of iterations -/
theorem step_ctr (hf : HashFns) (c : Ctr) (hw : Ctr.WF 0 c) (hc : Ctr.Canon c) (v : Bytes)
    (hz : Ctr.toNat c ≠ 0) (f : Nat) (hlen : c.length ≤ f) :
    (match foldBits hf f (Ctr.toNat c) (Ctr.path hf c) (hf.leaf v),
        nextPath hf (hf.leaf v) (Ctr.path hf c) (Ctr.toNat c) with
      | some r, some p => some (⟨r, p, Ctr.toNat c + 1⟩ : Core)
      | _, _ => none) = some (coreOf hf (Ctr.inc [hf.leaf v] c)) := by
  have hpos : 1 ≤ Ctr.toNat c := by omega
  have hlenH : c.length ≤ getHeight (Ctr.toNat c) :=
    Ctr.length_le_of_lt hc (lt_two_pow_getHeight _ hpos)
  have hfold := foldBits_ctr hf c f (hf.leaf v) hlen
  have hroot := foldPath_ctr hf c 0 [hf.leaf v] hw (by simp) (by simp)
  rw [rootH_singleton] at hroot
  have hnext := nextPath_ctr hf c 0 [hf.leaf v] hw (by simp)
  rw [rootH_singleton] at hnext
  have hto := trailingOnes_ctr c (getHeight (Ctr.toNat c)) hlenH
  have hle := Ctr.lead_le_path hf c
  simp only [coreOf, hfold, nextPath, hto]
  rw [if_neg (by omega)]
  simp only [hroot, hnext, Ctr.flat_inc, Ctr.toNat_inc]

theorem rootFromAppendPath_ctr (hf : HashFns) (c : Ctr) (hw : Ctr.WF 0 c) (hc : Ctr.Canon c) (v : Bytes) :
    rootFromAppendPath hf v (Ctr.path hf c) (Ctr.toNat c) = some (coreOf hf (Ctr.inc [hf.leaf v] c)) := by
  by_cases hz : Ctr.toNat c = 0
  · have := Ctr.eq_nil_of_toNat_zero hc hz
    subst this
    simp [rootFromAppendPath, coreOf, Ctr.toNat, Ctr.flat, Ctr.path, Ctr.inc, rootH_singleton]
  · have hlen : c.length ≤ Nat.log2 (Ctr.toNat c) + 1 := Ctr.length_le_of_lt hc Nat.lt_log2_self
    have := step_ctr hf c hw hc v hz _ hlen
    simp only [rootFromAppendPath, hz, if_false]
    exact this

/-- the counter after appending the given leaf hashes -/
def ctrFrom (c : Ctr) (hs : List Bytes) : Ctr :=
  hs.foldl (fun c h => Ctr.inc [h] c) c

theorem ctrFrom_inv (c : Ctr) (hs : List Bytes) (hw : Ctr.WF 0 c) (hc : Ctr.Canon c) :
    Ctr.WF 0 (ctrFrom c hs) ∧ Ctr.Canon (ctrFrom c hs) ∧
    Ctr.flat (ctrFrom c hs) = Ctr.flat c ++ hs ∧
    Ctr.toNat (ctrFrom c hs) = Ctr.toNat c + hs.length := by
  induction hs generalizing c with
  | nil => simp [ctrFrom, hw, hc]
  | cons v vs ih =>
    have hw' := Ctr.WF_inc (s := [v]) hw (by simp)
    have hc' := Ctr.Canon_inc [v] hc
    obtain ⟨a, b, d, e⟩ := ih (Ctr.inc [v] c) hw' hc'
    refine ⟨a, b, ?_, ?_⟩
    · simp only [ctrFrom, List.foldl_cons] at d ⊢
      rw [d, Ctr.flat_inc]; simp
    · simp only [ctrFrom, List.foldl_cons] at e ⊢
      rw [e, Ctr.toNat_inc]; simp; omega

theorem appendAll_ctr (hf : HashFns) (c : Ctr) (data : List Bytes) (hw : Ctr.WF 0 c) (hc : Ctr.Canon c) :
    appendAll hf (coreOf hf c) data = some (coreOf hf (ctrFrom c (data.map hf.leaf))) := by
  induction data generalizing c with
  | nil => simp [appendAll, ctrFrom]
  | cons v vs ih =>
    have hw' := Ctr.WF_inc (s := [hf.leaf v]) hw (by simp)
    have hc' := Ctr.Canon_inc [hf.leaf v] hc
    simp only [appendAll, appendCore_ctr hf c hw hc v]
    rw [ih _ hw' hc']
    simp [ctrFrom]

/-- bagging the peaks from the smallest to the largest gives the root -/
theorem rootFromPath_ctr (hf : HashFns) (c : Ctr) (k : Nat) (hw : Ctr.WF k c) :
    rootFromPath hf (Ctr.path hf c) = rootH hf (Ctr.flat c) := by
  induction c generalizing k with
  | nil => simp [Ctr.path, Ctr.flat, rootFromPath]; rw [rootH]
  | cons o r ih =>
    cases o with
    | none => simpa [Ctr.path, Ctr.flat] using ih (k + 1) hw.2
    | some p =>
      have hp := hw.1 p rfl
      have hpos : 0 < 2 ^ k := Nat.pow_pos (by decide)
      have := foldPath_ctr hf r (k + 1) p hw.2 (by omega) (by rw [hp, Nat.pow_succ]; omega)
      simpa [Ctr.path, Ctr.flat, rootFromPath] using this

/-- every list of leaf hashes is the content of a well-formed canonical counter -/
theorem exists_ctr (hs : List Bytes) :
    ∃ c : Ctr, Ctr.WF 0 c ∧ Ctr.Canon c ∧ Ctr.flat c = hs ∧ Ctr.toNat c = hs.length := by
  have := ctrFrom_inv [] hs (by simp [Ctr.WF]) (by simp [Ctr.Canon])
  exact ⟨ctrFrom [] hs, this.1, this.2.1, by simpa [Ctr.flat] using this.2.2.1, by simpa [Ctr.toNat] using this.2.2.2⟩

theorem rootFromPath_peaks (hf : HashFns) (hs : List Bytes) : rootFromPath hf (peaks hf hs) = rootH hf hs := by
  obtain ⟨c, hw, _, hfl, _⟩ := exists_ctr hs
  rw [← hfl, ← Ctr.path_eq_peaks hf hw, rootFromPath_ctr hf c 0 hw]

/-! ### inclusion paths -/

theorem pathSpec_ge2 (hf : HashFns) (l : List Bytes) (i : Nat) (h : 2 ≤ l.length) :
    pathSpec hf l i =
      if i < splitPoint l.length then
        pathSpec hf (l.take (splitPoint l.length)) i ++ [(true, rootH hf (l.drop (splitPoint l.length)))]
      else
        pathSpec hf (l.drop (splitPoint l.length)) (i - splitPoint l.length)
          ++ [(false, rootH hf (l.take (splitPoint l.length)))] := by
  match l, h with
  | a :: b :: r, _ => rw [pathSpec]; simp only [List.length_cons]

theorem pathSpec_lt2 (hf : HashFns) (l : List Bytes) (i : Nat) (h : l.length < 2) : pathSpec hf l i = [] := by
  match l, h with
  | [], _ => rw [pathSpec]
  | [_], _ => rw [pathSpec]

theorem foldProof_append (hf : HashFns) (h : Bytes) (p q : List (Bool × Bytes)) :
    foldProof hf h (p ++ q) = foldProof hf (foldProof hf h p) q := by
  simp [foldProof, List.foldl_append]

/-- completeness of the LIP-0031 inclusion path -/
theorem foldProof_pathSpec (hf : HashFns) :
    ∀ (n : Nat) (l : List Bytes) (i : Nat) (h : Bytes), l.length = n → l[i]? = some h →
      foldProof hf h (pathSpec hf l i) = rootH hf l := by
  intro n
  induction n using Nat.strongRecOn with
  | _ n ih =>
    intro l i h hn hi
    have hil : i < l.length := by
      rcases Nat.lt_or_ge i l.length with h' | h'
      · exact h'
      · rw [List.getElem?_eq_none h'] at hi; cases hi
    by_cases h2 : l.length < 2
    · rw [pathSpec_lt2 hf l i h2]
      match l, h2 with
      | [x], _ =>
        have : i = 0 := by simp at hil; omega
        subst this; simp at hi; subst hi
        simp [foldProof, rootH_singleton]
      | [], _ => simp at hil
    · have hge : 2 ≤ l.length := by omega
      have hk := @splitPoint_lt l.length hge
      have hk0 := splitPoint_pos l.length
      rw [pathSpec_ge2 hf l i hge, rootH_ge2 hf l hge]
      split
      · rename_i hlt
        rw [foldProof_append]
        rw [ih (l.take (splitPoint l.length)).length (by simp; omega) _ i h rfl
          (by rw [List.getElem?_take]; simp [hlt, hi])]
        simp [foldProof]
      · rename_i hge'
        rw [foldProof_append]
        rw [ih (l.drop (splitPoint l.length)).length (by simp; omega) _ (i - splitPoint l.length) h rfl
          (by rw [List.getElem?_drop]; rw [show splitPoint l.length + (i - splitPoint l.length) = i by omega]; exact hi)]
        simp [foldProof]

def BranchInj (hf : HashFns) : Prop :=
  ∀ a b c d : Bytes, hf.branch a b = hf.branch c d → a = c ∧ b = d

/-- soundness: a path of the shape of leaf `i` that folds to the root starts at leaf `i` and is its path -/
theorem foldProof_sound (hf : HashFns) (hinj : BranchInj hf) :
    ∀ (n : Nat) (l : List Bytes) (i : Nat) (h : Bytes) (p : List (Bool × Bytes)), l.length = n → i < l.length →
      p.map (·.1) = (pathSpec hf l i).map (·.1) → foldProof hf h p = rootH hf l →
      l[i]? = some h ∧ p = pathSpec hf l i := by
  intro n
  induction n using Nat.strongRecOn with
  | _ n ih =>
    intro l i h p hn hil hshape hfold
    by_cases h2 : l.length < 2
    · rw [pathSpec_lt2 hf l i h2] at hshape ⊢
      have hp : p = [] := by simpa using hshape
      subst hp
      match l, h2 with
      | [x], _ =>
        have : i = 0 := by simp at hil; omega
        subst this
        simp [foldProof, rootH_singleton] at hfold
        simp [hfold]
      | [], _ => simp at hil
    · have hge : 2 ≤ l.length := by omega
      have hk := @splitPoint_lt l.length hge
      have hk0 := splitPoint_pos l.length
      rw [pathSpec_ge2 hf l i hge] at hshape ⊢
      rw [rootH_ge2 hf l hge] at hfold
      split at hshape
      · rename_i hlt
        rw [if_pos hlt]
        simp only [List.map_append, List.map_cons, List.map_nil] at hshape
        obtain ⟨p', q', hp, hp', hq'⟩ := List.map_eq_append_iff.mp hshape
        obtain ⟨y, hq⟩ : ∃ y, q' = [(true, y)] := by
          match q', hq' with
          | [(b, y)], hq' => simp at hq'; exact ⟨y, by rw [hq']⟩
        subst hp; subst hq
        rw [foldProof_append] at hfold
        simp only [foldProof, List.foldl_cons, List.foldl_nil, if_true] at hfold
        obtain ⟨e1, e2⟩ := hinj _ _ _ _ hfold
        have := ih (l.take (splitPoint l.length)).length (by simp; omega) _ i h p' rfl (by simp; omega) hp' e1
        rw [List.getElem?_take] at this
        simp only [hlt, if_true] at this
        exact ⟨this.1, by rw [this.2, e2]⟩
      · rename_i hge'
        rw [if_neg hge']
        simp only [List.map_append, List.map_cons, List.map_nil] at hshape
        obtain ⟨p', q', hp, hp', hq'⟩ := List.map_eq_append_iff.mp hshape
        obtain ⟨y, hq⟩ : ∃ y, q' = [(false, y)] := by
          match q', hq' with
          | [(b, y)], hq' => simp at hq'; exact ⟨y, by rw [hq']⟩
        subst hp; subst hq
        rw [foldProof_append] at hfold
        simp only [foldProof, List.foldl_cons, List.foldl_nil] at hfold
        obtain ⟨e1, e2⟩ := hinj _ _ _ _ hfold
        have := ih (l.drop (splitPoint l.length)).length (by simp; omega) _ (i - splitPoint l.length) h p' rfl
          (by simp; omega) hp' e2
        rw [List.getElem?_drop, show splitPoint l.length + (i - splitPoint l.length) = i by omega] at this
        exact ⟨this.1, by rw [this.2, e1]⟩

end LiskVerif.RMT
