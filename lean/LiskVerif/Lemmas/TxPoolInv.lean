/- The invariant of the transaction-pool model (C14) and its preservation by `remove` and `evict`. -/
import LiskVerif.Lemmas.TxPool

namespace LiskVerif.TxPool

/-- invariant of one sender list registered under sender `s` -/
structure AcctInv (cfg : Cfg) (s : Nat) (a : Acct) : Prop where
  nonempty : a.txs ≠ []
  nodup : (a.txs.map (·.nonce)).Nodup
  sender : ∀ t ∈ a.txs, t.sender = s
  bound : a.txs.length ≤ cfg.maxPerAcct
  gapfree : GapFree a.proc
  procIn : ∀ n ∈ a.proc, ∃ t ∈ a.txs, t.nonce = n

/-- the pool invariant: holds for the empty pool and is preserved by every operation -/
structure C14Inv (cfg : Cfg) (p : Pool) : Prop where
  noFault : p.fault = false
  allNodup : (p.all.map (·.id)).Nodup
  acctsNodup : (p.accts.map (·.1)).Nodup
  acctOk : ∀ e ∈ p.accts, AcctInv cfg e.1 e.2
  allInAcct : ∀ t ∈ p.all, ∃ a, (t.sender, a) ∈ p.accts ∧ t ∈ a.txs
  acctInAll : ∀ e ∈ p.accts, ∀ t ∈ e.2.txs, t ∈ p.all
  heapPerm : p.heap.Perm p.all
  bounded : p.all.length ≤ cfg.maxTx

/-! ### the sender map -/

theorem findAcct_some {accts : List (Nat × Acct)} {s : Nat} {a : Acct} (h : findAcct accts s = some a) :
    (s, a) ∈ accts := by
  unfold findAcct at h
  cases hf : accts.find? (fun e => e.1 == s) with
  | none => rw [hf] at h; cases h
  | some e =>
    rw [hf] at h
    have h1 := List.mem_of_find?_eq_some hf
    have h2 : e.1 = s := by simpa using List.find?_some hf
    have h3 : e.2 = a := by simpa using h
    rw [← h2, ← h3]; exact h1

theorem findAcct_none {accts : List (Nat × Acct)} {s : Nat} (h : findAcct accts s = none) :
    ∀ e ∈ accts, e.1 ≠ s := by
  unfold findAcct at h
  cases hf : accts.find? (fun e => e.1 == s) with
  | some e => rw [hf] at h; cases h
  | none =>
    intro e he
    have := List.find?_eq_none.1 hf e he
    simpa using this

theorem findAcct_of_mem {accts : List (Nat × Acct)} (hn : (accts.map (·.1)).Nodup) {s : Nat} {a : Acct}
    (h : (s, a) ∈ accts) : findAcct accts s = some a := by
  cases hf : findAcct accts s with
  | none => exact absurd rfl (findAcct_none hf (s, a) h)
  | some a' =>
    have h' := findAcct_some hf
    have := inj_of_nodup_map _ _ hn (s, a') h' (s, a) h rfl
    rw [(Prod.mk.inj this).2]

theorem mem_delAcct {accts : List (Nat × Acct)} {s : Nat} {e : Nat × Acct} :
    e ∈ delAcct accts s ↔ e ∈ accts ∧ e.1 ≠ s := by
  unfold delAcct; rw [List.mem_filter]; simp

theorem mem_setAcct {accts : List (Nat × Acct)} {s : Nat} {a : Acct} {e : Nat × Acct} :
    e ∈ setAcct accts s a ↔ e = (s, a) ∨ (e ∈ accts ∧ e.1 ≠ s) := by
  unfold setAcct; rw [List.mem_cons, mem_delAcct]

theorem nodup_delAcct {accts : List (Nat × Acct)} (s : Nat) (hn : (accts.map (·.1)).Nodup) :
    ((delAcct accts s).map (·.1)).Nodup := nodup_map_filter _ _ _ hn

theorem nodup_setAcct {accts : List (Nat × Acct)} (s : Nat) (a : Acct) (hn : (accts.map (·.1)).Nodup) :
    ((setAcct accts s a).map (·.1)).Nodup := by
  unfold setAcct
  rw [List.map_cons, List.nodup_cons]
  refine ⟨?_, nodup_delAcct s hn⟩
  intro hm
  obtain ⟨e, he, hes⟩ := List.mem_map.1 hm
  exact (mem_delAcct.1 he).2 hes

/-! ### removing from a sender list -/

theorem acct_remove_spec (a : Acct) (n : Nat) :
    (a.get n = none ∧ a.remove n = (a, none)) ∨
    (∃ t, a.get n = some t ∧
      a.remove n = ({ txs := a.txs.filter (fun x => x.nonce != n), proc := demote a.proc n }, some t)) := by
  unfold Acct.remove
  cases h : a.get n with
  | none => left; exact ⟨rfl, rfl⟩
  | some t => right; exact ⟨t, rfl, rfl⟩

/-- the parts of `AcctInv` that survive dropping the transaction at nonce `n` -/
theorem acctInv_filter {cfg : Cfg} {s : Nat} {a : Acct} (h : AcctInv cfg s a) (n : Nat)
    (hne : a.txs.filter (fun x => x.nonce != n) ≠ []) :
    AcctInv cfg s { txs := a.txs.filter (fun x => x.nonce != n), proc := demote a.proc n } := by
  refine ⟨hne, nodup_map_filter _ _ _ h.nodup, ?_, ?_, gapFree_demote _ _ h.gapfree, ?_⟩
  · intro t ht; exact h.sender t (List.mem_filter.1 ht).1
  · exact Nat.le_trans (List.length_filter_le _ _) h.bound
  · intro m hm
    rw [mem_demote] at hm
    obtain ⟨t, ht, htn⟩ := h.procIn m hm.1
    refine ⟨t, List.mem_filter.2 ⟨ht, ?_⟩, htn⟩
    simp; omega

/-! ### `remove` -/

theorem remove_all_subset (p : Pool) (id : Nat) : ∀ t ∈ (remove p id).1.all, t ∈ p.all := by
  unfold remove
  intro t
  split
  · exact fun h => h
  · split
    · intro h; exact (List.mem_filter.1 h).1
    · intro h; exact (List.mem_filter.1 h).1

theorem length_filter_lt {α : Type} (q : α → Bool) (l : List α) (x : α) (hx : x ∈ l) (hq : q x = false) :
    (l.filter q).length < l.length :=
  List.length_filter_lt_length_iff_exists.2 ⟨x, hx, by simp [hq]⟩

/-- `remove` of a pooled transaction, under the invariant, in explicit form -/
theorem remove_spec {cfg : Cfg} {p : Pool} (h : C14Inv cfg p) {t : Tx} (ht : t ∈ p.all) :
    ∃ a, (t.sender, a) ∈ p.accts ∧ t ∈ a.txs ∧
      remove p t.id =
        ({ all := p.all.filter (fun x => x.id != t.id),
           accts := if (a.txs.filter (fun x => x.nonce != t.nonce)).isEmpty then delAcct p.accts t.sender
                    else setAcct p.accts t.sender
                      { txs := a.txs.filter (fun x => x.nonce != t.nonce), proc := demote a.proc t.nonce },
           heap := p.all.filter (fun x => x.id != t.id),
           fault := p.fault }, true) := by
  obtain ⟨a, ha, hta⟩ := h.allInAcct t ht
  refine ⟨a, ha, hta, ?_⟩
  have hfind : p.all.find? (fun x => x.id == t.id) = some t := by
    cases hf : p.all.find? (fun x => x.id == t.id) with
    | none =>
      have := List.find?_eq_none.1 hf t ht
      simp at this
    | some t' =>
      have h1 := List.mem_of_find?_eq_some hf
      have h2 : t'.id = t.id := by simpa using List.find?_some hf
      rw [inj_of_nodup_map _ _ h.allNodup t' h1 t ht h2]
  have hacct := findAcct_of_mem h.acctsNodup ha
  have hget := get_of_mem (h.acctOk _ ha).nodup hta
  unfold remove
  rw [hfind]
  simp only [hacct]
  rcases acct_remove_spec a t.nonce with ⟨hn, _⟩ | ⟨t', _, hr⟩
  · rw [hget] at hn; cases hn
  · rw [hr]

theorem remove_not_mem {p : Pool} {id : Nat} (h : ∀ t ∈ p.all, t.id ≠ id) : remove p id = (p, false) := by
  unfold remove
  have : p.all.find? (fun t => t.id == id) = none := by
    rw [List.find?_eq_none]; intro x hx; simpa using h x hx
  rw [this]

theorem remove_inv {cfg : Cfg} {p : Pool} (h : C14Inv cfg p) (id : Nat) : C14Inv cfg (remove p id).1 := by
  by_cases hex : ∃ t ∈ p.all, t.id = id
  · obtain ⟨t, ht, rfl⟩ := hex
    obtain ⟨a, ha, hta, hr⟩ := remove_spec h ht
    rw [hr]
    have hai := h.acctOk _ ha
    -- facts about the other transactions of the pool
    have hother : ∀ x ∈ p.all, x.id ≠ t.id → x.sender = t.sender → x ∈ a.txs ∧ x.nonce ≠ t.nonce := by
      intro x hx hid hs
      obtain ⟨ax, hax, hxax⟩ := h.allInAcct x hx
      rw [hs] at hax
      have := inj_of_nodup_map _ _ h.acctsNodup _ hax _ ha rfl
      have hax' : ax = a := (Prod.mk.inj this).2
      subst hax'
      refine ⟨hxax, ?_⟩
      intro hn
      exact hid (congrArg Tx.id (inj_of_nodup_map _ _ hai.nodup x hxax t hta hn))
    have hmemA' : ∀ x, x ∈ a.txs.filter (fun x => x.nonce != t.nonce) → x ∈ p.all ∧ x.id ≠ t.id := by
      intro x hx
      obtain ⟨hxa, hxn⟩ := List.mem_filter.1 hx
      have hxall := h.acctInAll _ ha x hxa
      refine ⟨hxall, ?_⟩
      intro hid
      have := inj_of_nodup_map _ _ h.allNodup x hxall t ht hid
      subst this; simp at hxn
    refine ⟨h.noFault, nodup_map_filter _ _ _ h.allNodup, ?_, ?_, ?_, ?_, List.Perm.refl _,
      Nat.le_trans (List.length_filter_le _ _) h.bounded⟩
    · split
      · exact nodup_delAcct _ h.acctsNodup
      · exact nodup_setAcct _ _ h.acctsNodup
    · intro e he
      split at he
      · exact h.acctOk e (mem_delAcct.1 he).1
      · rename_i hne
        rcases mem_setAcct.1 he with rfl | he
        · exact acctInv_filter hai _ (by simpa using hne)
        · exact h.acctOk e he.1
    · intro x hx
      obtain ⟨hxall, hxid⟩ := List.mem_filter.1 hx
      have hxid : x.id ≠ t.id := by simpa using hxid
      by_cases hs : x.sender = t.sender
      · obtain ⟨hxa, hxn⟩ := hother x hxall hxid hs
        have hmem : x ∈ a.txs.filter (fun x => x.nonce != t.nonce) :=
          List.mem_filter.2 ⟨hxa, by simpa using hxn⟩
        have hne : (a.txs.filter (fun x => x.nonce != t.nonce)).isEmpty = false := by
          cases hf : a.txs.filter (fun x => x.nonce != t.nonce) with
          | nil => rw [hf] at hmem; cases hmem
          | cons _ _ => rfl
        rw [hne]
        refine ⟨{ txs := a.txs.filter (fun x => x.nonce != t.nonce), proc := demote a.proc t.nonce }, ?_, hmem⟩
        rw [hs]; exact mem_setAcct.2 (Or.inl rfl)
      · obtain ⟨ax, hax, hxax⟩ := h.allInAcct x hxall
        refine ⟨ax, ?_, hxax⟩
        split
        · exact mem_delAcct.2 ⟨hax, hs⟩
        · exact mem_setAcct.2 (Or.inr ⟨hax, hs⟩)
    · intro e he x hx
      have key : (e ∈ p.accts ∧ e.1 ≠ t.sender) → x ∈ p.all.filter (fun x => x.id != t.id) := by
        rintro ⟨hep, hes⟩
        have hxall := h.acctInAll e hep x hx
        refine List.mem_filter.2 ⟨hxall, ?_⟩
        have : x.id ≠ t.id := by
          intro hid
          have := inj_of_nodup_map _ _ h.allNodup x hxall t ht hid
          subst this
          exact hes ((h.acctOk e hep).sender x hx).symm
        simpa using this
      split at he
      · exact key (mem_delAcct.1 he)
      · rcases mem_setAcct.1 he with rfl | he
        · obtain ⟨h1, h2⟩ := hmemA' x hx
          exact List.mem_filter.2 ⟨h1, by simpa using h2⟩
        · exact key he
  · have : ∀ t ∈ p.all, t.id ≠ id := fun t ht hid => hex ⟨t, ht, hid⟩
    rw [remove_not_mem this]; exact h

theorem remove_length_lt {cfg : Cfg} {p : Pool} (h : C14Inv cfg p) {t : Tx} (ht : t ∈ p.all) :
    (remove p t.id).1.all.length < p.all.length := by
  obtain ⟨a, _, _, hr⟩ := remove_spec h ht
  rw [hr]
  exact length_filter_lt _ _ t ht (by simp)

end LiskVerif.TxPool
