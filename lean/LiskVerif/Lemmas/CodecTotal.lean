/-
Totality of the codec model (`LiskVerif.Model.Codec`): no input makes the decoder panic, and the
recursion depth / number of loop iterations is linear in the input length.

* `Safe Q x`: the outcome `x` is not `Err.panic`, and a successful result satisfies `Q`;
* every primitive read that succeeds strictly advances the index and stays inside the buffer
  (`AdvS`), so every loop iteration consumes a byte;
* `decode_safe_aux`: the mutual decoder with fuel `#fields + 42 * rank + 1 + remaining bytes`;
* `decode_fuel_mono_aux`: once the result is not `panic`, more fuel does not change it;
* `costFields` … `costMsgArr`: a call counter following the model's control flow, and
  `decode_cost_aux`: the count is at most `1 + 3 * #fields + 121 * bytes used`, for every fuel.
-/
import LiskVerif.Model.Codec

namespace LiskVerif.Codec

/-! ### outcomes that are not `panic` -/

/-- the outcome is not `panic`; a successful result satisfies `Q` -/
def Safe {α : Type} (Q : α → Prop) : Except Err α → Prop
  | .ok a => Q a
  | .error e => e ≠ .panic

@[simp] theorem safe_ok {α : Type} (Q : α → Prop) (a : α) :
    Safe Q (.ok a : Except Err α) = Q a := rfl

@[simp] theorem safe_error {α : Type} (Q : α → Prop) (e : Err) :
    Safe Q (.error e : Except Err α) = (e ≠ .panic) := rfl

theorem Safe.mono {α : Type} {Q Q' : α → Prop} {x : Except Err α} (h : Safe Q x)
    (hQ : ∀ a, Q a → Q' a) : Safe Q' x := by
  cases x with
  | ok a => exact hQ a h
  | error e => exact h

theorem Safe.ne_panic {α : Type} {Q : α → Prop} {x : Except Err α} (h : Safe Q x) :
    x ≠ .error .panic := by
  intro hc
  subst hc
  exact h rfl

theorem Safe.of_ok {α : Type} {Q : α → Prop} {x : Except Err α} {a : α} (h : Safe Q x)
    (hx : x = .ok a) : Q a := by
  subst hx
  exact h

theorem Safe.of_error {α : Type} {Q : α → Prop} {x : Except Err α} {e : Err} (h : Safe Q x)
    (hx : x = .error e) : e ≠ .panic := by
  subst hx
  exact h

/-! ### progress of the reader -/

/-- same buffer length, index did not go back, and if it moved it is still inside the buffer -/
def Adv (r r' : Reader) : Prop :=
  r'.data.length = r.data.length ∧ r.index ≤ r'.index ∧
    (r'.index = r.index ∨ r'.index ≤ r.data.length)

/-- same buffer length, at least one byte consumed, still inside the buffer -/
def AdvS (r r' : Reader) : Prop :=
  r'.data.length = r.data.length ∧ r.index < r'.index ∧ r'.index ≤ r.data.length

theorem Adv.refl (r : Reader) : Adv r r := ⟨rfl, Nat.le_refl _, Or.inl rfl⟩

theorem readUintLoop_safe : ∀ (fuel : Nat) (b : Bytes) (k acc : Nat),
    Safe (fun p => k < p.2 ∧ p.2 ≤ k + b.length) (readUintLoop b fuel k acc) := by
  intro fuel
  induction fuel with
  | zero => intro b k acc; simp [readUintLoop]
  | succ fuel ih =>
    intro b k acc
    cases b with
    | nil => simp [readUintLoop]
    | cons x rest =>
      simp only [readUintLoop]
      split
      · simp
      · split
        · split
          · simp
          · simp
        · refine (ih rest (k + 1) _).mono ?_
          intro p hp
          simp only [List.length_cons]
          omega

theorem readUint_safe (b : Bytes) :
    Safe (fun p => 0 < p.2 ∧ p.2 ≤ b.length) (readUint b) := by
  unfold readUint
  refine (readUintLoop_safe 10 b 0 0).mono ?_
  intro p hp
  omega

theorem Reader.suffix_length (r : Reader) : r.suffix.length = r.data.length - r.index := by
  simp [Reader.suffix]

theorem Reader.readUInt_safe (r : Reader) : Safe (fun p => AdvS r p.2) r.readUInt := by
  unfold Reader.readUInt
  have h := readUint_safe r.suffix
  split
  · rename_i v size heq
    have := h.of_ok heq
    rw [Reader.suffix_length] at this
    simp only [safe_ok, AdvS, true_and]
    omega
  · rename_i e heq
    exact h.of_error heq

theorem Reader.check_safe (r : Reader) (fn wt : Nat) : Safe (AdvS r) (r.check fn wt) := by
  unfold Reader.check
  have h := readUint_safe r.suffix
  split
  · simp
  · split
    · rename_i e heq
      exact h.of_error heq
    · rename_i key size heq
      have := h.of_ok heq
      rw [Reader.suffix_length] at this
      split
      · rename_i e hk
        unfold readKey at hk
        simp only at hk
        split at hk
        · injection hk with hk
          subst hk
          simp
        · exact absurd hk (by simp)
      · split
        · simp
        · split
          · simp
          · simp only [safe_ok, AdvS, true_and]
            omega

theorem Reader.enter_safe (r : Reader) (fn wt : Nat) (st : Bool) :
    Safe (fun o => ∀ r1, o = some r1 → AdvS r r1) (r.enter fn wt st) := by
  unfold Reader.enter
  have h := r.check_safe fn wt
  split
  · rename_i r1 heq
    have := h.of_ok heq
    simp only [safe_ok]
    intro r1' e
    injection e with e
    subst e
    exact this
  · rename_i e heq
    have := h.of_error heq
    split
    · exact this
    · split
      · exact this
      · simp

theorem Reader.enterArr_safe (r : Reader) (fn wt : Nat) :
    Safe (fun o => ∀ r1, o = some r1 → AdvS r r1) (r.enterArr fn wt) := by
  unfold Reader.enterArr
  have h := r.check_safe fn wt
  split
  · rename_i r1 heq
    have := h.of_ok heq
    simp only [safe_ok]
    intro r1' e
    injection e with e
    subst e
    exact this
  · rename_i e heq
    have := h.of_error heq
    split
    · exact this
    · simp

theorem Reader.readBool_safe (r : Reader) : Safe (fun p => AdvS r p.2) r.readBool := by
  unfold Reader.readBool
  split
  · simp
  · rename_i b hb
    obtain ⟨hlt, _⟩ := List.getElem?_eq_some_iff.mp hb
    split
    · simp
    · simp only [safe_ok, AdvS, true_and]
      omega

theorem Reader.readBytes_safe (r : Reader) : Safe (fun p => AdvS r p.2) r.readBytes := by
  unfold Reader.readBytes
  have h := r.readUInt_safe
  split
  · rename_i e heq
    exact h.of_error heq
  · rename_i size r1 heq
    have := h.of_ok heq
    simp only
    split
    · simp
    · simp only [safe_ok, AdvS] at this ⊢
      omega

theorem Reader.readString_safe (nfc : NFC) (r : Reader) :
    Safe (fun p => AdvS r p.2) (r.readString nfc) := by
  unfold Reader.readString
  have h := r.readBytes_safe
  split
  · rename_i e heq
    exact h.of_error heq
  · rename_i b r1 heq
    have := h.of_ok heq
    split
    · simp
    · split
      · simp
      · exact this

/-- `ReadBytesArray` needs one unit of fuel per remaining byte (plus one for the exit test) -/
theorem readBytesArray_safe : ∀ (fuel : Nat) (r : Reader) (fn : Nat) (acc : List Bytes),
    (r.data.length - r.index) + 1 ≤ fuel →
    Safe (fun p => Adv r p.2) (readBytesArray fuel r fn acc) := by
  intro fuel
  induction fuel with
  | zero => intro r fn acc h; omega
  | succ fuel ih =>
    intro r fn acc hf
    unfold readBytesArray
    split
    · have he := r.enterArr_safe fn 2
      split
      · rename_i e heq
        exact he.of_error heq
      · simp [Adv]
      · rename_i r1 heq
        have h1 := he.of_ok heq r1 rfl
        have hb := r1.readBytes_safe
        split
        · rename_i e hr
          exact hb.of_error hr
        · rename_i b r2 hr
          have h2 := hb.of_ok hr
          simp only [AdvS] at h1 h2
          refine (ih r2 fn (acc ++ [b]) (by omega)).mono ?_
          intro p hp
          simp only [Adv] at hp ⊢
          omega
    · simp [Adv]

/-- packed `ReadUInts`: one unit of fuel per remaining byte -/
theorem readPackedUInts_safe : ∀ (fuel : Nat) (r : Reader) (stop : Int) (acc : List Nat),
    (r.data.length - r.index) + 1 ≤ fuel →
    Safe (fun p => Adv r p.2) (readPackedUInts fuel r stop acc) := by
  intro fuel
  induction fuel with
  | zero => intro r stop acc h; omega
  | succ fuel ih =>
    intro r stop acc hf
    unfold readPackedUInts
    split
    · have hu := r.readUInt_safe
      split
      · rename_i e heq
        exact hu.of_error heq
      · rename_i v r1 heq
        have h1 := hu.of_ok heq
        simp only [AdvS] at h1
        refine (ih r1 stop (acc ++ [v]) (by omega)).mono ?_
        intro p hp
        simp only [Adv] at hp ⊢
        omega
    · simp [Adv]

/-! ### ranked schema tables -/

section ranked
variable (t : Table) (rank : String → Nat)

/-- a field kind whose nested struct (if any) exists and has rank below `k`; no unknown kinds -/
def kindOK (k : Nat) : Kind → Bool
  | .unknown _ => false
  | .msg n => (t.find n).isSome && decide (rank n < k)
  | .msgArr n => (t.find n).isSome && decide (rank n < k)
  | _ => true

def fieldsOK (k : Nat) (fs : List Field) : Bool := fs.all fun f => kindOK t rank k f.kind

/-- one struct: rank ≤ 8, ≤ 40 fields, nested structs exist and have strictly smaller rank -/
def schemaOK (s : Schema) : Bool :=
  decide (rank s.name ≤ 8) &&
  decide (s.enc.length ≤ 40) && decide (s.dec.length ≤ 40) && decide (s.decStrict.length ≤ 40) &&
  fieldsOK t rank (rank s.name) s.enc && fieldsOK t rank (rank s.name) s.dec &&
  fieldsOK t rank (rank s.name) s.decStrict

/-- the table has no recursion (witnessed by `rank`), no dangling names, no unknown kinds -/
def Ranked : Bool := t.all (schemaOK t rank)

variable {t rank}

theorem ranked_mem (hR : Ranked t rank = true) {s : Schema} (hs : s ∈ t) :
    schemaOK t rank s = true := by
  unfold Ranked at hR
  exact List.all_eq_true.mp hR s hs

theorem ranked_find (hR : Ranked t rank = true) {name : String} {s : Schema}
    (h : t.find name = some s) : schemaOK t rank s = true ∧ s.name = name := by
  unfold Table.find at h
  refine ⟨ranked_mem hR (List.mem_of_find?_eq_some h), ?_⟩
  have := List.find?_some h
  simpa using this

theorem schemaOK_dec {s : Schema} (h : schemaOK t rank s = true) :
    rank s.name ≤ 8 ∧ s.dec.length ≤ 40 ∧ s.decStrict.length ≤ 40 ∧
    fieldsOK t rank (rank s.name) s.dec = true ∧ fieldsOK t rank (rank s.name) s.decStrict = true := by
  simp only [schemaOK, Bool.and_eq_true, decide_eq_true_eq] at h
  obtain ⟨⟨⟨⟨⟨⟨h1, _⟩, h3⟩, h4⟩, _⟩, h6⟩, h7⟩ := h
  exact ⟨h1, h3, h4, h6, h7⟩

end ranked

/-! ### the mutual decoder never panics with fuel `#fields + 42 * rank + 1 + remaining bytes` -/

/-- single-value field: `enter` then one primitive read -/
local macro "field_scalar" rd:term : tactic => `(tactic| (
  split
  · rename_i e he
    exact Safe.of_error (Reader.enter_safe _ _ _ _) he
  · simp [Adv]
  · rename_i r1 he
    have h1 := Safe.of_ok (Reader.enter_safe _ _ _ _) he r1 rfl
    split
    · rename_i e hr
      exact Safe.of_error ($rd r1) hr
    · rename_i v r2 hr
      have h2 := Safe.of_ok ($rd r1) hr
      simp only [AdvS] at h1 h2
      simp only [safe_ok, Adv]
      omega))

theorem decode_safe_aux (t : Table) (nfc : NFC) (rank : String → Nat)
    (hR : Ranked t rank = true) : ∀ fuel : Nat,
    (∀ (k : Nat) (fs : List Field) (r : Reader), fieldsOK t rank k fs = true →
      fs.length + 42 * k + 1 + (r.data.length - r.index) ≤ fuel →
      Safe (fun p => Adv r p.2) (decodeFields t nfc fuel fs r)) ∧
    (∀ (k : Nat) (f : Field) (r : Reader), kindOK t rank k f.kind = true →
      42 * k + 1 + (r.data.length - r.index) ≤ fuel →
      Safe (fun p => Adv r p.2) (decodeField t nfc fuel f r)) ∧
    (∀ (name : String) (r : Reader), (t.find name).isSome = true →
      42 * rank name + 42 + (r.data.length - r.index) ≤ fuel →
      Safe (fun p => (∃ vals, p.1 = Value.msg true vals) ∧ Adv r p.2)
        (decodeNested t nfc fuel name r)) ∧
    (∀ (name : String) (fn : Nat) (r : Reader) (acc : List (List Value)),
      (t.find name).isSome = true →
      42 * rank name + 42 + (r.data.length - r.index) ≤ fuel →
      Safe (fun p => Adv r p.2) (decodeMsgArr t nfc fuel name fn r acc)) := by
  intro fuel
  induction fuel with
  | zero =>
    refine ⟨?_, ?_, ?_, ?_⟩
    · intro k fs r _ h; omega
    · intro k f r _ h; omega
    · intro name r _ h; omega
    · intro name fn r acc _ h; omega
  | succ fuel ih =>
    obtain ⟨ihFs, ihF, ihN, ihA⟩ := ih
    refine ⟨?_, ?_, ?_, ?_⟩
    · -- decodeFields
      intro k fs r hok hf
      cases fs with
      | nil => simp [decodeFields, Adv]
      | cons f fs =>
        simp only [fieldsOK, List.all_cons, Bool.and_eq_true] at hok
        simp only [List.length_cons] at hf
        simp only [decodeFields]
        have h1 := ihF k f r hok.1 (by omega)
        split
        · rename_i e he
          exact h1.of_error he
        · rename_i v r' he
          have a1 := h1.of_ok he
          simp only [Adv] at a1
          have h2 := ihFs k fs r' hok.2 (by omega)
          split
          · rename_i e he2
            exact h2.of_error he2
          · rename_i vs r'' he2
            have a2 := h2.of_ok he2
            simp only [Adv] at a2
            simp only [safe_ok, Adv]
            omega
    · -- decodeField
      intro k f r hok hf
      obtain ⟨num, kind, st⟩ := f
      cases kind with
      | uint => simp only [decodeField]; field_scalar Reader.readUInt_safe
      | uint32 => simp only [decodeField]; field_scalar Reader.readUInt_safe
      | int32 => simp only [decodeField]; field_scalar Reader.readUInt_safe
      | bool => simp only [decodeField]; field_scalar Reader.readBool_safe
      | bytes => simp only [decodeField]; field_scalar Reader.readBytes_safe
      | string => simp only [decodeField]; field_scalar (Reader.readString_safe nfc)
      | bytesArr =>
        simp only [decodeField]
        have h := readBytesArray_safe (r.data.length + 2) r num [] (by omega)
        split
        · rename_i e he
          exact h.of_error he
        · rename_i l r' he
          exact h.of_ok he
      | uints =>
        simp only [decodeField]
        split
        · rename_i e he
          exact Safe.of_error (Reader.enterArr_safe _ _ _) he
        · simp [Adv]
        · rename_i r1 he
          have h1 := Safe.of_ok (Reader.enterArr_safe _ _ _) he r1 rfl
          split
          · rename_i e hr
            exact Safe.of_error (Reader.readUInt_safe r1) hr
          · rename_i len r2 hr
            have h2 := Safe.of_ok (Reader.readUInt_safe r1) hr
            simp only [AdvS] at h1 h2
            have h := fun stop => readPackedUInts_safe (r.data.length + 2) r2 stop [] (by omega)
            split
            · rename_i e he3
              exact (h _).of_error he3
            · rename_i l r3 he3
              have h3 := (h _).of_ok he3
              simp only [Adv] at h3
              simp only [safe_ok, Adv]
              omega
      | msg name =>
        simp only [kindOK, Bool.and_eq_true, decide_eq_true_eq] at hok
        simp only [decodeField]
        split
        · rename_i e he
          exact Safe.of_error (Reader.enter_safe _ _ _ _) he
        · simp [Adv]
        · rename_i r1 he
          have h1 := Safe.of_ok (Reader.enter_safe _ _ _ _) he r1 rfl
          simp only [AdvS] at h1
          refine (ihN name r1 hok.1 (by omega)).mono ?_
          intro p hp
          have := hp.2
          simp only [Adv] at this ⊢
          omega
      | msgArr name =>
        simp only [kindOK, Bool.and_eq_true, decide_eq_true_eq] at hok
        simp only [decodeField]
        have h := ihA name num r [] hok.1 (by omega)
        split
        · rename_i e he
          exact h.of_error he
        · rename_i l r' he
          exact h.of_ok he
      | unknown src => simp [kindOK] at hok
    · -- decodeNested
      intro name r hfind hf
      simp only [decodeNested]
      split
      · rename_i e hr
        exact Safe.of_error (Reader.readUInt_safe r) hr
      · rename_i size r2 hr
        have h2 := Safe.of_ok (Reader.readUInt_safe r) hr
        simp only [AdvS] at h2
        split
        · rename_i hnone
          rw [hnone] at hfind
          simp at hfind
        · rename_i s hsome
          obtain ⟨hs, hname⟩ := ranked_find hR hsome
          obtain ⟨_, hlen, _, hdec, _⟩ := schemaOK_dec hs
          rw [hname] at hdec
          have h := fun stop => ihFs (rank name) s.dec { r2 with stop := stop } hdec
            (by simp only; omega)
          split
          · rename_i e he
            exact (h _).of_error he
          · rename_i vals rn he
            have a := (h _).of_ok he
            simp only [Adv] at a
            simp only [safe_ok, Adv]
            exact ⟨⟨vals, rfl⟩, by omega, by omega, by omega⟩
    · -- decodeMsgArr
      intro name fn r acc hfind hf
      simp only [decodeMsgArr]
      split
      · split
        · rename_i e he
          exact Safe.of_error (Reader.enterArr_safe _ _ _) he
        · simp [Adv]
        · rename_i r1 he
          have h1 := Safe.of_ok (Reader.enterArr_safe _ _ _) he r1 rfl
          simp only [AdvS] at h1
          have h := ihN name r1 hfind (by omega)
          split
          · rename_i e he2
            exact h.of_error he2
          · rename_i pres vals r2 he2
            have a := (h.of_ok he2).2
            simp only [Adv] at a
            refine (ihA name fn r2 (acc ++ [vals]) hfind (by omega)).mono ?_
            intro p hp
            simp only [Adv] at hp ⊢
            omega
          · rename_i v r2 hne he2
            obtain ⟨⟨vals, hv⟩, _⟩ := h.of_ok he2
            simp only at hv
            exact absurd hv (hne true vals)
      · simp [Adv]

/-! ### more fuel does not change a result that is not `panic` -/

theorem decode_fuel_mono_aux (t : Table) (nfc : NFC) : ∀ fuel : Nat,
    (∀ (fuel' : Nat) (fs : List Field) (r : Reader), fuel ≤ fuel' →
      decodeFields t nfc fuel fs r ≠ .error .panic →
      decodeFields t nfc fuel' fs r = decodeFields t nfc fuel fs r) ∧
    (∀ (fuel' : Nat) (f : Field) (r : Reader), fuel ≤ fuel' →
      decodeField t nfc fuel f r ≠ .error .panic →
      decodeField t nfc fuel' f r = decodeField t nfc fuel f r) ∧
    (∀ (fuel' : Nat) (name : String) (r : Reader), fuel ≤ fuel' →
      decodeNested t nfc fuel name r ≠ .error .panic →
      decodeNested t nfc fuel' name r = decodeNested t nfc fuel name r) ∧
    (∀ (fuel' : Nat) (name : String) (fn : Nat) (r : Reader) (acc : List (List Value)),
      fuel ≤ fuel' →
      decodeMsgArr t nfc fuel name fn r acc ≠ .error .panic →
      decodeMsgArr t nfc fuel' name fn r acc = decodeMsgArr t nfc fuel name fn r acc) := by
  intro fuel
  induction fuel with
  | zero =>
    refine ⟨?_, ?_, ?_, ?_⟩
    · intro fuel' fs r _ h
      cases fs with
      | nil => simp [decodeFields]
      | cons f fs => exact absurd (by simp [decodeFields]) h
    · intro fuel' f r _ h
      exact absurd (by simp [decodeField]) h
    · intro fuel' name r _ h
      exact absurd (by simp [decodeNested]) h
    · intro fuel' name fn r acc _ h
      exact absurd (by simp [decodeMsgArr]) h
  | succ fuel ih =>
    obtain ⟨ihFs, ihF, ihN, ihA⟩ := ih
    refine ⟨?_, ?_, ?_, ?_⟩
    · -- decodeFields
      intro fuel' fs r hle h
      obtain ⟨fuel'', rfl⟩ : ∃ x, fuel' = x + 1 := ⟨fuel' - 1, by omega⟩
      have hle' : fuel ≤ fuel'' := by omega
      cases fs with
      | nil => simp [decodeFields]
      | cons f fs =>
        simp only [decodeFields] at h ⊢
        revert h
        cases hd : decodeField t nfc fuel f r with
        | error e =>
          intro h
          rw [ihF fuel'' f r hle' (by rw [hd]; simpa using h), hd]
        | ok p =>
          obtain ⟨v, r'⟩ := p
          intro h
          rw [ihF fuel'' f r hle' (by rw [hd]; simp), hd]
          simp only at h ⊢
          revert h
          cases hd2 : decodeFields t nfc fuel fs r' with
          | error e =>
            intro h
            rw [ihFs fuel'' fs r' hle' (by rw [hd2]; simpa using h), hd2]
          | ok q =>
            intro h
            rw [ihFs fuel'' fs r' hle' (by rw [hd2]; simp), hd2]
    · -- decodeField
      intro fuel' f r hle h
      obtain ⟨fuel'', rfl⟩ : ∃ x, fuel' = x + 1 := ⟨fuel' - 1, by omega⟩
      have hle' : fuel ≤ fuel'' := by omega
      obtain ⟨num, kind, st⟩ := f
      cases kind with
      | msg name =>
        simp only [decodeField] at h ⊢
        revert h
        cases he : r.enter num 2 st with
        | error e => intro _; rfl
        | ok o =>
          cases o with
          | none => intro _; rfl
          | some r1 =>
            intro h
            exact ihN fuel'' name r1 hle' h
      | msgArr name =>
        simp only [decodeField] at h ⊢
        have h1 : decodeMsgArr t nfc fuel name num r [] ≠ .error .panic := by
          intro hc
          rw [hc] at h
          exact h rfl
        rw [ihA fuel'' name num r [] hle' h1]
      | _ => simp only [decodeField]
    · -- decodeNested
      intro fuel' name r hle h
      obtain ⟨fuel'', rfl⟩ : ∃ x, fuel' = x + 1 := ⟨fuel' - 1, by omega⟩
      have hle' : fuel ≤ fuel'' := by omega
      simp only [decodeNested] at h ⊢
      revert h
      cases hr : r.readUInt with
      | error e => intro _; rfl
      | ok p =>
        obtain ⟨size, r2⟩ := p
        simp only
        cases hf : t.find name with
        | none => intro _; rfl
        | some s =>
          simp only
          intro h
          rw [ihFs fuel'' _ _ hle' ?_]
          intro hc
          rw [hc] at h
          exact h rfl
    · -- decodeMsgArr
      intro fuel' name fn r acc hle h
      obtain ⟨fuel'', rfl⟩ : ∃ x, fuel' = x + 1 := ⟨fuel' - 1, by omega⟩
      have hle' : fuel ≤ fuel'' := by omega
      simp only [decodeMsgArr] at h ⊢
      by_cases hlt : (r.index : Int) < r.stop
      · simp only [hlt, if_true] at h ⊢
        revert h
        cases he : r.enterArr fn 2 with
        | error e => intro _; rfl
        | ok o =>
          cases o with
          | none => intro _; rfl
          | some r1 =>
            simp only
            intro h
            have h1 : decodeNested t nfc fuel name r1 ≠ .error .panic := by
              intro hc
              rw [hc] at h
              exact h rfl
            rw [ihN fuel'' name r1 hle' h1]
            revert h
            cases hn : decodeNested t nfc fuel name r1 with
            | error e => intro _; rfl
            | ok p =>
              obtain ⟨v, r2⟩ := p
              cases v with
              | msg pres vals =>
                simp only
                intro h
                exact ihA fuel'' name fn r2 _ hle' h
              | _ => intro _; rfl
      · simp only [hlt, if_false]

/-- once the decoder has enough fuel not to panic, its result is the same for any larger fuel: the
model's answer is that of the fuel-free Go loop -/
theorem decodeFields_fuel_mono (t : Table) (nfc : NFC) {fuel fuel' : Nat} (fs : List Field)
    (r : Reader) (hle : fuel ≤ fuel') (h : decodeFields t nfc fuel fs r ≠ .error .panic) :
    decodeFields t nfc fuel' fs r = decodeFields t nfc fuel fs r :=
  (decode_fuel_mono_aux t nfc fuel).1 fuel' fs r hle h

/-- fuel needed by `decodeFields` on a field list of rank `k` with `rem` unread bytes -/
def need (k nfields rem : Nat) : Nat := nfields + 42 * k + 1 + rem

theorem decodeFields_safe (t : Table) (nfc : NFC) (rank : String → Nat) (hR : Ranked t rank = true)
    (k : Nat) (fs : List Field) (r : Reader) (hok : fieldsOK t rank k fs = true) (fuel : Nat)
    (hf : need k fs.length (r.data.length - r.index) ≤ fuel) :
    Safe (fun p => Adv r p.2) (decodeFields t nfc fuel fs r) :=
  (decode_safe_aux t nfc rank hR fuel).1 k fs r hok hf

/-- ≤ 40 fields and rank ≤ 8: `fuelFor data` is enough -/
theorem need_le_fuelFor (data : Bytes) {k n : Nat} (hk : k ≤ 8) (hn : n ≤ 40) :
    need k n ((Reader.new data).data.length - (Reader.new data).index) ≤ fuelFor data := by
  simp only [need, fuelFor, Reader.new]
  omega

/-! ### frame for any fuel (via monotonicity) -/

section frame
variable {t : Table} {nfc : NFC} {rank : String → Nat}

theorem decodeFields_adv (hR : Ranked t rank = true) {k : Nat} {fs : List Field} {r r' : Reader}
    {fuel : Nat} {vs : List Value} (hok : fieldsOK t rank k fs = true)
    (h : decodeFields t nfc fuel fs r = .ok (vs, r')) : Adv r r' := by
  have hnp : decodeFields t nfc fuel fs r ≠ .error .panic := by rw [h]; simp
  have e := (decode_fuel_mono_aux t nfc fuel).1
    (max fuel (fs.length + 42 * k + 1 + (r.data.length - r.index))) fs r (Nat.le_max_left _ _) hnp
  have s := (decode_safe_aux t nfc rank hR
    (max fuel (fs.length + 42 * k + 1 + (r.data.length - r.index)))).1 k fs r hok
    (Nat.le_max_right _ _)
  rw [e, h] at s
  exact s

theorem decodeField_adv (hR : Ranked t rank = true) {k : Nat} {f : Field} {r r' : Reader}
    {fuel : Nat} {v : Value} (hok : kindOK t rank k f.kind = true)
    (h : decodeField t nfc fuel f r = .ok (v, r')) : Adv r r' := by
  have hnp : decodeField t nfc fuel f r ≠ .error .panic := by rw [h]; simp
  have e := (decode_fuel_mono_aux t nfc fuel).2.1
    (max fuel (42 * k + 1 + (r.data.length - r.index))) f r (Nat.le_max_left _ _) hnp
  have s := (decode_safe_aux t nfc rank hR
    (max fuel (42 * k + 1 + (r.data.length - r.index)))).2.1 k f r hok (Nat.le_max_right _ _)
  rw [e, h] at s
  exact s

theorem decodeNested_adv (hR : Ranked t rank = true) {name : String} {r r' : Reader}
    {fuel : Nat} {v : Value} (hok : (t.find name).isSome = true)
    (h : decodeNested t nfc fuel name r = .ok (v, r')) : Adv r r' := by
  have hnp : decodeNested t nfc fuel name r ≠ .error .panic := by rw [h]; simp
  have e := (decode_fuel_mono_aux t nfc fuel).2.2.1
    (max fuel (42 * rank name + 42 + (r.data.length - r.index))) name r (Nat.le_max_left _ _) hnp
  have s := (decode_safe_aux t nfc rank hR
    (max fuel (42 * rank name + 42 + (r.data.length - r.index)))).2.2.1 name r hok
    (Nat.le_max_right _ _)
  rw [e, h] at s
  exact s.2

theorem decodeMsgArr_adv (hR : Ranked t rank = true) {name : String} {fn : Nat} {r r' : Reader}
    {acc l : List (List Value)} {fuel : Nat} (hok : (t.find name).isSome = true)
    (h : decodeMsgArr t nfc fuel name fn r acc = .ok (l, r')) : Adv r r' := by
  have hnp : decodeMsgArr t nfc fuel name fn r acc ≠ .error .panic := by rw [h]; simp
  have e := (decode_fuel_mono_aux t nfc fuel).2.2.2
    (max fuel (42 * rank name + 42 + (r.data.length - r.index))) name fn r acc
    (Nat.le_max_left _ _) hnp
  have s := (decode_safe_aux t nfc rank hR
    (max fuel (42 * rank name + 42 + (r.data.length - r.index)))).2.2.2 name fn r acc hok
    (Nat.le_max_right _ _)
  rw [e, h] at s
  exact s

end frame

/-- the two primitive array loops, for any fuel -/
theorem readBytesArray_adv : ∀ (fuel : Nat) (r r' : Reader) (fn : Nat) (acc l : List Bytes),
    readBytesArray fuel r fn acc = .ok (l, r') → Adv r r' := by
  intro fuel
  induction fuel with
  | zero => intro r r' fn acc l h; simp [readBytesArray] at h
  | succ fuel ih =>
    intro r r' fn acc l h
    unfold readBytesArray at h
    split at h
    · split at h
      · exact absurd h (by simp)
      · injection h with h
        injection h with _ h
        subst h
        exact Adv.refl r
      · rename_i r1 heq
        have h1 := Safe.of_ok (r.enterArr_safe fn 2) heq r1 rfl
        split at h
        · exact absurd h (by simp)
        · rename_i b r2 hr
          have h2 := Safe.of_ok r1.readBytes_safe hr
          have h3 := ih r2 r' fn _ l h
          simp only [AdvS, Adv] at *
          omega
    · injection h with h
      injection h with _ h
      subst h
      exact Adv.refl r

theorem readPackedUInts_adv : ∀ (fuel : Nat) (r r' : Reader) (stop : Int) (acc l : List Nat),
    readPackedUInts fuel r stop acc = .ok (l, r') → Adv r r' := by
  intro fuel
  induction fuel with
  | zero => intro r r' stop acc l h; simp [readPackedUInts] at h
  | succ fuel ih =>
    intro r r' stop acc l h
    unfold readPackedUInts at h
    split at h
    · split at h
      · exact absurd h (by simp)
      · rename_i v r1 heq
        have h1 := Safe.of_ok r.readUInt_safe heq
        have h3 := ih r1 r' stop _ l h
        simp only [AdvS, Adv] at *
        omega
    · injection h with h
      injection h with _ h
      subst h
      exact Adv.refl r

/-! ### total work

`costX` counts the calls of the four mutually recursive decoding functions plus the iterations of the
two primitive array loops, following exactly the control flow of the model (the scrutinees are the
model's own calls). Every call does a bounded number of primitive reads, each of which costs O(1)
or O(bytes it consumes). -/

/-- bytes used by a call started at `r`: consumed on success, everything left on failure -/
def used {α : Type} (r : Reader) : Except Err (α × Reader) → Nat
  | .ok (_, r') => r'.index - r.index
  | .error _ => r.data.length - r.index

@[simp] theorem used_ok {α : Type} (r r' : Reader) (a : α) :
    used r (.ok (a, r') : Except Err (α × Reader)) = r'.index - r.index := rfl

@[simp] theorem used_error {α : Type} (r : Reader) (e : Err) :
    used r (.error e : Except Err (α × Reader)) = r.data.length - r.index := rfl

def costPackedUInts : Nat → Reader → Int → Nat
  | 0, _, _ => 1
  | fuel + 1, r, stop =>
    if (r.index : Int) < stop then
      match r.readUInt with
      | .error _ => 1
      | .ok (_, r') => 1 + costPackedUInts fuel r' stop
    else 1

def costBytesArray : Nat → Reader → Nat → Nat
  | 0, _, _ => 1
  | fuel + 1, r, fn =>
    if (r.index : Int) < r.stop then
      match r.enterArr fn 2 with
      | .ok (some r1) =>
        match r1.readBytes with
        | .error _ => 1
        | .ok (_, r2) => 1 + costBytesArray fuel r2 fn
      | _ => 1
    else 1

mutual
def costFields (t : Table) (nfc : NFC) : Nat → List Field → Reader → Nat
  | _, [], _ => 1
  | 0, _ :: _, _ => 1
  | fuel + 1, f :: fs, r =>
    1 + costField t nfc fuel f r +
      match decodeField t nfc fuel f r with
      | .error _ => 0
      | .ok (_, r') => costFields t nfc fuel fs r'

def costField (t : Table) (nfc : NFC) : Nat → Field → Reader → Nat
  | 0, _, _ => 1
  | fuel + 1, f, r =>
    match f.kind with
    | .bytesArr => 1 + costBytesArray (r.data.length + 2) r f.num
    | .uints =>
      match r.enterArr f.num 2 with
      | .ok (some r1) =>
        match r1.readUInt with
        | .error _ => 1
        | .ok (len, r2) =>
          let len' : Int := if len ≥ 2 ^ 63 then (len : Int) - 2 ^ 64 else len
          1 + costPackedUInts (r.data.length + 2) r2 (wrapInt64 ((r2.index : Int) + len'))
      | _ => 1
    | .msg name =>
      match r.enter f.num 2 f.strict with
      | .ok (some r1) => 1 + costNested t nfc fuel name r1
      | _ => 1
    | .msgArr name => 1 + costMsgArr t nfc fuel name f.num r []
    | _ => 1

def costNested (t : Table) (nfc : NFC) : Nat → String → Reader → Nat
  | 0, _, _ => 1
  | fuel + 1, name, r1 =>
    match r1.readUInt with
    | .error _ => 1
    | .ok (size, r2) =>
      let size' : Int := if size ≥ 2 ^ 63 then (size : Int) - 2 ^ 64 else size
      match t.find name with
      | none => 1
      | some s =>
        1 + costFields t nfc fuel s.dec { r2 with stop := wrapInt64 ((r2.index : Int) + size') }

def costMsgArr (t : Table) (nfc : NFC) : Nat → String → Nat → Reader → List (List Value) → Nat
  | 0, _, _, _, _ => 1
  | fuel + 1, name, fn, r, acc =>
    if (r.index : Int) < r.stop then
      match r.enterArr fn 2 with
      | .ok (some r1) =>
        1 + costNested t nfc fuel name r1 +
          match decodeNested t nfc fuel name r1 with
          | .ok (.msg _ vals, r2) => costMsgArr t nfc fuel name fn r2 (acc ++ [vals])
          | _ => 0
      | _ => 1
    else 1
end

theorem costBytesArray_le : ∀ (fuel : Nat) (r : Reader) (fn : Nat) (acc : List Bytes),
    costBytesArray fuel r fn ≤ 1 + used r (readBytesArray fuel r fn acc) := by
  intro fuel
  induction fuel with
  | zero => intro r fn acc; simp [costBytesArray]
  | succ fuel ih =>
    intro r fn acc
    simp only [costBytesArray, readBytesArray]
    by_cases hlt : (r.index : Int) < r.stop
    · simp only [hlt, if_true]
      cases he : r.enterArr fn 2 with
      | error e => simp
      | ok o =>
        cases o with
        | none => simp
        | some r1 =>
          have h1 := Safe.of_ok (r.enterArr_safe fn 2) he r1 rfl
          simp only
          cases hb : r1.readBytes with
          | error e => simp
          | ok p =>
            obtain ⟨b, r2⟩ := p
            have h2 := Safe.of_ok r1.readBytes_safe hb
            simp only
            have h3 := ih r2 fn (acc ++ [b])
            simp only [AdvS] at h1 h2
            revert h3
            cases hd : readBytesArray fuel r2 fn (acc ++ [b]) with
            | error e => simp only [used_error]; omega
            | ok q =>
              obtain ⟨l, r'⟩ := q
              have h4 := readBytesArray_adv _ _ _ _ _ _ hd
              simp only [Adv] at h4
              simp only [used_ok]
              omega
    · simp [hlt]

theorem costPackedUInts_le : ∀ (fuel : Nat) (r : Reader) (stop : Int) (acc : List Nat),
    costPackedUInts fuel r stop ≤ 1 + used r (readPackedUInts fuel r stop acc) := by
  intro fuel
  induction fuel with
  | zero => intro r stop acc; simp [costPackedUInts]
  | succ fuel ih =>
    intro r stop acc
    simp only [costPackedUInts, readPackedUInts]
    by_cases hlt : (r.index : Int) < stop
    · simp only [hlt, if_true]
      cases he : r.readUInt with
      | error e => simp
      | ok p =>
        obtain ⟨v, r1⟩ := p
        have h1 := Safe.of_ok r.readUInt_safe he
        simp only
        have h3 := ih r1 stop (acc ++ [v])
        simp only [AdvS] at h1
        revert h3
        cases hd : readPackedUInts fuel r1 stop (acc ++ [v]) with
        | error e => simp only [used_error]; omega
        | ok q =>
          obtain ⟨l, r'⟩ := q
          have h4 := readPackedUInts_adv _ _ _ _ _ _ hd
          simp only [Adv] at h4
          simp only [used_ok]
          omega
    · simp [hlt]

/-- Work is linear in the bytes used: at most 121 calls per byte (a nested struct costs at most
`2 + 3 * 40` calls for its ≤ 40 fields and is paid for by the ≥ 1 byte of its size prefix), plus
3 per field of the outermost struct. Holds for every fuel. -/
theorem decode_cost_aux (t : Table) (nfc : NFC) (rank : String → Nat)
    (hR : Ranked t rank = true) : ∀ fuel : Nat,
    (∀ (k : Nat) (fs : List Field) (r : Reader), fieldsOK t rank k fs = true →
      costFields t nfc fuel fs r ≤
        1 + 3 * fs.length + 121 * used r (decodeFields t nfc fuel fs r)) ∧
    (∀ (k : Nat) (f : Field) (r : Reader), kindOK t rank k f.kind = true →
      costField t nfc fuel f r ≤ 2 + 121 * used r (decodeField t nfc fuel f r)) ∧
    (∀ (name : String) (r : Reader), (t.find name).isSome = true →
      costNested t nfc fuel name r ≤ 1 + 121 * used r (decodeNested t nfc fuel name r)) ∧
    (∀ (name : String) (fn : Nat) (r : Reader) (acc : List (List Value)),
      (t.find name).isSome = true →
      costMsgArr t nfc fuel name fn r acc ≤
        1 + 121 * used r (decodeMsgArr t nfc fuel name fn r acc)) := by
  intro fuel
  induction fuel with
  | zero =>
    refine ⟨?_, ?_, ?_, ?_⟩
    · intro k fs r _
      cases fs with
      | nil => simp only [costFields]; omega
      | cons f fs => simp only [costFields]; omega
    · intro k f r _
      simp only [costField]; omega
    · intro name r _
      simp only [costNested]; omega
    · intro name fn r acc _
      simp only [costMsgArr]; omega
  | succ fuel ih =>
    obtain ⟨ihFs, ihF, ihN, ihA⟩ := ih
    refine ⟨?_, ?_, ?_, ?_⟩
    · -- costFields
      intro k fs r hok
      cases fs with
      | nil => simp only [costFields]; omega
      | cons f fs =>
        simp only [fieldsOK, List.all_cons, Bool.and_eq_true] at hok
        simp only [costFields, decodeFields, List.length_cons]
        have hf := ihF k f r hok.1
        revert hf
        cases hd : decodeField t nfc fuel f r with
        | error e =>
          intro hf
          simp only [used_error] at hf ⊢
          omega
        | ok p =>
          obtain ⟨v, r'⟩ := p
          intro hf
          have a1 := decodeField_adv hR hok.1 hd
          have hF := ihFs k fs r' hok.2
          simp only [Adv] at a1
          simp only [used_ok] at hf ⊢
          revert hF
          cases hd2 : decodeFields t nfc fuel fs r' with
          | error e =>
            intro hF
            simp only [used_error] at hF ⊢
            omega
          | ok q =>
            obtain ⟨vs, r''⟩ := q
            intro hF
            have a2 := decodeFields_adv hR (k := k) hok.2 hd2
            simp only [Adv] at a2
            simp only [used_ok] at hF ⊢
            omega
    · -- costField
      intro k f r hok
      obtain ⟨num, kind, st⟩ := f
      cases kind with
      | bytesArr =>
        simp only [costField, decodeField]
        have h := costBytesArray_le (r.data.length + 2) r num []
        revert h
        cases hd : readBytesArray (r.data.length + 2) r num [] with
        | error e =>
          intro h
          simp only [used_error] at h ⊢
          omega
        | ok p =>
          obtain ⟨l, r'⟩ := p
          intro h
          simp only [used_ok] at h ⊢
          omega
      | uints =>
        simp only [costField, decodeField]
        cases he : r.enterArr num 2 with
        | error e => simp only; omega
        | ok o =>
          cases o with
          | none => simp only; omega
          | some r1 =>
            have h1 := Safe.of_ok (r.enterArr_safe num 2) he r1 rfl
            simp only [AdvS] at h1
            simp only
            cases hu : r1.readUInt with
            | error e => simp only [used_error]; omega
            | ok p =>
              obtain ⟨len, r2⟩ := p
              have h2 := Safe.of_ok r1.readUInt_safe hu
              simp only [AdvS] at h2
              simp only
              generalize wrapInt64 _ = stop
              have h := costPackedUInts_le (r.data.length + 2) r2 stop []
              revert h
              cases hd : readPackedUInts (r.data.length + 2) r2 stop [] with
              | error e =>
                intro h
                simp only [used_error] at h ⊢
                omega
              | ok q =>
                obtain ⟨l, r3⟩ := q
                intro h
                have a := readPackedUInts_adv _ _ _ _ _ _ hd
                simp only [Adv] at a
                simp only [used_ok] at h ⊢
                omega
      | msg name =>
        simp only [kindOK, Bool.and_eq_true, decide_eq_true_eq] at hok
        simp only [costField, decodeField]
        cases he : r.enter num 2 st with
        | error e => simp only; omega
        | ok o =>
          cases o with
          | none => simp only; omega
          | some r1 =>
            have h1 := Safe.of_ok (r.enter_safe num 2 st) he r1 rfl
            simp only [AdvS] at h1
            simp only
            have hN := ihN name r1 hok.1
            revert hN
            cases hd : decodeNested t nfc fuel name r1 with
            | error e =>
              intro hN
              simp only [used_error] at hN ⊢
              omega
            | ok p =>
              obtain ⟨v, r2⟩ := p
              intro hN
              have a := decodeNested_adv hR hok.1 hd
              simp only [Adv] at a
              simp only [used_ok] at hN ⊢
              omega
      | msgArr name =>
        simp only [kindOK, Bool.and_eq_true, decide_eq_true_eq] at hok
        simp only [costField, decodeField]
        have hA := ihA name num r [] hok.1
        revert hA
        cases hd : decodeMsgArr t nfc fuel name num r [] with
        | error e =>
          intro hA
          simp only [used_error] at hA ⊢
          omega
        | ok p =>
          obtain ⟨l, r'⟩ := p
          intro hA
          simp only [used_ok] at hA ⊢
          omega
      | _ => simp only [costField]; omega
    · -- costNested
      intro name r hfind
      simp only [costNested, decodeNested]
      cases hr : r.readUInt with
      | error e => simp only; omega
      | ok p =>
        obtain ⟨size, r2⟩ := p
        have h2 := Safe.of_ok r.readUInt_safe hr
        simp only [AdvS] at h2
        simp only
        cases hf : t.find name with
        | none => simp only; omega
        | some s =>
          obtain ⟨hs, hname⟩ := ranked_find hR hf
          obtain ⟨_, hlen, _, hdec, _⟩ := schemaOK_dec hs
          simp only
          generalize hR2 : Reader.mk _ _ _ = R2
          have e1 : R2.data = r2.data := by rw [← hR2]
          have e2 : R2.index = r2.index := by rw [← hR2]
          have e3 : R2.data.length = r2.data.length := by rw [e1]
          have hF := ihFs (rank s.name) s.dec R2 hdec
          revert hF
          cases hd : decodeFields t nfc fuel s.dec R2 with
          | error e =>
            intro hF
            simp only [used_error] at hF ⊢
            omega
          | ok q =>
            obtain ⟨vals, rn⟩ := q
            intro hF
            have a := decodeFields_adv hR hdec hd
            simp only [Adv] at a
            simp only [used_ok] at hF ⊢
            omega
    · -- costMsgArr
      intro name fn r acc hfind
      simp only [costMsgArr, decodeMsgArr]
      by_cases hlt : (r.index : Int) < r.stop
      · simp only [hlt, if_true]
        cases he : r.enterArr fn 2 with
        | error e => simp only; omega
        | ok o =>
          cases o with
          | none => simp only; omega
          | some r1 =>
            have h1 := Safe.of_ok (r.enterArr_safe fn 2) he r1 rfl
            simp only [AdvS] at h1
            simp only
            have hN := ihN name r1 hfind
            revert hN
            cases hd : decodeNested t nfc fuel name r1 with
            | error e =>
              intro hN
              simp only [used_error] at hN ⊢
              omega
            | ok p =>
              obtain ⟨v, r2⟩ := p
              have a := decodeNested_adv hR hfind hd
              simp only [Adv] at a
              cases v with
              | msg pres vals =>
                intro hN
                have hA := ihA name fn r2 (acc ++ [vals]) hfind
                simp only [used_ok] at hN ⊢
                revert hA
                cases hd2 : decodeMsgArr t nfc fuel name fn r2 (acc ++ [vals]) with
                | error e =>
                  intro hA
                  simp only [used_error] at hA ⊢
                  omega
                | ok q =>
                  obtain ⟨l, r'⟩ := q
                  intro hA
                  have a2 := decodeMsgArr_adv hR hfind hd2
                  simp only [Adv] at a2
                  simp only [used_ok] at hA ⊢
                  omega
              | _ =>
                intro hN
                simp only [used_ok, used_error] at hN ⊢
                omega
      · simp only [hlt, if_false]; omega

/-- bytes used never exceed the bytes left, for a call that satisfies the frame condition -/
theorem used_le_of_adv {α : Type} (r : Reader) (x : Except Err (α × Reader))
    (h : ∀ a r', x = .ok (a, r') → Adv r r') : used r x ≤ r.data.length - r.index := by
  cases x with
  | error e => simp
  | ok p =>
    obtain ⟨a, r'⟩ := p
    have := h a r' rfl
    simp only [Adv] at this
    simp only [used_ok]
    omega

/-- total number of calls and loop iterations of a top-level decode: at most `121 * (|data| + 1)`,
for every fuel -/
theorem costFields_le (t : Table) (nfc : NFC) (rank : String → Nat) (hR : Ranked t rank = true)
    (k : Nat) (fs : List Field) (hok : fieldsOK t rank k fs = true) (hlen : fs.length ≤ 40)
    (fuel : Nat) (data : Bytes) :
    costFields t nfc fuel fs (Reader.new data) ≤ 121 * (data.length + 1) := by
  have h := (decode_cost_aux t nfc rank hR fuel).1 k fs (Reader.new data) hok
  have hu := used_le_of_adv (Reader.new data) (decodeFields t nfc fuel fs (Reader.new data))
    (fun a r' he => decodeFields_adv hR hok he)
  simp only [Reader.new] at hu h ⊢
  omega

end LiskVerif.Codec
