/-
The level-by-level `treeHasher` of hasher.go (Model/SMTImpl.lean) computes the recursive Merkle hash of the
layout tree (Lemmas/SMTImplTree.lean) whose flattening it is given; `maxStructure` of the flattening is the depth
of the tree, and `newSubtreeFromData` on a flattening returns the subtree with the Merkle root.
Core Lean only.
-/
import LiskVerif.Lemmas.SMTImplTree

namespace LiskVerif.SMTImpl
open LiskVerif LiskVerif.SMT

/-- one pass of the hasher on the tree: every branch at depth `h - 1` (children at `h`) becomes a tip carrying
its hash -/
def cut (H : HashFn) (h : Nat) : Nat → LT → LT
  | _, .tip n => .tip n
  | d, .br l r =>
    if d + 1 = h then .tip (newStubNode ((LT.br l r).hash H))
    else .br (cut H h (d + 1) l) (cut H h (d + 1) r)

theorem LT.le_maxDepth (t : LT) (d : Nat) : d ≤ t.maxDepth d := by
  induction t generalizing d with
  | tip n => simp [LT.maxDepth]
  | br l r ihl ihr =>
    have h1 := ihl (d + 1)
    have h2 := ihr (d + 1)
    simp only [LT.maxDepth]
    omega

theorem LT.nodes_length_pos (t : LT) : 1 ≤ t.nodes.length := by
  induction t with
  | tip n => simp [LT.nodes]
  | br l r ihl ihr => simp only [LT.nodes, List.length_append]; omega

theorem LT.depths_length_pos (t : LT) (d : Nat) : 1 ≤ (t.depths d).length := by
  induction t generalizing d with
  | tip n => simp [LT.depths]
  | br l r ihl ihr =>
    have h1 := ihl (d + 1)
    simp only [LT.depths, List.length_append]; omega

theorem cut_hash (H : HashFn) (h : Nat) (t : LT) (d : Nat) : (cut H h d t).hash H = t.hash H := by
  induction t generalizing d with
  | tip n => simp [cut]
  | br l r ihl ihr =>
    simp only [cut]
    split
    · simp [LT.hash, newStubNode]
    · simp [LT.hash, ihl, ihr]

theorem cut_maxDepth (H : HashFn) (h : Nat) (t : LT) (d : Nat) (hd : d < h) (hm : t.maxDepth d ≤ h) :
    (cut H h d t).maxDepth d ≤ h - 1 := by
  induction t generalizing d with
  | tip n => simp only [cut, LT.maxDepth]; omega
  | br l r ihl ihr =>
    simp only [cut]
    split
    · simp only [LT.maxDepth]; omega
    · simp only [LT.maxDepth] at hm ⊢
      have h1 := ihl (d + 1) (by omega) (by omega)
      have h2 := ihr (d + 1) (by omega) (by omega)
      omega

theorem Except.map_map' {ε α β γ : Type} (x : Except ε α) (f : α → β) (g : β → γ) :
    (x.map f).map g = x.map (fun a => g (f a)) := by
  cases x <;> rfl

theorem LT.tip_of_maxDepth_le (t : LT) (d : Nat) (hm : t.maxDepth d ≤ d) : ∃ n, t = .tip n := by
  cases t with
  | tip n => exact ⟨n, rfl⟩
  | br l r =>
    exfalso
    have h1 := l.le_maxDepth (d + 1)
    simp only [LT.maxDepth] at hm
    omega

/-- one pass of the hasher at the deepest level is `cut` -/
theorem hashPass_tree (H : HashFn) (h : Nat) (t : LT) : ∀ (d : Nat) (hs : List Bytes) (ss : List Nat),
    d < h → t.maxDepth d ≤ h →
    hashPass H h (t.nodes.map (·.hash) ++ hs) (t.depths d ++ ss) =
      (hashPass H h hs ss).map (fun r =>
        ((cut H h d t).nodes.map (·.hash) ++ r.1, (cut H h d t).depths d ++ r.2)) := by
  induction t with
  | tip n =>
    intro d hs ss hd hm
    have hne : d ≠ h := Nat.ne_of_lt hd
    simp only [LT.nodes, LT.depths, cut, List.map, List.cons_append, List.nil_append]
    cases hs <;> simp [hashPass, hne]
  | br l r ihl ihr =>
    intro d hs ss hd hm
    simp only [LT.maxDepth] at hm
    by_cases hdh : d + 1 = h
    · obtain ⟨a, rfl⟩ := l.tip_of_maxDepth_le (d + 1) (by omega)
      obtain ⟨b, rfl⟩ := r.tip_of_maxDepth_le (d + 1) (by omega)
      subst hdh
      simp [LT.nodes, LT.depths, cut, hashPass, wrapPred, LT.hash, newStubNode]
    · simp only [LT.nodes, LT.depths, cut, hdh, if_false, List.map_append, List.append_assoc]
      rw [ihl (d + 1) _ _ (by omega) (by omega), ihr (d + 1) hs ss (by omega) (by omega), Except.map_map']

theorem treeHasherUp_succ (H : HashFn) (h : Nat) (hashes : List Bytes) (struct : List Nat)
    (hne : hashes.length ≠ 1) :
    treeHasherUp H (h + 1) hashes struct =
      (hashPass H (h + 1) hashes struct).bind fun p =>
        if h + 1 = 1 then
          match p.1 with
          | x :: _ => .ok x
          | [] => .error .panic
        else treeHasherUp H h p.1 p.2 := by
  match hashes, hne with
  | [], _ => simp [treeHasherUp]; rfl
  | [x], hne => simp at hne
  | x :: y :: rest, _ => simp [treeHasherUp]; rfl

theorem treeHasherUp_tree (H : HashFn) (h : Nat) : ∀ (t : LT), t.maxDepth 0 ≤ h →
    treeHasherUp H h (t.nodes.map (·.hash)) (t.depths 0) = .ok (t.hash H) := by
  induction h with
  | zero =>
    intro t hm
    obtain ⟨n, rfl⟩ := t.tip_of_maxDepth_le 0 hm
    simp [LT.nodes, LT.depths, LT.hash, treeHasherUp]
  | succ h ih =>
    intro t hm
    cases t with
    | tip n => simp [LT.nodes, LT.depths, LT.hash, treeHasherUp]
    | br l r =>
      have hlen : ((LT.br l r).nodes.map (·.hash)).length ≠ 1 := by
        have h1 := l.nodes_length_pos
        have h2 := r.nodes_length_pos
        simp only [LT.nodes, List.length_map, List.length_append]
        omega
      rw [treeHasherUp_succ H h _ _ hlen]
      have key := hashPass_tree H (h + 1) (LT.br l r) 0 [] [] (by omega) hm
      simp only [List.append_nil] at key
      rw [key]
      have hcm := cut_maxDepth H (h + 1) (LT.br l r) 0 (by omega) hm
      have hch := cut_hash H (h + 1) (LT.br l r) 0
      generalize cut H (h + 1) 0 (LT.br l r) = c at hcm hch
      simp only [hashPass, Except.map, Except.bind, List.append_nil]
      by_cases h0 : h + 1 = 1
      · have : h = 0 := by omega
        subst this
        obtain ⟨n, rfl⟩ := c.tip_of_maxDepth_le 0 (by omega)
        simp [LT.nodes, LT.hash] at hch ⊢
        exact hch
      · simp only [h0, if_false]
        rw [ih c (by omega), hch]

theorem treeHasher_eq_up (H : HashFn) (height : Nat) (hashes : List Bytes) (struct : List Nat)
    (hh : height ≠ 0) : treeHasher H height hashes struct = treeHasherUp H height hashes struct := by
  unfold treeHasher
  split
  · simp [treeHasherUp]
  · simp [hh]

/-- the bottom-up hasher on the flattening of a layout tree is the recursive Merkle hash -/
theorem treeHasher_tree (H : HashFn) (t : LT) :
    treeHasher H (t.maxDepth 0) (t.nodes.map (·.hash)) (t.depths 0) = .ok (t.hash H) := by
  cases t with
  | tip n => simp [LT.nodes, LT.hash, treeHasher]
  | br l r =>
    have h1 := l.le_maxDepth (0 + 1)
    have hne : (LT.br l r).maxDepth 0 ≠ 0 := by
      simp only [LT.maxDepth]; omega
    rw [treeHasher_eq_up H _ _ _ hne]
    exact treeHasherUp_tree H _ _ (Nat.le_refl _)

theorem foldl_max_depths (t : LT) (d s0 : Nat) : (t.depths d).foldl max s0 = max s0 (t.maxDepth d) := by
  induction t generalizing d s0 with
  | tip n => simp [LT.depths, LT.maxDepth]
  | br l r ihl ihr =>
    simp only [LT.depths, LT.maxDepth, List.foldl_append, ihl, ihr]
    omega

theorem maxStructure_depths (t : LT) (d : Nat) : maxStructure (t.depths d) = .ok (t.maxDepth d) := by
  have hf := foldl_max_depths t d 0
  have hl := t.depths_length_pos d
  match hd : t.depths d, hl with
  | s :: ss, _ =>
    rw [hd] at hf
    simp only [List.foldl_cons, Nat.zero_max] at hf
    simp [maxStructure, hf]

theorem newSubtreeFromData_tree (H : HashFn) (t : LT) :
    newSubtreeFromData H (t.depths 0) t.nodes = .ok ⟨t.depths 0, t.hash H, t.nodes⟩ := by
  unfold newSubtreeFromData
  rw [maxStructure_depths]
  simp only [bind, Except.bind]
  rw [treeHasher_tree]

#print axioms LiskVerif.SMTImpl.newSubtreeFromData_tree

end LiskVerif.SMTImpl
