/-
Further one-step lemmas for the connection gater / rate limiter models (used by Props/C18_More.lean).
-/
import LiskVerif.Lemmas.ConnGater

namespace LiskVerif.ConnGater

/-! ### the permanent blacklist under single operations -/

/-- only `unblock ip` removes `ip` from the blacklist -/
theorem isBlocked_apply_of_blocked (g : Gater) (ip : IP) (op : Op)
    (hop : ∀ ip', op = Op.unblock ip' → ip' ≠ ip) (hb : isBlocked g ip = true) :
    isBlocked (apply g op) ip = true := by
  simp only [isBlocked, decide_eq_true_eq] at hb ⊢
  cases op with
  | start => exact hb
  | pen now a s =>
    simp only [apply, (addPenalty_fields g now a s).2.2]
    exact hb
  | sweep now => exact hb
  | block ip' =>
    simp only [apply]
    exact (mem_blockAddr g ip' ip).2 (Or.inr hb)
  | unblock ip' =>
    simp only [apply]
    exact (mem_unblockAddr g ip' ip).2 ⟨fun h => hop ip' rfl h.symm, hb⟩
  | blacklist l =>
    simp only [apply, blacklist_eq]
    split
    · exact hb
    · exact (mem_blockAll l g ip).2 (Or.inr hb)

/-- `unblock ip` removes `ip` -/
theorem isBlocked_unblock (g : Gater) (ip : IP) : isBlocked (apply g (.unblock ip)) ip = false := by
  have h : ip ∉ (unblockAddr g ip).blocked := fun h => ((mem_unblockAddr g ip ip).1 h).1 rfl
  show decide (ip ∈ (unblockAddr g ip).blocked) = false
  exact decide_eq_false h

/-- the score table is untouched by blacklist operations -/
theorem peerScore_apply_config (g : Gater) (op : Op)
    (hop : (∃ ip, op = .block ip) ∨ (∃ ip, op = .unblock ip) ∨ (∃ l, op = .blacklist l) ∨ op = .start) :
    (apply g op).peerScore = g.peerScore := by
  rcases hop with ⟨ip, rfl⟩ | ⟨ip, rfl⟩ | ⟨l, rfl⟩ | rfl
  · simp [apply]
  · rfl
  · simp only [apply, blacklist_eq]
    split
    · rfl
    · exact (blockAll_fields l g).1
  · rfl

end LiskVerif.ConnGater

namespace LiskVerif.RateLimit
open LiskVerif.ConnGater

/-! ### `receive`, case by case (gater started, message protocol started, remote address has an IP) -/

theorem peerAddPenalty_ok' {g : Gater} (hs : g.started = true) (now : Nat) (ip : IP) (p : Nat)
    (s : Int) :
    peerAddPenalty g now ⟨some ip, some p⟩ s =
      ((addPenalty g now ⟨some ip, some p⟩ s).1,
        .ok (if (match find g.peerScore ip with | some i => i.score + s | none => s) ≥ maxPenaltyScore
             then some p else none)) := by
  have h2 : (addPenalty g now ⟨some ip, some p⟩ s).2 =
      .ok (match find g.peerScore ip with | some i => i.score + s | none => s) := by
    rw [addPenalty_ok hs]
    rfl
  unfold peerAddPenalty
  rcases hh : addPenalty g now ⟨some ip, some p⟩ s with ⟨g', r⟩
  rw [hh] at h2
  simp only at h2
  subst h2
  simp only
  split <;> exact (apply_ite (fun x => (g', PenOut.ok x)) _ _ _).symm

theorem nodeBan_ok (n : Node) (hs : n.g.started = true) (now : Nat) (ip : IP) (pid : Nat) :
    nodeBan n now ⟨some ip, some pid⟩ =
      (disconnect { n with g := (addPenalty n.g now ⟨some ip, some pid⟩ maxPenaltyScore).1 } pid,
        .ok (some pid)) := by
  unfold nodeBan banPeer
  rw [addPenalty_ok hs]
  rfl

/-- malformed envelope / unknown procedure: the IP gets `MaxPenaltyScore`, the sender is disconnected -/
theorem receive_bad (n : Node) (hs : n.g.started = true) (now : Nat) (isReq : Bool) (ip : IP)
    (rpid : Option Nat) (pid : Nat) (k : MsgKind)
    (hk : k = .malformed ∨ ∃ name, k = .proc name ∧ findCounter n.counters name = none) :
    receive n now isReq ⟨some ip, rpid⟩ pid k =
      disconnect { n with g := (addPenalty n.g now ⟨some ip, some pid⟩ maxPenaltyScore).1 } pid := by
  have hb := nodeBan_ok n hs now ip pid
  rcases hk with hk | ⟨name, hk, hnone⟩
  · subst hk
    show (nodeBan n now ⟨some ip, some pid⟩).1 = _
    rw [hb]
  · subst hk
    unfold receive
    simp only [hnone, Option.isNone_none, if_true, withPid]
    rw [hb]

theorem find_increase' (n : Node) (name : String) (pid : Nat) (name' : String) :
    findCounter (increase n name pid).counters name' =
      if name = name' then (findCounter n.counters name).map fun c =>
        { c with counts := setCount c.counts pid (getCount c.counts pid + 1) }
      else findCounter n.counters name' := by
  unfold increase
  simp only
  rw [findCounter_updCounter n.counters name (fun c => { c with counts := setCount c.counts pid (getCount c.counts pid + 1) }) (fun _ => rfl) name']

/-- registered procedure, count stays within the limit: only the counter moves; a request is served -/
theorem receive_within (n : Node) (hmp : n.mpStarted = true) (now : Nat) (isReq : Bool)
    (remote : Addr) (pid : Nat) (name : String) (cfg : Counter)
    (hc : findCounter n.counters name = some cfg)
    (hle : ((getCount cfg.counts pid + 1 : Nat) : Int) ≤ cfg.limit) :
    receive n now isReq remote pid (.proc name) =
      if isReq then { increase n name pid with handled := n.handled + 1 } else increase n name pid := by
  have hfind := find_increase' n name pid name
  simp only [if_true, hc, Option.map_some] at hfind
  have hmp' : (increase n name pid).mpStarted = true := hmp
  have hng : ¬ ((getCount (setCount cfg.counts pid (getCount cfg.counts pid + 1)) pid : Nat) : Int) > cfg.limit := by
    simp only [getCount_setCount, if_true]
    omega
  have hcl : checkLimit (increase n name pid) now name pid remote = (increase n name pid, .ok, none) := by
    unfold checkLimit
    simp only [hmp', Bool.not_true, Bool.false_eq_true, if_false, hfind, hng]
  unfold receive
  simp only [hc, Option.isNone_some, Bool.false_eq_true, if_false]
  rw [hcl]
  cases isReq <;> rfl

/-- registered procedure, the message brings the count above the limit: the procedure's penalty is
added to the sender's IP, the counter is reset, and the request is served all the same -/
theorem receive_over (n : Node) (hmp : n.mpStarted = true) (hs : n.g.started = true) (now : Nat)
    (isReq : Bool) (ip : IP) (rpid : Option Nat) (pid : Nat) (name : String) (cfg : Counter)
    (hc : findCounter n.counters name = some cfg)
    (hgt : ((getCount cfg.counts pid + 1 : Nat) : Int) > cfg.limit) :
    (receive n now isReq ⟨some ip, rpid⟩ pid (.proc name)).g =
        (addPenalty n.g now ⟨some ip, some pid⟩ cfg.penalty).1 ∧
    (receive n now isReq ⟨some ip, rpid⟩ pid (.proc name)).counters =
        updCounter (increase n name pid).counters name
          (fun c => { c with counts := setCount c.counts pid 0 }) ∧
    (receive n now isReq ⟨some ip, rpid⟩ pid (.proc name)).mpStarted = true ∧
    (receive n now isReq ⟨some ip, rpid⟩ pid (.proc name)).handled =
        n.handled + (if isReq then 1 else 0) := by
  have hfind := find_increase' n name pid name
  simp only [if_true, hc, Option.map_some] at hfind
  have hmp' : (increase n name pid).mpStarted = true := hmp
  have hg1 : (increase n name pid).g = n.g := rfl
  have hpen := peerAddPenalty_ok' hs now ip pid cfg.penalty
  generalize hn' : receive n now isReq ⟨some ip, rpid⟩ pid (.proc name) = n'
  unfold receive at hn'
  simp only [hc, Option.isNone_some, Bool.false_eq_true, if_false] at hn'
  unfold checkLimit at hn'
  simp only [hmp', Bool.not_true, Bool.false_eq_true, if_false, hfind, getCount_setCount, if_true,
    hgt, nodeAddPenalty, withPid, hg1, hpen] at hn'
  by_cases hth : (match find n.g.peerScore ip with | some i => i.score + cfg.penalty | none => cfg.penalty)
      ≥ maxPenaltyScore
  · simp only [hth, if_true, applyOut] at hn'
    subst hn'
    cases isReq <;> exact ⟨rfl, rfl, rfl, rfl⟩
  · simp only [hth, if_false, applyOut] at hn'
    subst hn'
    cases isReq <;> exact ⟨rfl, rfl, rfl, rfl⟩

/-! ### message events never open connections -/

theorem mem_conns_applyOut (n : Node) (o : PenOut) (c : Nat × Addr) (h : c ∈ (applyOut n o).conns) :
    c ∈ n.conns := by
  cases o with
  | err e => exact h
  | ok d =>
    cases d with
    | none => exact h
    | some p =>
      simp only [applyOut, disconnect, List.mem_filter] at h
      exact h.1

theorem mem_conns_nodeAddPenalty (n : Node) (now : Nat) (a : Addr) (s : Int) (c : Nat × Addr)
    (h : c ∈ (nodeAddPenalty n now a s).1.conns) : c ∈ n.conns := by
  unfold nodeAddPenalty at h
  generalize peerAddPenalty n.g now a s = x at h
  obtain ⟨g', o⟩ := x
  exact mem_conns_applyOut { n with g := g' } o c h

theorem mem_conns_nodeBan (n : Node) (now : Nat) (a : Addr) (c : Nat × Addr)
    (h : c ∈ (nodeBan n now a).1.conns) : c ∈ n.conns := by
  unfold nodeBan at h
  generalize banPeer n.g now a = x at h
  obtain ⟨g', o⟩ := x
  exact mem_conns_applyOut { n with g := g' } o c h

theorem mem_conns_checkLimit (n : Node) (now : Nat) (proc : String) (pid : Nat) (a : Addr)
    (c : Nat × Addr) (h : c ∈ (checkLimit n now proc pid a).1.conns) : c ∈ n.conns := by
  unfold checkLimit at h
  split at h
  · exact h
  · split at h
    · exact h
    · split at h
      · split at h
        · rename_i heq
          have := mem_conns_nodeAddPenalty n now _ _ c (by rw [heq]; exact h)
          exact this
        · rename_i heq
          have := mem_conns_nodeAddPenalty n now _ _ c (by rw [heq]; exact h)
          exact this
      · exact h

theorem mem_conns_receive (n : Node) (now : Nat) (r : Bool) (a : Addr) (pid : Nat) (k : MsgKind)
    (c : Nat × Addr) (h : c ∈ (receive n now r a pid k).conns) : c ∈ n.conns := by
  unfold receive at h
  cases k with
  | malformed => exact mem_conns_nodeBan n now _ c h
  | proc name =>
    simp only at h
    split at h
    · exact mem_conns_nodeBan n now _ c h
    · have hinc : ∀ c, c ∈ (increase n name pid).conns → c ∈ n.conns := fun _ h => h
      split at h
      · rename_i heq
        apply hinc
        apply mem_conns_checkLimit (increase n name pid) now name pid a c
        rw [heq]
        split at h <;> exact h
      · rename_i heq
        apply hinc
        apply mem_conns_checkLimit (increase n name pid) now name pid a c
        rw [heq]
        exact h

theorem mem_conns_runEv (evs : List Ev) (n : Node) (c : Nat × Addr) (h : c ∈ (runEv n evs).conns) :
    c ∈ n.conns := by
  induction evs generalizing n with
  | nil => exact h
  | cons ev r ih =>
    have := ih (applyEv n ev) h
    cases ev with
    | tick => exact this
    | msg now rq a p k => exact mem_conns_receive n now rq a p k c this

end LiskVerif.RateLimit
