/-
`applyE` (Lemmas/SMTImplSem.lean) against the maps of the specification: `applyE` commutes with descending to a
child, keeps well-formedness / non-empty values / `Under`, and at the top level lists the entries of
`applyBatch m b` up to order.
-/
import LiskVerif.Lemmas.SMTImplSem

namespace LiskVerif.SMTImpl
open LiskVerif LiskVerif.SMT

theorem uniqueFirst_eq_dedupFirst (b : List KV) : uniqueFirst b = dedupFirst b := by
  induction b with
  | nil => rfl
  | cons kv r ih => simp only [uniqueFirst, dedupFirst, ih]

/-! ### `applyE` and the children -/

theorem maps_filterMap_filter {α β : Type} (f : α → Option β) (p : α → Bool) (q : β → Bool) (l : List α)
    (h : ∀ x ∈ l, ∀ y, f x = some y → p x = q y) :
    (l.filter p).filterMap f = (l.filterMap f).filter q := by
  induction l with
  | nil => rfl
  | cons a r ih =>
    have ih' := ih (fun x hx => h x (List.mem_cons_of_mem _ hx))
    cases hf : f a with
    | none =>
      rw [List.filterMap_cons_none hf]
      by_cases hp : p a = true
      · rw [List.filter_cons_of_pos hp, List.filterMap_cons_none hf, ih']
      · rw [List.filter_cons_of_neg hp, ih']
    | some y =>
      have hpq := h a List.mem_cons_self y hf
      rw [List.filterMap_cons_some hf]
      by_cases hp : p a = true
      · rw [List.filter_cons_of_pos hp, List.filterMap_cons_some hf,
          List.filter_cons_of_pos (hpq ▸ hp), ih']
      · rw [List.filter_cons_of_neg hp, List.filter_cons_of_neg (hpq ▸ hp), ih']

theorem maps_untouched_nil (e : Entry) : untouched [] e = true := rfl

theorem maps_untouched_cons (o : Entry) (ops : List Entry) (e : Entry) :
    untouched (o :: ops) e = (decide (o.path ≠ e.path) && untouched ops e) := rfl

theorem maps_untouched_goL (ops : List Entry) {e e' : Entry} (h : stepL e = some e') :
    untouched ops e = untouched (goL ops) e' := by
  have hp := (stepL_some h).1
  induction ops with
  | nil => rfl
  | cons o r ih =>
    rw [maps_untouched_cons, ih]
    cases hop : o.path with
    | nil =>
      have : goL (o :: r) = goL r := by
        unfold goL; rw [List.filterMap_cons_none (stepL_nil o hop)]
      rw [this, hp]; simp
    | cons c t =>
      cases c with
      | true =>
        have : goL (o :: r) = goL r := by
          unfold goL; rw [List.filterMap_cons_none (stepL_true o t hop)]
        rw [this, hp]; simp
      | false =>
        have : goL (o :: r) = ⟨t, o.key, o.value⟩ :: goL r := by
          unfold goL; rw [List.filterMap_cons_some (stepL_false o t hop)]
        rw [this, hp, maps_untouched_cons]; simp

theorem maps_untouched_goR (ops : List Entry) {e e' : Entry} (h : stepR e = some e') :
    untouched ops e = untouched (goR ops) e' := by
  have hp := (stepR_some h).1
  induction ops with
  | nil => rfl
  | cons o r ih =>
    rw [maps_untouched_cons, ih]
    cases hop : o.path with
    | nil =>
      have : goR (o :: r) = goR r := by
        unfold goR; rw [List.filterMap_cons_none (stepR_nil o hop)]
      rw [this, hp]; simp
    | cons c t =>
      cases c with
      | false =>
        have : goR (o :: r) = goR r := by
          unfold goR; rw [List.filterMap_cons_none (stepR_false o t hop)]
        rw [this, hp]; simp
      | true =>
        have : goR (o :: r) = ⟨t, o.key, o.value⟩ :: goR r := by
          unfold goR; rw [List.filterMap_cons_some (stepR_true o t hop)]
        rw [this, hp, maps_untouched_cons]; simp

/-- `applyE` commutes with descending to a child -/
theorem goL_applyE (es ops : List Entry) : goL (applyE es ops) = applyE (goL es) (goL ops) := by
  unfold applyE
  show List.filterMap stepL _ = _
  rw [List.filterMap_append]
  congr 1
  · exact maps_filterMap_filter stepL _ _ es (fun x _ y hy => maps_untouched_goL ops hy)
  · exact maps_filterMap_filter stepL _ _ ops (fun x _ y hy => by rw [(stepL_some hy).2.2])

theorem goR_applyE (es ops : List Entry) : goR (applyE es ops) = applyE (goR es) (goR ops) := by
  unfold applyE
  show List.filterMap stepR _ = _
  rw [List.filterMap_append]
  congr 1
  · exact maps_filterMap_filter stepR _ _ es (fun x _ y hy => maps_untouched_goR ops hy)
  · exact maps_filterMap_filter stepR _ _ ops (fun x _ y hy => by rw [(stepR_some hy).2.2])

theorem applyE_nil_ops (es : List Entry) : applyE es [] = es := by
  unfold applyE
  simp [maps_untouched_nil]

theorem maps_mem_applyE {es ops : List Entry} {e : Entry} :
    e ∈ applyE es ops ↔ (e ∈ es ∧ untouched ops e = true) ∨ (e ∈ ops ∧ e.value ≠ []) := by
  unfold applyE
  simp [List.mem_append, List.mem_filter]

theorem maps_untouched_iff {ops : List Entry} {e : Entry} :
    untouched ops e = true ↔ ∀ o ∈ ops, o.path ≠ e.path := by
  unfold untouched
  simp [List.all_eq_true]

/-- well-formedness is kept: paths of length `d`, pairwise distinct -/
theorem wfe_applyE {d : Nat} {es ops : List Entry} (he : WFE d es) (ho : WFE d ops) : WFE d (applyE es ops) := by
  refine ⟨?_, ?_⟩
  · intro e hm
    rcases maps_mem_applyE.mp hm with h | h
    · exact he.1 e h.1
    · exact ho.1 e h.1
  · unfold applyE
    rw [List.pairwise_append]
    refine ⟨he.2.filter _, ho.2.filter _, ?_⟩
    intro a ha b hb
    rw [List.mem_filter] at ha hb
    exact fun hab => maps_untouched_iff.mp ha.2 b hb.1 hab.symm

/-- entries keep non-empty values -/
theorem applyE_values {es ops : List Entry} (he : ∀ e ∈ es, e.value ≠ []) :
    ∀ e ∈ applyE es ops, e.value ≠ [] := by
  intro e hm
  rcases maps_mem_applyE.mp hm with h | h
  · exact he e h.1
  · exact h.2

/-! ### `Under` -/

theorem under_goL {pre : Bits} {es : List Entry} (h : ∀ e ∈ es, Under pre e) :
    ∀ e ∈ goL es, Under (pre ++ [false]) e := by
  intro e' he'
  obtain ⟨e, he, hp, hk, _⟩ := mem_goL.mp he'
  have := h e he
  unfold Under at *
  rw [hk, this, hp]; simp

theorem under_goR {pre : Bits} {es : List Entry} (h : ∀ e ∈ es, Under pre e) :
    ∀ e ∈ goR es, Under (pre ++ [true]) e := by
  intro e' he'
  obtain ⟨e, he, hp, hk, _⟩ := mem_goR.mp he'
  have := h e he
  unfold Under at *
  rw [hk, this, hp]; simp

theorem under_applyE {pre : Bits} {es ops : List Entry} (he : ∀ e ∈ es, Under pre e)
    (ho : ∀ e ∈ ops, Under pre e) : ∀ e ∈ applyE es ops, Under pre e := by
  intro e hm
  rcases maps_mem_applyE.mp hm with h | h
  · exact he e h.1
  · exact ho e h.1

/-- under one node, equal paths mean equal keys -/
theorem under_key_eq {pre : Bits} {a b : Entry} (ha : Under pre a) (hb : Under pre b) :
    a.path = b.path ↔ a.key = b.key := by
  unfold Under at *
  constructor
  · intro h
    apply keyBits_inj
    rw [ha, hb, h]
  · intro h
    rw [h, hb] at ha
    exact (List.append_cancel_left ha).symm

/-! ### the top level -/

theorem wfe_entriesOf (keyLen : Nat) (m : List KV) (hm : NoDupKeys m) (hmk : ∀ kv ∈ m, kv.1.length = keyLen) :
    WFE (8 * keyLen) (entriesOf m) := by
  refine ⟨?_, ?_⟩
  · intro e he
    unfold entriesOf at he
    obtain ⟨kv, hkv, rfl⟩ := List.mem_map.mp he
    show (keyBits kv.1).length = _
    rw [keyBits_length, hmk kv hkv]
  · unfold entriesOf
    rw [List.pairwise_map]
    unfold NoDupKeys List.Nodup at hm
    rw [List.pairwise_map] at hm
    exact hm.imp (fun hne heq => hne (keyBits_inj heq))

theorem maps_opOf_zero (kv : KV) : opOf 0 kv = ⟨keyBits kv.1, kv.1, kv.2⟩ := by
  simp [opOf]

theorem maps_ops_eq (b : List KV) : (uniqueFirst b).map (opOf 0) = entriesOf (dedupFirst b) := by
  rw [uniqueFirst_eq_dedupFirst]
  unfold entriesOf
  exact List.map_congr_left (fun kv _ => maps_opOf_zero kv)

theorem wfe_ops (keyLen : Nat) (b : List KV) (hbk : ∀ kv ∈ b, kv.1.length = keyLen) :
    WFE (8 * keyLen) ((uniqueFirst b).map (opOf 0)) := by
  rw [maps_ops_eq]
  exact wfe_entriesOf keyLen _ (nodupKeys_dedupFirst b) (fun kv h => hbk kv (mem_dedupFirst h))

theorem under_entriesOf (m : List KV) : ∀ e ∈ entriesOf m, Under [] e := by
  intro e he
  unfold entriesOf at he
  obtain ⟨kv, _, rfl⟩ := List.mem_map.mp he
  simp [Under]

theorem under_ops (b : List KV) : ∀ e ∈ (uniqueFirst b).map (opOf 0), Under [] e := by
  rw [maps_ops_eq]
  exact under_entriesOf _

/-- the map after the writes `d` (no key twice), written like `applyE` -/
def mapsApply (m d : List KV) : List KV :=
  m.filter (fun kv => d.all fun o => decide (o.1 ≠ kv.1)) ++ d.filter fun o => decide (o.2 ≠ [])

theorem maps_mem_mapsApply {m d : List KV} {x : KV} :
    x ∈ mapsApply m d ↔ (x ∈ m ∧ ∀ o ∈ d, o.1 ≠ x.1) ∨ (x ∈ d ∧ x.2 ≠ []) := by
  unfold mapsApply
  simp [List.mem_append, List.mem_filter, List.all_eq_true]

theorem maps_applyE_entriesOf_eq (m d : List KV) :
    applyE (entriesOf m) (entriesOf d) = entriesOf (mapsApply m d) := by
  unfold applyE mapsApply entriesOf
  rw [List.map_append, List.filter_map, List.filter_map]
  congr 2
  apply List.filter_congr
  intro kv _
  simp only [Function.comp, untouched, List.all_map]
  congr 1
  funext o
  simp only [Function.comp]
  by_cases h : o.1 = kv.1
  · simp [h]
  · have : keyBits o.1 ≠ keyBits kv.1 := fun he => h (keyBits_inj he)
    simp [h, this]

theorem maps_mapsApply_perm {m d : List KV} (hm : NoDupKeys m) (hd : NoDupKeys d) :
    (mapsApply m d).Perm ((d.map opOfKV).foldl applyOp m) := by
  have hres : NoDupKeys ((d.map opOfKV).foldl applyOp m) := nodupKeys_foldl_applyOp hm _
  have hnd : (mapsApply m d).Nodup := by
    unfold mapsApply
    rw [List.nodup_append]
    refine ⟨(nodup_of_nodupKeys hm).filter _, (nodup_of_nodupKeys hd).filter _, ?_⟩
    intro a ha b hb hab
    rw [List.mem_filter] at ha hb
    have := List.all_eq_true.mp ha.2 b hb.1
    simp [hab] at this
  rw [List.perm_ext_iff_of_nodup hnd (nodup_of_nodupKeys hres)]
  intro ⟨k, v⟩
  have hR : (k, v) ∈ (d.map opOfKV).foldl applyOp m ↔ mget ((d.map opOfKV).foldl applyOp m) k = some v :=
    ⟨mget_eq_some_of_mem hres, mem_of_mget_eq_some⟩
  rw [hR, mget_foldl_ops d hd m k, maps_mem_mapsApply]
  cases hf : d.find? (fun kv => decide (kv.1 = k)) with
  | none =>
    have hno : ∀ o ∈ d, o.1 ≠ k := by
      intro o ho
      have := List.find?_eq_none.mp hf o ho
      simpa using this
    show _ ↔ mget m k = some v
    constructor
    · rintro (h | h)
      · exact mget_eq_some_of_mem hm h.1
      · exact absurd rfl (hno _ h.1)
    · intro h
      exact Or.inl ⟨mem_of_mget_eq_some h, hno⟩
  | some kv =>
    have hmem : kv ∈ d := List.mem_of_find?_eq_some hf
    have hk : kv.1 = k := by simpa using List.find?_some hf
    show _ ↔ opEffect kv = some v
    have hget : mget d k = some kv.2 := mget_eq_some_of_mem hd (by rw [← hk]; exact hmem)
    unfold opEffect
    constructor
    · rintro (h | h)
      · exact absurd hk (h.2 kv hmem)
      · have h2 := mget_eq_some_of_mem hd h.1
        rw [hget] at h2
        have hv : kv.2 = v := by simpa using h2
        have hne : ¬ kv.2 = [] := by rw [hv]; exact h.2
        subst hv
        simp [hne]
    · intro h
      by_cases hne : kv.2 = []
      · simp [hne] at h
      · simp only [hne, if_false, Option.some.injEq] at h
        refine Or.inr ⟨?_, ?_⟩
        · have : (k, v) = kv := by rw [← hk, ← h]
          rw [this]; exact hmem
        · show v ≠ []
          rw [← h]; exact hne

set_option linter.unusedVariables false in
/-- the top level: the entries of the map after the batch, up to order (the key-length hypotheses are not needed:
`keyBits` is injective on keys of any length) -/
theorem applyE_entriesOf (keyLen : Nat) (m b : List KV) (hm : NoDupKeys m)
    (hmk : ∀ kv ∈ m, kv.1.length = keyLen) (hbk : ∀ kv ∈ b, kv.1.length = keyLen) :
    (applyE (entriesOf m) ((uniqueFirst b).map (opOf 0))).Perm (entriesOf (applyBatch m b)) := by
  rw [maps_ops_eq, maps_applyE_entriesOf_eq]
  unfold entriesOf
  apply List.Perm.map
  exact maps_mapsApply_perm hm (nodupKeys_dedupFirst b)

end LiskVerif.SMTImpl

#print axioms LiskVerif.SMTImpl.applyE_entriesOf
