/-
Generic theorems about the interleaving semantics of `LiskVerif/Model/Locks.lean`
(any number of threads, any schedule):

  * `mutual_exclusion`      — a mutex held exclusively by one thread is held by no other thread;
  * `deadlock_free`         — if every thread runs a path satisfying the deadlock criteria
                              (`pathOk`), every reachable state is quiescent or some thread can take a
                              step that needs no communication partner;
  * `race_free`             — if every thread runs a path satisfying the lockset criterion, no
                              reachable state has two threads about to perform conflicting accesses.
-/
import LiskVerif.Model.Locks

namespace LiskVerif.Locks

/-! ### paths -/

theorem pathOkFrom_nil (order : List String) (h : Held) : pathOkFrom order h [] = h.isEmpty := by
  simp [pathOkFrom, trace, heldAfterPath]

theorem pathOkFrom_cons (order : List String) (h : Held) (a : Prim) (p : Path) :
    pathOkFrom order h (a :: p) = (obsDl order (h, a) && pathOkFrom order (heldAfter h a) p) := by
  simp [pathOkFrom, trace, heldAfterPath, Bool.and_assoc]

theorem pathLsFrom_cons (g : List (String × String)) (h : Held) (a : Prim) (p : Path) :
    pathLsFrom g h (a :: p) = ((obsWf (h, a) && obsLockset g (h, a)) && pathLsFrom g (heldAfter h a) p) := by
  simp [pathLsFrom, trace]

/-! ### reachability -/

theorem reachable_induction {P : State → Prop} {s0 : State} (h0 : P s0)
    (hstep : ∀ s i s', P s → stepT s i = some s' → P s') : ∀ s, Reachable s0 s → P s := by
  intro s ⟨sched, hr⟩
  induction sched generalizing s0 with
  | nil => simp [run] at hr; subst hr; exact h0
  | cons i sched ih =>
    simp only [run] at hr
    cases hs : stepT s0 i with
    | none => simp [hs] at hr
    | some s1 =>
      simp only [hs] at hr
      exact ih (hstep s0 i s1 h0 hs) hr

theorem stepT_some {s s' : State} {i : Nat} (h : stepT s i = some s') :
    ∃ t t', s[i]? = some t ∧ stepThread s t = some t' ∧ s' = s.set i t' := by
  unfold stepT at h
  cases hi : s[i]? with
  | none => simp [hi] at h
  | some t =>
    simp only [hi] at h
    cases ht : stepThread s t with
    | none => simp [ht] at h
    | some t' => simp [ht] at h; exact ⟨t, t', rfl, ht, h.symm⟩

/-! ### per-thread invariant for deadlock freedom -/

/-- the remaining program satisfies the criteria from the current lock set, and a pending `Lock()`
request is for the mutex the thread is about to acquire -/
def ThreadOk (order : List String) (t : Thread) : Prop :=
  pathOkFrom order t.held t.prog = true ∧
  ∀ m, t.waiting = some m → ∃ rest, t.prog = Prim.acq m :: rest

theorem threadOk_step {order : List String} {s : State} {t t' : Thread}
    (hok : ThreadOk order t) (hs : stepThread s t = some t') : ThreadOk order t' := by
  obtain ⟨hp, hw⟩ := hok
  have hw' : ∀ a rest, t.prog = a :: rest → (∀ m, a ≠ Prim.acq m) → t.waiting = none := by
    intro a rest hprog hne
    cases hwt : t.waiting with
    | none => rfl
    | some m =>
      obtain ⟨r, hr⟩ := hw m hwt
      rw [hprog] at hr
      injection hr with h1 _
      exact absurd h1 (hne m)
  unfold stepThread at hs
  cases hprog : t.prog with
  | nil => simp [hprog] at hs
  | cons a rest =>
    rw [hprog] at hp
    rw [pathOkFrom_cons] at hp
    have hp2 : pathOkFrom order (heldAfter t.held a) rest = true := by
      simp only [Bool.and_eq_true] at hp; exact hp.2
    cases a with
    | acq m =>
      simp only [hprog] at hs
      split at hs
      · split at hs
        · simp at hs
        · simp at hs; subst hs
          exact ⟨by simpa [heldAfter] using hp2, by simp⟩
      · simp at hs; subst hs
        refine ⟨by simp [pathOkFrom_cons]; simpa [Bool.and_eq_true] using hp, ?_⟩
        intro m' hm'
        simp at hm'; subst hm'
        exact ⟨rest, rfl⟩
    | racq m =>
      simp only [hprog] at hs
      split at hs
      · simp at hs
      · simp at hs; subst hs
        have := hw' _ _ hprog (by intro m' h; cases h)
        exact ⟨by simpa [heldAfter] using hp2, by simp [this]⟩
    | rel m =>
      simp only [hprog] at hs; simp at hs; subst hs
      have := hw' _ _ hprog (by intro m' h; cases h)
      exact ⟨hp2, by simp [this]⟩
    | rrel m =>
      simp only [hprog] at hs; simp at hs; subst hs
      have := hw' _ _ hprog (by intro m' h; cases h)
      exact ⟨hp2, by simp [this]⟩
    | block w =>
      simp only [hprog] at hs; simp at hs; subst hs
      have := hw' _ _ hprog (by intro m' h; cases h)
      exact ⟨hp2, by simp [this]⟩
    | read x =>
      simp only [hprog] at hs; simp at hs; subst hs
      have := hw' _ _ hprog (by intro m' h; cases h)
      exact ⟨hp2, by simp [this]⟩
    | write x =>
      simp only [hprog] at hs; simp at hs; subst hs
      have := hw' _ _ hprog (by intro m' h; cases h)
      exact ⟨hp2, by simp [this]⟩
    | bad x =>
      simp only [hprog] at hs; simp at hs; subst hs
      have := hw' _ _ hprog (by intro m' h; cases h)
      exact ⟨hp2, by simp [this]⟩

def AllOk (order : List String) (s : State) : Prop := ∀ t ∈ s, ThreadOk order t

theorem allOk_init (order : List String) (ps : List Path) (h : ∀ p ∈ ps, pathOk order p = true) :
    AllOk order (initState ps) := by
  intro t ht
  simp only [initState, List.mem_map] at ht
  obtain ⟨p, hp, rfl⟩ := ht
  exact ⟨h p hp, by simp⟩

theorem allOk_step {order : List String} {s s' : State} {i : Nat}
    (hok : AllOk order s) (hs : stepT s i = some s') : AllOk order s' := by
  obtain ⟨t, t', hi, ht, rfl⟩ := stepT_some hs
  intro x hx
  rcases List.mem_or_eq_of_mem_set hx with h | h
  · exact hok x h
  · subst h
    exact threadOk_step (hok t (List.mem_of_getElem? hi)) ht

theorem allOk_reachable {order : List String} {ps : List Path}
    (h : ∀ p ∈ ps, pathOk order p = true) : ∀ s, Reachable (initState ps) s → AllOk order s :=
  reachable_induction (allOk_init order ps h) (fun _ _ _ hok hs => allOk_step hok hs)

/-! ### progress -/

theorem exists_max_nat : ∀ (l : List Nat), l ≠ [] → ∃ x ∈ l, ∀ y ∈ l, y ≤ x := by
  intro l
  induction l with
  | nil => intro h; exact absurd rfl h
  | cons a l ih =>
    intro _
    by_cases hl : l = []
    · subst hl; exact ⟨a, by simp, by simp⟩
    · obtain ⟨x, hx, hmax⟩ := ih hl
      by_cases hax : a ≤ x
      · exact ⟨x, by simp [hx], by
          intro y hy; simp at hy; rcases hy with rfl | hy
          · exact hax
          · exact hmax y hy⟩
      · refine ⟨a, by simp, ?_⟩
        intro y hy; simp at hy; rcases hy with rfl | hy
        · exact Nat.le_refl _
        · have := hmax y hy; omega

/-- ranks of all locks held by some thread -/
def heldRanks (order : List String) (s : State) : List Nat :=
  s.flatMap (fun t => t.held.map (fun e => rank order e.1))

theorem mem_heldRanks {order : List String} {s : State} {x : Nat} :
    x ∈ heldRanks order s ↔ ∃ t ∈ s, ∃ e ∈ t.held, rank order e.1 = x := by
  simp [heldRanks, List.mem_flatMap, List.mem_map]

theorem holds_iff {h : Held} {m : String} : holds h m = true ↔ ∃ e ∈ h, e.1 = m := by
  simp [holds, List.any_eq_true]

theorem holdsW_iff {h : Held} {m : String} : holdsW h m = true ↔ (m, Mode.W) ∈ h := by
  simp only [holdsW, List.any_eq_true, Bool.and_eq_true, beq_iff_eq]
  constructor
  · rintro ⟨⟨a, b⟩, he, h1, h2⟩
    simp at h1 h2; subst h1; subst h2; exact he
  · intro he; exact ⟨(m, Mode.W), he, rfl, rfl⟩

theorem anyHolds_iff {s : State} {m : String} :
    anyHolds s m = true ↔ ∃ t ∈ s, ∃ e ∈ t.held, e.1 = m := by
  simp [anyHolds, List.any_eq_true, holds_iff]

theorem anyHoldsW_imp {s : State} {m : String} (h : anyHoldsW s m = true) : anyHolds s m = true := by
  simp only [anyHoldsW, List.any_eq_true] at h
  obtain ⟨t, ht, hw⟩ := h
  rw [anyHolds_iff]
  exact ⟨t, ht, (m, Mode.W), holdsW_iff.mp hw, rfl⟩

theorem acq_can_step {s : State} {i : Nat} {t : Thread} {m : String} {rest : Path}
    (hi : s[i]? = some t) (hp : t.prog = Prim.acq m :: rest) (hfree : anyHolds s m = false) :
    canStepInternal s i = true := by
  simp only [canStepInternal, hi, atBlock, hp, stepThread, hfree]
  by_cases hw : (t.waiting == some m) = true
  · simp [hw]
  · simp [hw]

theorem racq_can_step {order : List String} {s : State} {i : Nat} {t : Thread} {m : String}
    {rest : Path} (hok : AllOk order s)
    (hi : s[i]? = some t) (hp : t.prog = Prim.racq m :: rest) (hfree : anyHolds s m = false) :
    ∃ j, canStepInternal s j = true := by
  have hW : anyHoldsW s m = false := by
    cases h : anyHoldsW s m with
    | false => rfl
    | true => rw [anyHoldsW_imp h] at hfree; cases hfree
  cases hww : writerWaiting s m with
  | false =>
    refine ⟨i, ?_⟩
    simp [canStepInternal, hi, atBlock, hp, stepThread, hW, hww]
  | true =>
    simp only [writerWaiting, List.any_eq_true, beq_iff_eq] at hww
    obtain ⟨t3, ht3, hw3⟩ := hww
    obtain ⟨j, hj⟩ := List.getElem?_of_mem ht3
    obtain ⟨r3, hr3⟩ := (hok t3 ht3).2 m hw3
    exact ⟨j, acq_can_step hj hr3 hfree⟩

theorem other_can_step {s : State} {i : Nat} {t : Thread} {a : Prim} {rest : Path}
    (hi : s[i]? = some t) (hp : t.prog = a :: rest)
    (h1 : ∀ m, a ≠ Prim.acq m) (h2 : ∀ m, a ≠ Prim.racq m) (h3 : ∀ w, a ≠ Prim.block w) :
    canStepInternal s i = true := by
  cases a with
  | acq m => exact absurd rfl (h1 m)
  | racq m => exact absurd rfl (h2 m)
  | block w => exact absurd rfl (h3 w)
  | rel m => simp [canStepInternal, hi, atBlock, hp, stepThread]
  | rrel m => simp [canStepInternal, hi, atBlock, hp, stepThread]
  | read m => simp [canStepInternal, hi, atBlock, hp, stepThread]
  | write m => simp [canStepInternal, hi, atBlock, hp, stepThread]
  | bad m => simp [canStepInternal, hi, atBlock, hp, stepThread]

/-- a thread that is not parked at a communication, whose next acquisition (if any) concerns a
mutex nobody holds, yields an internal step of some thread -/
theorem thread_progress {order : List String} {s : State} {i : Nat} {t : Thread}
    (hok : AllOk order s) (hi : s[i]? = some t) (hne : t.prog ≠ [])
    (hnb : atBlock t = false)
    (hfree : ∀ m rest, (t.prog = Prim.acq m :: rest ∨ t.prog = Prim.racq m :: rest) → anyHolds s m = false) :
    ∃ j, canStepInternal s j = true := by
  cases hp : t.prog with
  | nil => exact absurd hp hne
  | cons a rest =>
    cases a with
    | acq m => exact ⟨i, acq_can_step hi hp (hfree m rest (Or.inl hp))⟩
    | racq m => exact racq_can_step hok hi hp (hfree m rest (Or.inr hp))
    | block w => simp [atBlock, hp] at hnb
    | rel m => exact ⟨i, other_can_step hi hp (by intro _ h; cases h) (by intro _ h; cases h) (by intro _ h; cases h)⟩
    | rrel m => exact ⟨i, other_can_step hi hp (by intro _ h; cases h) (by intro _ h; cases h) (by intro _ h; cases h)⟩
    | read m => exact ⟨i, other_can_step hi hp (by intro _ h; cases h) (by intro _ h; cases h) (by intro _ h; cases h)⟩
    | write m => exact ⟨i, other_can_step hi hp (by intro _ h; cases h) (by intro _ h; cases h) (by intro _ h; cases h)⟩
    | bad m => exact ⟨i, other_can_step hi hp (by intro _ h; cases h) (by intro _ h; cases h) (by intro _ h; cases h)⟩

/-- progress in every state satisfying the per-thread invariant -/
theorem progress_of_allOk {order : List String} {s : State} (hok : AllOk order s) :
    quiescent s = true ∨ ∃ i, canStepInternal s i = true := by
  by_cases hr : heldRanks order s = []
  · -- nobody holds a lock
    have hempty : ∀ t ∈ s, t.held = [] := by
      intro t ht
      cases hh : t.held with
      | nil => rfl
      | cons e es =>
        have : rank order e.1 ∈ heldRanks order s := mem_heldRanks.mpr ⟨t, ht, e, by simp [hh], rfl⟩
        rw [hr] at this; cases this
    have hfreeAll : ∀ m, anyHolds s m = false := by
      intro m
      cases h : anyHolds s m with
      | false => rfl
      | true =>
        obtain ⟨t, ht, e, he, _⟩ := anyHolds_iff.mp h
        rw [hempty t ht] at he; cases he
    cases hq : quiescent s with
    | true => exact Or.inl rfl
    | false =>
      right
      have : ∃ t ∈ s, (finished t || (atBlock t && t.held.isEmpty && t.waiting.isNone)) = false := by
        simp only [quiescent] at hq
        have := List.all_eq_false.mp hq
        obtain ⟨t, ht, h⟩ := this
        exact ⟨t, ht, Bool.eq_false_iff.mpr h⟩
      obtain ⟨t, ht, hnq⟩ := this
      obtain ⟨i, hi⟩ := List.getElem?_of_mem ht
      simp only [Bool.or_eq_false_iff] at hnq
      obtain ⟨hfin, hpark⟩ := hnq
      have hne : t.prog ≠ [] := by
        intro h; simp [finished, h] at hfin
      have hnb : atBlock t = false := by
        cases hb : atBlock t with
        | false => rfl
        | true =>
          -- parked at a communication with no lock: then a Lock() request would be pending, impossible
          simp only [hb, hempty t ht, List.isEmpty_nil, Bool.and_true, Bool.true_and] at hpark
          cases hw : t.waiting with
          | none => simp [hw] at hpark
          | some m =>
            obtain ⟨r, hr2⟩ := (hok t ht).2 m hw
            simp [atBlock, hr2] at hb
      exact thread_progress hok hi hne hnb (fun m _ _ => hfreeAll m)
  · -- the thread holding the lock of highest rank is never blocked
    right
    obtain ⟨x, hx, hmax⟩ := exists_max_nat _ hr
    obtain ⟨t, ht, e, he, hex⟩ := mem_heldRanks.mp hx
    obtain ⟨i, hi⟩ := List.getElem?_of_mem ht
    have hpo := (hok t ht).1
    have hne : t.prog ≠ [] := by
      intro h
      rw [h, pathOkFrom_nil] at hpo
      cases hh : t.held with
      | nil => rw [hh] at he; cases he
      | cons _ _ => simp [hh] at hpo
    have hnb : atBlock t = false := by
      cases hb : atBlock t with
      | false => rfl
      | true =>
        cases hp : t.prog with
        | nil => exact absurd hp hne
        | cons a rest =>
          cases a with
          | block w =>
            rw [hp, pathOkFrom_cons] at hpo
            simp only [obsDl, obsNoBlocking, Bool.and_eq_true] at hpo
            have : t.held.isEmpty = true := hpo.1.2
            cases hh : t.held with
            | nil => rw [hh] at he; cases he
            | cons _ _ => simp [hh] at this
          | acq m => simp [atBlock, hp] at hb
          | racq m => simp [atBlock, hp] at hb
          | rel m => simp [atBlock, hp] at hb
          | rrel m => simp [atBlock, hp] at hb
          | read m => simp [atBlock, hp] at hb
          | write m => simp [atBlock, hp] at hb
          | bad m => simp [atBlock, hp] at hb
    refine thread_progress hok hi hne hnb ?_
    intro m rest hp
    -- the next acquisition of t is above every lock t holds, hence above every held lock
    have hord : ∀ e' ∈ t.held, rank order e'.1 < rank order m := by
      rcases hp with hp | hp
      · rw [hp, pathOkFrom_cons] at hpo
        simp only [obsDl, obsOrder, Bool.and_eq_true, List.all_eq_true, decide_eq_true_eq] at hpo
        exact hpo.1.1.2
      · rw [hp, pathOkFrom_cons] at hpo
        simp only [obsDl, obsOrder, Bool.and_eq_true, List.all_eq_true, decide_eq_true_eq] at hpo
        exact hpo.1.1.2
    cases h : anyHolds s m with
    | false => rfl
    | true =>
      obtain ⟨t2, ht2, e2, he2, hm2⟩ := anyHolds_iff.mp h
      have h1 : rank order m ≤ x := hmax _ (mem_heldRanks.mpr ⟨t2, ht2, e2, he2, by rw [hm2]⟩)
      have h2 := hord e he
      omega

/-- **Deadlock freedom.** If every thread runs a path satisfying the criteria, every reachable state is
quiescent (all threads finished or parked at a communication outside any critical section) or some
thread can take a step that needs no communication partner. -/
theorem deadlock_free (order : List String) (ps : List Path)
    (h : ∀ p ∈ ps, pathOk order p = true) (s : State) (hr : Reachable (initState ps) s) :
    quiescent s = true ∨ ∃ i, canStepInternal s i = true :=
  progress_of_allOk (allOk_reachable h s hr)

/-! ### mutual exclusion -/

/-- a mutex held exclusively by one thread is not held (in any mode) by another thread -/
def Excl (s : State) : Prop :=
  ∀ (i j : Nat) (ti tj : Thread) (m : String) (md : Mode), i ≠ j → s[i]? = some ti → s[j]? = some tj →
    (m, Mode.W) ∈ ti.held → (m, md) ∉ tj.held

/-- what a step can do to the lock set of the stepping thread -/
theorem stepThread_held {s : State} {t t' : Thread} (hs : stepThread s t = some t') :
    ∀ e ∈ t'.held, e ∈ t.held ∨ (e.2 = Mode.W ∧ anyHolds s e.1 = false) ∨ (e.2 = Mode.R ∧ anyHoldsW s e.1 = false) := by
  unfold stepThread at hs
  cases hprog : t.prog with
  | nil => simp [hprog] at hs
  | cons a rest =>
    cases a with
    | acq m =>
      simp only [hprog] at hs
      split at hs
      · split at hs
        · simp at hs
        · rename_i hfree
          simp at hs; subst hs
          intro e he
          simp at he
          rcases he with rfl | he
          · right; left; exact ⟨rfl, by simpa using hfree⟩
          · left; exact he
      · simp at hs; subst hs
        intro e he; left; exact he
    | racq m =>
      simp only [hprog] at hs
      split at hs
      · simp at hs
      · rename_i hfree
        simp at hs; subst hs
        intro e he
        simp at he
        rcases he with rfl | he
        · right; right
          refine ⟨rfl, ?_⟩
          cases h : anyHoldsW s m with
          | false => rfl
          | true => simp [h] at hfree
        · left; exact he
    | rel m =>
      simp only [hprog] at hs; simp at hs; subst hs
      intro e he; left; exact List.mem_of_mem_erase he
    | rrel m =>
      simp only [hprog] at hs; simp at hs; subst hs
      intro e he; left; exact List.mem_of_mem_erase he
    | block w => simp only [hprog] at hs; simp at hs; subst hs; intro e he; left; exact he
    | read x => simp only [hprog] at hs; simp at hs; subst hs; intro e he; left; exact he
    | write x => simp only [hprog] at hs; simp at hs; subst hs; intro e he; left; exact he
    | bad x => simp only [hprog] at hs; simp at hs; subst hs; intro e he; left; exact he

theorem getElem?_set_cases {s : State} {k i : Nat} {t' x : Thread} (h : (s.set k t')[i]? = some x) :
    (i = k ∧ x = t') ∨ (i ≠ k ∧ s[i]? = some x) := by
  by_cases hik : k = i
  · subst hik
    left
    rw [List.getElem?_set_self'] at h
    cases hk : s[k]? with
    | none => simp [hk] at h
    | some y => simp [hk] at h; exact ⟨rfl, h.symm⟩
  · right
    rw [List.getElem?_set_ne hik] at h
    exact ⟨fun h' => hik h'.symm, h⟩

theorem excl_init (ps : List Path) : Excl (initState ps) := by
  intro i j ti tj m md _ hi _ hm
  have : ti ∈ initState ps := List.mem_of_getElem? hi
  simp only [initState, List.mem_map] at this
  obtain ⟨p, _, rfl⟩ := this
  cases hm

theorem excl_step {s s' : State} {k : Nat} (hex : Excl s) (hs : stepT s k = some s') : Excl s' := by
  obtain ⟨t, t', hk, ht, rfl⟩ := stepT_some hs
  have hheld := stepThread_held ht
  intro i j ti tj m md hij hi hj hmi hmj
  rcases getElem?_set_cases hi with ⟨rfl, rfl⟩ | ⟨hik, hi'⟩
  · rcases getElem?_set_cases hj with ⟨hjk, _⟩ | ⟨hjk, hj'⟩
    · exact hij hjk.symm
    · -- the stepping thread holds (m, W)
      rcases hheld _ hmi with h | ⟨_, hfree⟩ | ⟨hR, _⟩
      · exact hex i j t tj m md hij hk hj' h hmj
      · have : anyHolds s m = true := anyHolds_iff.mpr ⟨tj, List.mem_of_getElem? hj', (m, md), hmj, rfl⟩
        simp [this] at hfree
      · cases hR
  · rcases getElem?_set_cases hj with ⟨rfl, rfl⟩ | ⟨hjk, hj'⟩
    · -- the stepping thread holds (m, md), another thread holds (m, W)
      rcases hheld _ hmj with h | ⟨_, hfree⟩ | ⟨_, hfree⟩
      · exact hex i j ti t m md hij hi' hk hmi h
      · have : anyHolds s m = true := anyHolds_iff.mpr ⟨ti, List.mem_of_getElem? hi', (m, Mode.W), hmi, rfl⟩
        simp [this] at hfree
      · have : anyHoldsW s m = true := by
          simp only [anyHoldsW, List.any_eq_true]
          exact ⟨ti, List.mem_of_getElem? hi', holdsW_iff.mpr hmi⟩
        simp [this] at hfree
    · exact hex i j ti tj m md hij hi' hj' hmi hmj

/-- **Mutual exclusion** (holds for every program): in every reachable state a mutex held exclusively
by one thread is held by no other thread, in any mode. -/
theorem mutual_exclusion (ps : List Path) (s : State) (hr : Reachable (initState ps) s) : Excl s :=
  reachable_induction (excl_init ps) (fun _ _ _ h hs => excl_step h hs) s hr

/-! ### lockset discipline implies race freedom -/

def AllLs (g : List (String × String)) (s : State) : Prop :=
  ∀ t ∈ s, pathLsFrom g t.held t.prog = true

theorem stepThread_shape {s : State} {t t' : Thread} (hs : stepThread s t = some t') :
    (t'.held = t.held ∧ t'.prog = t.prog) ∨
    (∃ a rest, t.prog = a :: rest ∧ t'.held = heldAfter t.held a ∧ t'.prog = rest) := by
  unfold stepThread at hs
  cases hprog : t.prog with
  | nil => simp [hprog] at hs
  | cons a rest =>
    cases a with
    | acq m =>
      simp only [hprog] at hs
      split at hs
      · split at hs
        · simp at hs
        · simp at hs; subst hs; right; exact ⟨_, _, rfl, rfl, rfl⟩
      · simp at hs; subst hs; left; exact ⟨rfl, rfl⟩
    | racq m =>
      simp only [hprog] at hs
      split at hs
      · simp at hs
      · simp at hs; subst hs; right; exact ⟨_, _, rfl, rfl, rfl⟩
    | rel m => simp only [hprog] at hs; simp at hs; subst hs; right; exact ⟨_, _, rfl, rfl, rfl⟩
    | rrel m => simp only [hprog] at hs; simp at hs; subst hs; right; exact ⟨_, _, rfl, rfl, rfl⟩
    | block w => simp only [hprog] at hs; simp at hs; subst hs; right; exact ⟨_, _, rfl, rfl, rfl⟩
    | read x => simp only [hprog] at hs; simp at hs; subst hs; right; exact ⟨_, _, rfl, rfl, rfl⟩
    | write x => simp only [hprog] at hs; simp at hs; subst hs; right; exact ⟨_, _, rfl, rfl, rfl⟩
    | bad x => simp only [hprog] at hs; simp at hs; subst hs; right; exact ⟨_, _, rfl, rfl, rfl⟩

theorem allLs_step {g : List (String × String)} {s s' : State} {i : Nat}
    (hok : AllLs g s) (hs : stepT s i = some s') : AllLs g s' := by
  obtain ⟨t, t', hi, ht, rfl⟩ := stepT_some hs
  intro x hx
  rcases List.mem_or_eq_of_mem_set hx with h | h
  · exact hok x h
  · subst h
    have hto := hok t (List.mem_of_getElem? hi)
    rcases stepThread_shape ht with ⟨h1, h2⟩ | ⟨a, rest, hp, h1, h2⟩
    · rw [h1, h2]; exact hto
    · rw [hp, pathLsFrom_cons] at hto
      rw [h1, h2]
      simp only [Bool.and_eq_true] at hto
      exact hto.2

theorem allLs_init (g : List (String × String)) (ps : List Path) (h : ∀ p ∈ ps, pathLs g p = true) :
    AllLs g (initState ps) := by
  intro t ht
  simp only [initState, List.mem_map] at ht
  obtain ⟨p, hp, rfl⟩ := ht
  exact h p hp

theorem write_holds {g : List (String × String)} {t : Thread} {x : String} {rest : Path}
    (h : pathLsFrom g t.held t.prog = true) (hp : t.prog = Prim.write x :: rest) :
    ∃ m, g.lookup x = some m ∧ (m, Mode.W) ∈ t.held := by
  rw [hp, pathLsFrom_cons] at h
  simp only [Bool.and_eq_true, obsLockset] at h
  have h2 := h.1.2
  cases hl : g.lookup x with
  | none => simp [hl] at h2
  | some m => simp [hl] at h2; exact ⟨m, rfl, holdsW_iff.mp h2⟩

theorem read_holds {g : List (String × String)} {t : Thread} {x : String} {rest : Path}
    (h : pathLsFrom g t.held t.prog = true) (hp : t.prog = Prim.read x :: rest) :
    ∃ m md, g.lookup x = some m ∧ (m, md) ∈ t.held := by
  rw [hp, pathLsFrom_cons] at h
  simp only [Bool.and_eq_true, obsLockset] at h
  have h2 := h.1.2
  cases hl : g.lookup x with
  | none => simp [hl] at h2
  | some m =>
    simp [hl] at h2
    obtain ⟨e, he, hm⟩ := holds_iff.mp h2
    exact ⟨m, e.2, rfl, by rw [← hm]; exact he⟩

theorem no_race_of_inv {g : List (String × String)} {s : State} (hls : AllLs g s) (hex : Excl s)
    (i j : Nat) : raceAt s i j = false := by
  cases hr : raceAt s i j with
  | false => rfl
  | true =>
    exfalso
    unfold raceAt at hr
    cases hi : s[i]? with
    | none => simp [hi] at hr
    | some ti =>
      cases hj : s[j]? with
      | none => simp [hi, hj] at hr
      | some tj =>
        simp only [hi, hj] at hr
        cases hpi : ti.prog with
        | nil => simp [hpi] at hr
        | cons a ra =>
          cases hpj : tj.prog with
          | nil => simp [hpi, hpj] at hr
          | cons b rb =>
            simp only [hpi, hpj, Bool.and_eq_true, bne_iff_ne, ne_eq] at hr
            obtain ⟨hij, hc⟩ := hr
            have hti := hls ti (List.mem_of_getElem? hi)
            have htj := hls tj (List.mem_of_getElem? hj)
            cases a <;> cases b <;> simp [conflict] at hc
            · -- read / write
              subst hc
              obtain ⟨m, md, hl, hm⟩ := read_holds hti hpi
              obtain ⟨m', hl', hm'⟩ := write_holds htj hpj
              rw [hl] at hl'; injection hl' with hmm; subst hmm
              exact hex j i tj ti m md (fun h => hij h.symm) hj hi hm' hm
            · -- write / read
              subst hc
              obtain ⟨m, hl, hm⟩ := write_holds hti hpi
              obtain ⟨m', md, hl', hm'⟩ := read_holds htj hpj
              rw [hl] at hl'; injection hl' with hmm; subst hmm
              exact hex i j ti tj m md hij hi hj hm hm'
            · -- write / write
              subst hc
              obtain ⟨m, hl, hm⟩ := write_holds hti hpi
              obtain ⟨m', hl', hm'⟩ := write_holds htj hpj
              rw [hl] at hl'; injection hl' with hmm; subst hmm
              exact hex i j ti tj m Mode.W hij hi hj hm hm'

/-- **Race freedom.** If every thread runs a path satisfying the lockset criterion for the guard
assignment `g`, then in no reachable state two distinct threads are about to perform conflicting
accesses (same variable, at least one write). -/
theorem race_free (g : List (String × String)) (ps : List Path)
    (h : ∀ p ∈ ps, pathLs g p = true) (s : State) (hr : Reachable (initState ps) s) (i j : Nat) :
    raceAt s i j = false :=
  no_race_of_inv
    (reachable_induction (allLs_init g ps h) (fun _ _ _ hok hs => allLs_step hok hs) s hr)
    (mutual_exclusion ps s hr) i j

end LiskVerif.Locks
