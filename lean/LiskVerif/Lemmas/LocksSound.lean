/-
Soundness of the abstract interpreter `an` (on which the decidable criteria are computed) with
respect to the path semantics `den` of skeletons: every observation `(held locks, action)` made along
any run — with calls inlined to any depth, loops iterated any number of times — is among the
observations the analysis records, and the lock state after the run is among the states it computes.
-/
import LiskVerif.Lemmas.Locks

namespace LiskVerif.Locks

/-! ### small list lemmas -/

theorem mem_insertD {α} [DecidableEq α] {x y : α} {l : List α} : x ∈ insertD y l ↔ x = y ∨ x ∈ l := by
  unfold insertD
  by_cases h : l.contains y = true
  · simp only [h, if_true]
    constructor
    · intro hx; exact Or.inr hx
    · rintro (rfl | hx)
      · simpa using h
      · exact hx
  · simp only [h]
    simp only [List.mem_append, List.mem_singleton, Bool.false_eq_true, if_false]
    constructor
    · rintro (hx | rfl)
      · exact Or.inr hx
      · exact Or.inl rfl
    · rintro (rfl | hx)
      · exact Or.inr rfl
      · exact Or.inl hx

theorem mem_foldl_insertD {α β} [DecidableEq β] (f : α → β) (l : List α) (init : List β) (y : β) :
    y ∈ l.foldl (fun acc a => insertD (f a) acc) init ↔ y ∈ init ∨ ∃ a ∈ l, f a = y := by
  induction l generalizing init with
  | nil => simp
  | cons a l ih =>
    simp only [List.foldl_cons, ih, mem_insertD, List.mem_cons]
    constructor
    · rintro ((rfl | h) | ⟨b, hb, rfl⟩)
      · exact Or.inr ⟨a, Or.inl rfl, rfl⟩
      · exact Or.inl h
      · exact Or.inr ⟨b, Or.inr hb, rfl⟩
    · rintro (h | ⟨b, (rfl | hb), rfl⟩)
      · exact Or.inl (Or.inr h)
      · exact Or.inl (Or.inl rfl)
      · exact Or.inr ⟨b, hb, rfl⟩

theorem mem_unionD {α} [DecidableEq α] {x : α} {a b : List α} : x ∈ unionD a b ↔ x ∈ a ∨ x ∈ b := by
  unfold unionD
  have := mem_foldl_insertD (fun y : α => y) b a x
  simp only [this]
  constructor
  · rintro (h | ⟨y, hy, rfl⟩)
    · exact Or.inl h
    · exact Or.inr hy
  · rintro (h | h)
    · exact Or.inl h
    · exact Or.inr ⟨x, h, rfl⟩

theorem subsetD_iff {α} [DecidableEq α] {a b : List α} : subsetD a b = true ↔ ∀ x ∈ a, x ∈ b := by
  simp [subsetD, List.all_eq_true]

/-! ### traces -/

theorem trace_append (h : Held) (p q : Path) :
    trace h (p ++ q) = trace h p ++ trace (heldAfterPath h p) q := by
  induction p generalizing h with
  | nil => simp [trace, heldAfterPath]
  | cons a p ih => simp [trace, heldAfterPath, ih]

theorem heldAfterPath_append (h : Held) (p q : Path) :
    heldAfterPath h (p ++ q) = heldAfterPath (heldAfterPath h p) q := by
  induction p generalizing h with
  | nil => simp [heldAfterPath]
  | cons a p ih => simp [heldAfterPath, ih]

theorem rundown_eq (h : Held) (d : Path) : rundown h d = (trace h d, heldAfterPath h d) := by
  induction d generalizing h with
  | nil => simp [rundown, trace, heldAfterPath]
  | cons a d ih => simp [rundown, trace, heldAfterPath, ih]

theorem exits_spec (sts : List ASt) :
    ∀ st ∈ sts, (∀ o ∈ trace st.1 st.2, o ∈ (exits sts).1) ∧ heldAfterPath st.1 st.2 ∈ (exits sts).2 := by
  unfold exits
  suffices h : ∀ (acc : List Obs × List Held),
      (∀ o ∈ acc.1, o ∈ (sts.foldl (fun acc st => let r := rundown st.1 st.2; (acc.1 ++ r.1, insertD r.2 acc.2)) acc).1) ∧
      (∀ x ∈ acc.2, x ∈ (sts.foldl (fun acc st => let r := rundown st.1 st.2; (acc.1 ++ r.1, insertD r.2 acc.2)) acc).2) ∧
      ∀ st ∈ sts, (∀ o ∈ trace st.1 st.2, o ∈ (sts.foldl (fun acc st => let r := rundown st.1 st.2; (acc.1 ++ r.1, insertD r.2 acc.2)) acc).1) ∧
        heldAfterPath st.1 st.2 ∈ (sts.foldl (fun acc st => let r := rundown st.1 st.2; (acc.1 ++ r.1, insertD r.2 acc.2)) acc).2 by
    exact (h ([], [])).2.2
  induction sts with
  | nil => intro acc; simp
  | cons s sts ih =>
    intro acc
    simp only [List.foldl_cons]
    obtain ⟨h1, h2, h3⟩ := ih (acc.1 ++ (rundown s.1 s.2).1, insertD (rundown s.1 s.2).2 acc.2)
    refine ⟨?_, ?_, ?_⟩
    · intro o ho; exact h1 o (by simp [ho])
    · intro x hx; exact h2 x (mem_insertD.mpr (Or.inr hx))
    · intro st hst
      rcases List.mem_cons.mp hst with rfl | hst
      · constructor
        · intro o ho; exact h1 o (by simp [rundown_eq, ho])
        · exact h2 _ (mem_insertD.mpr (Or.inl (by simp [rundown_eq])))
      · exact h3 st hst

/-! ### soundness relation -/

/-- the runs `rs` started in any of the states `sts` only make observations in `obs` and end in `fall`
(control falls through) or `rets` (a `return` was executed) -/
def SoundFor (sts : List ASt) (rs : List Run) (obs : List Obs) (fall rets : List ASt) : Prop :=
  ∀ st ∈ sts, ∀ run ∈ rs,
    (∀ o ∈ trace st.1 run.path, o ∈ obs) ∧
    (run.returned = false → (heldAfterPath st.1 run.path, run.defers ++ st.2) ∈ fall) ∧
    (run.returned = true → (heldAfterPath st.1 run.path, run.defers ++ st.2) ∈ rets)

theorem SoundFor.mono {sts : List ASt} {rs : List Run} {o o' : List Obs} {f f' t t' : List ASt}
    (h : SoundFor sts rs o f t) (ho : ∀ x ∈ o, x ∈ o') (hf : ∀ x ∈ f, x ∈ f') (ht : ∀ x ∈ t, x ∈ t') :
    SoundFor sts rs o' f' t' := by
  intro st hst run hrun
  obtain ⟨h1, h2, h3⟩ := h st hst run hrun
  exact ⟨fun x hx => ho x (h1 x hx), fun hr => hf _ (h2 hr), fun hr => ht _ (h3 hr)⟩

theorem SoundFor.seq {sts : List ASt} {rs1 rs2 : List Run} {o1 o2 o : List Obs} {f1 f2 f t1 t2 t : List ASt}
    (h1 : SoundFor sts rs1 o1 f1 t1) (h2 : SoundFor f1 rs2 o2 f2 t2)
    (ho1 : ∀ x ∈ o1, x ∈ o) (ho2 : ∀ x ∈ o2, x ∈ o) (hf : ∀ x ∈ f2, x ∈ f)
    (ht1 : ∀ x ∈ t1, x ∈ t) (ht2 : ∀ x ∈ t2, x ∈ t) :
    SoundFor sts (seqRuns rs1 rs2) o f t := by
  intro st hst run hrun
  simp only [seqRuns, List.mem_flatMap] at hrun
  obtain ⟨r1, hr1, hrun⟩ := hrun
  obtain ⟨a1, b1, c1⟩ := h1 st hst r1 hr1
  by_cases hret : r1.returned = true
  · simp only [hret, if_true, List.mem_singleton] at hrun
    subst hrun
    exact ⟨fun x hx => ho1 x (a1 x hx), fun h => (by rw [hret] at h; cases h), fun _ => ht1 _ (c1 hret)⟩
  · have hret' : r1.returned = false := by cases h : r1.returned <;> simp_all
    simp only [hret', Bool.false_eq_true, if_false, List.mem_map] at hrun
    obtain ⟨r2, hr2, rfl⟩ := hrun
    have hst1 := b1 hret'
    obtain ⟨a2, b2, c2⟩ := h2 _ hst1 r2 hr2
    refine ⟨?_, ?_, ?_⟩
    · intro x hx
      rw [trace_append] at hx
      rcases List.mem_append.mp hx with hx | hx
      · exact ho1 x (a1 x hx)
      · exact ho2 x (a2 x hx)
    · intro h
      have := b2 h
      simp only [heldAfterPath_append, List.append_assoc] at this ⊢
      exact hf _ this
    · intro h
      have := c2 h
      simp only [heldAfterPath_append, List.append_assoc] at this ⊢
      exact ht2 _ this

/-- a single primitive -/
theorem soundFor_prim (sts : List ASt) (a : Prim) :
    SoundFor sts [⟨[a], [], false, []⟩] (stepAll sts a).obs (stepAll sts a).fall (stepAll sts a).rets := by
  intro st hst run hrun
  simp only [List.mem_singleton] at hrun
  subst hrun
  refine ⟨?_, ?_, ?_⟩
  · intro o ho
    simp only [trace, List.mem_singleton] at ho
    subst ho
    simp only [stepAll, List.mem_map]
    exact ⟨st, hst, rfl⟩
  · intro _
    simp only [stepAll, heldAfterPath, List.nil_append]
    exact (mem_foldl_insertD _ _ _ _).mpr (Or.inr ⟨st, hst, rfl⟩)
  · intro h; cases h

theorem soundFor_skip (sts : List ASt) (sp : List (List Act)) : SoundFor sts [⟨[], [], false, sp⟩] [] sts [] := by
  intro st hst run hrun
  simp only [List.mem_singleton] at hrun
  subst hrun
  refine ⟨by intro o ho; simp [trace] at ho, fun _ => by simpa [heldAfterPath] using hst, fun h => by cases h⟩

theorem soundFor_defer (sts : List ASt) (a : Prim) :
    SoundFor sts [⟨[], [a], false, []⟩] [] (sts.foldl (fun acc st => insertD (st.1, a :: st.2) acc) []) [] := by
  intro st hst run hrun
  simp only [List.mem_singleton] at hrun
  subst hrun
  refine ⟨by intro o ho; simp [trace] at ho, fun _ => ?_, fun h => by cases h⟩
  simp only [heldAfterPath, List.cons_append, List.nil_append]
  exact (mem_foldl_insertD _ _ _ _).mpr (Or.inr ⟨st, hst, rfl⟩)

theorem soundFor_ret (sts : List ASt) : SoundFor sts [⟨[], [], true, []⟩] [] [] sts := by
  intro st hst run hrun
  simp only [List.mem_singleton] at hrun
  subst hrun
  refine ⟨by intro o ho; simp [trace] at ho, fun h => (by cases h), fun _ => by simpa [heldAfterPath] using hst⟩

/-! ### the folds of the analysis -/

private def callF (f : ASt → Option Res) : Option Res → ASt → Option Res := fun acc st =>
  match acc, f st with
  | some r, some rb => some (callCombine r st rb)
  | _, _ => none

private theorem foldl_callF_none (f : ASt → Option Res) (sts : List ASt) :
    sts.foldl (callF f) none = none := by
  induction sts with
  | nil => rfl
  | cons s sts ih => simpa [List.foldl_cons, callF] using ih

private theorem foldCall_gen (f : ASt → Option Res) (sts : List ASt) (r0 r : Res)
    (h : sts.foldl (callF f) (some r0) = some r) :
    ((∀ o ∈ r0.obs, o ∈ r.obs) ∧ (∀ x ∈ r0.fall, x ∈ r.fall)) ∧
    ∀ st ∈ sts, ∃ rb, f st = some rb ∧ (∀ o ∈ rb.obs, o ∈ r.obs) ∧
      (∀ o ∈ (exits (unionD rb.fall rb.rets)).1, o ∈ r.obs) ∧
      (∀ hd ∈ (exits (unionD rb.fall rb.rets)).2, (hd, st.2) ∈ r.fall) := by
  induction sts generalizing r0 with
  | nil =>
    simp only [List.foldl_nil, Option.some.injEq] at h
    subst h
    exact ⟨⟨fun _ h => h, fun _ h => h⟩, by intro st hst; cases hst⟩
  | cons s sts ih =>
    simp only [List.foldl_cons] at h
    cases hf : f s with
    | none =>
      have : callF f (some r0) s = none := by simp [callF, hf]
      rw [this, foldl_callF_none] at h
      cases h
    | some rb =>
      have hc : callF f (some r0) s = some (callCombine r0 s rb) := by simp [callF, hf]
      rw [hc] at h
      obtain ⟨⟨h1, h2⟩, h3⟩ := ih _ h
      have hobs : ∀ o, (o ∈ r0.obs ∨ o ∈ rb.obs ∨ o ∈ (exits (unionD rb.fall rb.rets)).1) → o ∈ r.obs := by
        intro o ho
        apply h1
        simp only [callCombine, List.mem_append]
        rcases ho with ho | ho | ho
        · exact Or.inl (Or.inl ho)
        · exact Or.inl (Or.inr ho)
        · exact Or.inr ho
      have hfall : ∀ x, (x ∈ r0.fall ∨ ∃ hd ∈ (exits (unionD rb.fall rb.rets)).2, (hd, s.2) = x) → x ∈ r.fall := by
        intro x hx
        apply h2
        simp only [callCombine]
        exact (mem_foldl_insertD (fun hd => (hd, s.2)) _ _ _).mpr hx
      refine ⟨⟨fun o ho => hobs o (Or.inl ho), fun x hx => hfall x (Or.inl hx)⟩, ?_⟩
      intro st hst
      rcases List.mem_cons.mp hst with rfl | hst
      · exact ⟨rb, hf, fun o ho => hobs o (Or.inr (Or.inl ho)), fun o ho => hobs o (Or.inr (Or.inr ho)),
          fun hd hhd => hfall _ (Or.inr ⟨hd, hhd, rfl⟩)⟩
      · exact h3 st hst

theorem foldCall_spec (f : ASt → Option Res) (sts : List ASt) (r : Res) (h : foldCall f sts = some r) :
    ∀ st ∈ sts, ∃ rb, f st = some rb ∧ (∀ o ∈ rb.obs, o ∈ r.obs) ∧
      (∀ o ∈ (exits (unionD rb.fall rb.rets)).1, o ∈ r.obs) ∧
      (∀ hd ∈ (exits (unionD rb.fall rb.rets)).2, (hd, st.2) ∈ r.fall) :=
  (foldCall_gen f sts _ r h).2

private def choiceF (f : List Act → Option Res) : Option Res → List Act → Option Res := fun acc alt =>
  match acc, f alt with
  | some r, some ra => some ⟨r.obs ++ ra.obs, unionD r.fall ra.fall, unionD r.rets ra.rets⟩
  | _, _ => none

private theorem foldl_choiceF_none (f : List Act → Option Res) (alts : List (List Act)) :
    alts.foldl (choiceF f) none = none := by
  induction alts with
  | nil => rfl
  | cons s sts ih => simpa [List.foldl_cons, choiceF] using ih

private theorem foldChoice_gen (f : List Act → Option Res) (alts : List (List Act)) (r0 r : Res)
    (h : alts.foldl (choiceF f) (some r0) = some r) :
    ((∀ o ∈ r0.obs, o ∈ r.obs) ∧ (∀ x ∈ r0.fall, x ∈ r.fall) ∧ (∀ x ∈ r0.rets, x ∈ r.rets)) ∧
    ∀ alt ∈ alts, ∃ ra, f alt = some ra ∧ (∀ o ∈ ra.obs, o ∈ r.obs) ∧
      (∀ x ∈ ra.fall, x ∈ r.fall) ∧ (∀ x ∈ ra.rets, x ∈ r.rets) := by
  induction alts generalizing r0 with
  | nil =>
    simp only [List.foldl_nil, Option.some.injEq] at h
    subst h
    exact ⟨⟨fun _ h => h, fun _ h => h, fun _ h => h⟩, by intro st hst; cases hst⟩
  | cons s alts ih =>
    simp only [List.foldl_cons] at h
    cases hf : f s with
    | none =>
      have : choiceF f (some r0) s = none := by simp [choiceF, hf]
      rw [this, foldl_choiceF_none] at h
      cases h
    | some ra =>
      have hc : choiceF f (some r0) s = some ⟨r0.obs ++ ra.obs, unionD r0.fall ra.fall, unionD r0.rets ra.rets⟩ := by
        simp [choiceF, hf]
      rw [hc] at h
      obtain ⟨⟨h1, h2, h3⟩, h4⟩ := ih _ h
      refine ⟨⟨fun o ho => h1 o (by simp [ho]), fun x hx => h2 x (mem_unionD.mpr (Or.inl hx)),
        fun x hx => h3 x (mem_unionD.mpr (Or.inl hx))⟩, ?_⟩
      intro alt halt
      rcases List.mem_cons.mp halt with rfl | halt
      · exact ⟨ra, hf, fun o ho => h1 o (by simp [ho]), fun x hx => h2 x (mem_unionD.mpr (Or.inr hx)),
          fun x hx => h3 x (mem_unionD.mpr (Or.inr hx))⟩
      · exact h4 alt halt

theorem foldChoice_spec (f : List Act → Option Res) (alts : List (List Act)) (r : Res)
    (h : foldChoice f alts = some r) :
    ∀ alt ∈ alts, ∃ ra, f alt = some ra ∧ (∀ o ∈ ra.obs, o ∈ r.obs) ∧
      (∀ x ∈ ra.fall, x ∈ r.fall) ∧ (∀ x ∈ ra.rets, x ∈ r.rets) :=
  (foldChoice_gen f alts _ r h).2

/-! ### soundness of one action -/

theorem soundFor_iter {sts : List ASt} {body : List Run} {o : List Obs} {f t : List ASt}
    (hb : SoundFor sts body o f t) (hsub : ∀ x ∈ f, x ∈ sts) (i : Nat) :
    SoundFor sts (iterRuns body i) o sts t := by
  induction i with
  | zero =>
    exact (soundFor_skip sts []).mono (by intro x hx; cases hx) (fun _ h => h) (by intro x hx; cases hx)
  | succ i ih =>
    exact SoundFor.seq ih hb (fun _ h => h) (fun _ h => h) hsub (fun _ h => h) (fun _ h => h)

theorem anFirst_sound (tbl : Table) (u : Nat) (recA : List ASt → List Act → Option Res)
    (recD : List Act → List Run)
    (H : ∀ sts k r, recA sts k = some r → SoundFor sts (recD k) r.obs r.fall r.rets)
    (sts : List ASt) (a : Act) (r1 : Res) (h : anFirst tbl recA sts a = some r1) :
    SoundFor sts (denFirst tbl u recD a) r1.obs r1.fall r1.rets := by
  cases a with
  | lock m => simp only [anFirst, Option.some.injEq] at h; subst h; exact soundFor_prim sts _
  | rlock m => simp only [anFirst, Option.some.injEq] at h; subst h; exact soundFor_prim sts _
  | unlock m => simp only [anFirst, Option.some.injEq] at h; subst h; exact soundFor_prim sts _
  | runlock m => simp only [anFirst, Option.some.injEq] at h; subst h; exact soundFor_prim sts _
  | deferUnlock m => simp only [anFirst, Option.some.injEq] at h; subst h; exact soundFor_defer sts _
  | deferRUnlock m => simp only [anFirst, Option.some.injEq] at h; subst h; exact soundFor_defer sts _
  | send m => simp only [anFirst, Option.some.injEq] at h; subst h; exact soundFor_prim sts _
  | recv m => simp only [anFirst, Option.some.injEq] at h; subst h; exact soundFor_prim sts _
  | wait m => simp only [anFirst, Option.some.injEq] at h; subst h; exact soundFor_prim sts _
  | blockingCall m => simp only [anFirst, Option.some.injEq] at h; subst h; exact soundFor_prim sts _
  | read m => simp only [anFirst, Option.some.injEq] at h; subst h; exact soundFor_prim sts _
  | write m => simp only [anFirst, Option.some.injEq] at h; subst h; exact soundFor_prim sts _
  | unknown m => simp only [anFirst, Option.some.injEq] at h; subst h; exact soundFor_prim sts _
  | slot m => simp only [anFirst, Option.some.injEq] at h; subst h; exact soundFor_skip sts []
  | trySend m => simp only [anFirst, Option.some.injEq] at h; subst h; exact soundFor_skip sts []
  | tryRecv m => simp only [anFirst, Option.some.injEq] at h; subst h; exact soundFor_skip sts []
  | makeChan m n => simp only [anFirst, Option.some.injEq] at h; subst h; exact soundFor_skip sts []
  | del m => simp only [anFirst, Option.some.injEq] at h; subst h; exact soundFor_prim sts _
  | ret => simp only [anFirst, Option.some.injEq] at h; subst h; exact soundFor_ret sts
  | go b =>
    simp only [anFirst] at h
    cases hb : recA [([], [])] b with
    | none => simp [hb] at h
    | some rb =>
      simp only [hb, Option.some.injEq] at h
      subst h
      exact (soundFor_skip sts [b]).mono (by intro x hx; cases hx) (fun _ h => h) (fun _ h => h)
  | call f =>
    simp only [anFirst, denFirst] at h ⊢
    cases hf : tbl.find f with
    | none =>
      simp only [hf, Option.some.injEq] at h ⊢
      subst h; exact soundFor_prim sts _
    | some body =>
      simp only [hf] at h ⊢
      intro st hst run hrun
      simp only [List.mem_map] at hrun
      obtain ⟨rbody, hrb, rfl⟩ := hrun
      obtain ⟨rb, hrec, ho1, ho2, hfall⟩ := foldCall_spec _ sts r1 h st hst
      obtain ⟨a1, b1, c1⟩ := H _ _ _ hrec (st.1, []) (by simp) rbody hrb
      have hstate : (heldAfterPath st.1 rbody.path, rbody.defers) ∈ unionD rb.fall rb.rets := by
        apply mem_unionD.mpr
        cases hr : rbody.returned with
        | false => left; simpa using b1 hr
        | true => right; simpa using c1 hr
      obtain ⟨e1, e2⟩ := exits_spec _ _ hstate
      refine ⟨?_, ?_, ?_⟩
      · intro o ho
        rw [trace_append] at ho
        rcases List.mem_append.mp ho with ho | ho
        · exact ho1 o (a1 o ho)
        · exact ho2 o (e1 o ho)
      · intro _
        simp only [heldAfterPath_append, List.nil_append]
        exact hfall _ e2
      · intro hc; cases hc
  | choice alts =>
    simp only [anFirst, denFirst] at h ⊢
    intro st hst run hrun
    simp only [List.mem_flatMap] at hrun
    obtain ⟨alt, halt, hrun⟩ := hrun
    obtain ⟨ra, hrec, ho, hf, ht⟩ := foldChoice_spec _ alts r1 h alt halt
    exact ((H _ _ _ hrec).mono ho hf ht) st hst run hrun
  | loop b =>
    simp only [anFirst, denFirst] at h ⊢
    cases hb : recA sts b with
    | none => simp [hb] at h
    | some rb =>
      simp only [hb] at h
      by_cases hsub : subsetD rb.fall sts = true
      · simp only [hsub, if_true, Option.some.injEq] at h
        subst h
        intro st hst run hrun
        simp only [List.mem_flatMap] at hrun
        obtain ⟨i, _, hrun⟩ := hrun
        exact soundFor_iter (H _ _ _ hb) (subsetD_iff.mp hsub) i st hst run hrun
      · simp [hsub] at h

/-- **Soundness of the abstract interpreter**: for every fuel of the analysis and of the path semantics,
every loop bound `u`. -/
theorem an_sound (tbl : Table) (u : Nat) : ∀ (n fa : Nat) (sts : List ASt) (k : List Act) (r : Res),
    an tbl fa sts k = some r → SoundFor sts (den tbl u n k) r.obs r.fall r.rets := by
  intro n
  induction n with
  | zero => intro fa sts k r _ st _ run hrun; simp [den] at hrun
  | succ n ih =>
    intro fa sts k r h
    cases fa with
    | zero => simp [an] at h
    | succ fa =>
      cases k with
      | nil =>
        simp only [an, Option.some.injEq] at h
        subst h
        simp only [den]
        exact soundFor_skip sts []
      | cons a k =>
        simp only [an] at h
        by_cases hempty : sts.isEmpty = true
        · intro st hst
          cases sts with
          | nil => cases hst
          | cons _ _ => simp at hempty
        · simp only [hempty, Bool.false_eq_true, if_false] at h
          cases h1 : anFirst tbl (an tbl fa) sts a with
          | none => simp [h1] at h
          | some r1 =>
            simp only [h1] at h
            cases h2 : an tbl fa r1.fall k with
            | none => simp [h2] at h
            | some r2 =>
              simp only [h2, Option.some.injEq] at h
              subst h
              simp only [den]
              have s1 := anFirst_sound tbl u (an tbl fa) (den tbl u n) (fun sts k r hr => ih fa sts k r hr) sts a r1 h1
              have s2 := ih fa r1.fall k r2 h2
              exact SoundFor.seq s1 s2 (fun x hx => by simp [hx]) (fun x hx => by simp [hx]) (fun _ h => h)
                (fun x hx => mem_unionD.mpr (Or.inl hx)) (fun x hx => mem_unionD.mpr (Or.inr hx))

/-! ### spawned goroutines -/

def badEnd : Obs := ([], Prim.bad "goroutine ends holding a lock")

/-- the body `b` of a spawned goroutine has been analysed (from the empty lock set) and its
observations are included in `obs` -/
def GoodBody (tbl : Table) (obs : List Obs) (b : List Act) : Prop :=
  ∃ fa rb, an tbl fa [([], [])] b = some rb ∧ (∀ o ∈ rb.obs, o ∈ obs) ∧
    (∀ o ∈ (exits (unionD rb.fall rb.rets)).1, o ∈ obs) ∧
    ((exits (unionD rb.fall rb.rets)).2.all (·.isEmpty) = true ∨ badEnd ∈ obs)

theorem GoodBody.mono {tbl : Table} {obs obs' : List Obs} {b : List Act} (h : GoodBody tbl obs b)
    (ho : ∀ o ∈ obs, o ∈ obs') : GoodBody tbl obs' b := by
  obtain ⟨fa, rb, h1, h2, h3, h4⟩ := h
  exact ⟨fa, rb, h1, fun o h => ho o (h2 o h), fun o h => ho o (h3 o h), h4.imp id (ho _)⟩

def SpawnFor (tbl : Table) (sts : List ASt) (rs : List Run) (obs : List Obs) : Prop :=
  sts ≠ [] → ∀ run ∈ rs, ∀ b ∈ run.spawns, GoodBody tbl obs b

theorem SpawnFor.mono {tbl : Table} {sts : List ASt} {rs : List Run} {o o' : List Obs}
    (h : SpawnFor tbl sts rs o) (ho : ∀ x ∈ o, x ∈ o') : SpawnFor tbl sts rs o' :=
  fun hne run hrun b hb => (h hne run hrun b hb).mono ho

theorem SpawnFor.seq {tbl : Table} {sts : List ASt} {rs1 rs2 : List Run} {o1 o2 o : List Obs}
    {f1 t1 : List ASt}
    (h1 : SpawnFor tbl sts rs1 o1) (hs : SoundFor sts rs1 o1 f1 t1) (h2 : SpawnFor tbl f1 rs2 o2)
    (ho1 : ∀ x ∈ o1, x ∈ o) (ho2 : ∀ x ∈ o2, x ∈ o) :
    SpawnFor tbl sts (seqRuns rs1 rs2) o := by
  intro hne run hrun b hb
  simp only [seqRuns, List.mem_flatMap] at hrun
  obtain ⟨r1, hr1, hrun⟩ := hrun
  by_cases hret : r1.returned = true
  · simp only [hret, if_true, List.mem_singleton] at hrun
    subst hrun
    exact (h1 hne _ hr1 b hb).mono ho1
  · have hret' : r1.returned = false := by cases h : r1.returned <;> simp_all
    simp only [hret', Bool.false_eq_true, if_false, List.mem_map] at hrun
    obtain ⟨r2, hr2, rfl⟩ := hrun
    simp only [List.mem_append] at hb
    rcases hb with hb | hb
    · exact (h1 hne _ hr1 b hb).mono ho1
    · cases sts with
      | nil => exact absurd rfl hne
      | cons st sts =>
        have := (hs st (by simp) r1 hr1).2.1 hret'
        have hne1 : f1 ≠ [] := by intro h; rw [h] at this; cases this
        exact (h2 hne1 _ hr2 b hb).mono ho2

theorem spawnFor_nospawn (tbl : Table) (sts : List ASt) (p d : Path) (r : Bool) (obs : List Obs) :
    SpawnFor tbl sts [⟨p, d, r, []⟩] obs := by
  intro _ run hrun b hb
  simp only [List.mem_singleton] at hrun
  subst hrun
  cases hb

theorem spawnFor_iter {tbl : Table} {sts : List ASt} {body : List Run} {o : List Obs} {f t : List ASt}
    (hb : SoundFor sts body o f t) (hsub : ∀ x ∈ f, x ∈ sts) (hsp : SpawnFor tbl sts body o) (i : Nat) :
    SpawnFor tbl sts (iterRuns body i) o := by
  induction i with
  | zero => exact spawnFor_nospawn tbl sts [] [] false o
  | succ i ih =>
    exact SpawnFor.seq ih (soundFor_iter hb hsub i) hsp (fun _ h => h) (fun _ h => h)

theorem anFirst_spawn (tbl : Table) (u fa n : Nat)
    (H1 : ∀ sts k r, an tbl fa sts k = some r → SoundFor sts (den tbl u n k) r.obs r.fall r.rets)
    (H2 : ∀ sts k r, an tbl fa sts k = some r → SpawnFor tbl sts (den tbl u n k) r.obs)
    (sts : List ASt) (a : Act) (r1 : Res) (h : anFirst tbl (an tbl fa) sts a = some r1) :
    SpawnFor tbl sts (denFirst tbl u (den tbl u n) a) r1.obs := by
  cases a with
  | lock m => exact spawnFor_nospawn _ _ _ _ _ _
  | rlock m => exact spawnFor_nospawn _ _ _ _ _ _
  | unlock m => exact spawnFor_nospawn _ _ _ _ _ _
  | runlock m => exact spawnFor_nospawn _ _ _ _ _ _
  | deferUnlock m => exact spawnFor_nospawn _ _ _ _ _ _
  | deferRUnlock m => exact spawnFor_nospawn _ _ _ _ _ _
  | send m => exact spawnFor_nospawn _ _ _ _ _ _
  | recv m => exact spawnFor_nospawn _ _ _ _ _ _
  | wait m => exact spawnFor_nospawn _ _ _ _ _ _
  | blockingCall m => exact spawnFor_nospawn _ _ _ _ _ _
  | read m => exact spawnFor_nospawn _ _ _ _ _ _
  | write m => exact spawnFor_nospawn _ _ _ _ _ _
  | unknown m => exact spawnFor_nospawn _ _ _ _ _ _
  | slot m => exact spawnFor_nospawn _ _ _ _ _ _
  | trySend m => exact spawnFor_nospawn _ _ _ _ _ _
  | tryRecv m => exact spawnFor_nospawn _ _ _ _ _ _
  | makeChan m n => exact spawnFor_nospawn _ _ _ _ _ _
  | del m => exact spawnFor_nospawn _ _ _ _ _ _
  | ret => exact spawnFor_nospawn _ _ _ _ _ _
  | go b =>
    simp only [anFirst] at h
    cases hb : an tbl fa [([], [])] b with
    | none => simp [hb] at h
    | some rb =>
      simp only [hb, Option.some.injEq] at h
      subst h
      intro _ run hrun b' hb'
      simp only [denFirst, List.mem_singleton] at hrun
      subst hrun
      simp only [List.mem_singleton] at hb'
      subst hb'
      refine ⟨fa, rb, hb, ?_, ?_, ?_⟩
      · intro o ho; simp [ho]
      · intro o ho; simp [ho]
      · by_cases hall : (exits (unionD rb.fall rb.rets)).2.all (·.isEmpty) = true
        · exact Or.inl hall
        · right; simp [hall, badEnd]
  | call f =>
    simp only [anFirst, denFirst] at h ⊢
    cases hf : tbl.find f with
    | none => exact spawnFor_nospawn _ _ _ _ _ _
    | some body =>
      simp only [hf] at h ⊢
      intro hne run hrun b hb
      simp only [List.mem_map] at hrun
      obtain ⟨rbody, hrb, rfl⟩ := hrun
      cases sts with
      | nil => exact absurd rfl hne
      | cons st sts =>
        obtain ⟨rb, hrec, ho1, _, _⟩ := foldCall_spec _ _ r1 h st (by simp)
        exact (H2 _ _ _ hrec (by simp) rbody hrb b hb).mono ho1
  | choice alts =>
    simp only [anFirst, denFirst] at h ⊢
    intro hne run hrun b hb
    simp only [List.mem_flatMap] at hrun
    obtain ⟨alt, halt, hrun⟩ := hrun
    obtain ⟨ra, hrec, ho, _, _⟩ := foldChoice_spec _ alts r1 h alt halt
    exact (H2 _ _ _ hrec hne run hrun b hb).mono ho
  | loop b =>
    simp only [anFirst, denFirst] at h ⊢
    cases hb : an tbl fa sts b with
    | none => simp [hb] at h
    | some rb =>
      simp only [hb] at h
      by_cases hsub : subsetD rb.fall sts = true
      · simp only [hsub, if_true, Option.some.injEq] at h
        subst h
        intro hne run hrun b' hb'
        simp only [List.mem_flatMap] at hrun
        obtain ⟨i, _, hrun⟩ := hrun
        exact spawnFor_iter (H1 _ _ _ hb) (subsetD_iff.mp hsub) (H2 _ _ _ hb) i hne run hrun b' hb'
      · simp [hsub] at h

/-- every goroutine spawned along any run has been analysed, and its observations are recorded -/
theorem an_spawn_sound (tbl : Table) (u : Nat) : ∀ (n fa : Nat) (sts : List ASt) (k : List Act) (r : Res),
    an tbl fa sts k = some r → SpawnFor tbl sts (den tbl u n k) r.obs := by
  intro n
  induction n with
  | zero => intro fa sts k r _ _ run hrun; simp [den] at hrun
  | succ n ih =>
    intro fa sts k r h
    cases fa with
    | zero => simp [an] at h
    | succ fa =>
      cases k with
      | nil => simp only [den]; exact spawnFor_nospawn _ _ _ _ _ _
      | cons a k =>
        simp only [an] at h
        by_cases hempty : sts.isEmpty = true
        · intro hne
          cases sts with
          | nil => exact absurd rfl hne
          | cons _ _ => simp at hempty
        · simp only [hempty, Bool.false_eq_true, if_false] at h
          cases h1 : anFirst tbl (an tbl fa) sts a with
          | none => simp [h1] at h
          | some r1 =>
            simp only [h1] at h
            cases h2 : an tbl fa r1.fall k with
            | none => simp [h2] at h
            | some r2 =>
              simp only [h2, Option.some.injEq] at h
              subst h
              simp only [den]
              have s1 := anFirst_sound tbl u (an tbl fa) (den tbl u n) (fun sts k r hr => an_sound tbl u n fa sts k r hr) sts a r1 h1
              have p1 := anFirst_spawn tbl u fa n (fun sts k r hr => an_sound tbl u n fa sts k r hr)
                (fun sts k r hr => ih fa sts k r hr) sts a r1 h1
              have p2 := ih fa r1.fall k r2 h2
              exact SpawnFor.seq p1 s1 p2 (fun x hx => by simp [hx]) (fun x hx => by simp [hx])

/-! ### from the analysis of a function to its threads -/

/-- `b` is the body of a goroutine spawned, directly or transitively, by some run of `root` -/
inductive Spawned (tbl : Table) (u : Nat) (root : List Act) : List Act → Prop
  | direct {n : Nat} {run : Run} {b : List Act} :
      run ∈ den tbl u n root → b ∈ run.spawns → Spawned tbl u root b
  | trans {n : Nat} {run : Run} {b b' : List Act} :
      Spawned tbl u root b → run ∈ den tbl u n b → b' ∈ run.spawns → Spawned tbl u root b'

theorem spawned_good {tbl : Table} {u fuel : Nat} {root : List Act} {obs : List Obs} {ends : List Held}
    (ha : analyse tbl fuel root = some (obs, ends)) :
    ∀ b, Spawned tbl u root b → GoodBody tbl obs b := by
  unfold analyse at ha
  cases hr : an tbl fuel [([], [])] root with
  | none => simp [hr] at ha
  | some r =>
    simp only [hr, Option.some.injEq, Prod.mk.injEq] at ha
    obtain ⟨hobs, _⟩ := ha
    intro b hb
    induction hb with
    | direct hrun hb =>
      exact (an_spawn_sound tbl u _ fuel _ root r hr (by simp) _ hrun _ hb).mono
        (fun o ho => by rw [← hobs]; simp [ho])
    | trans _ hrun hb' ih =>
      obtain ⟨fa, rb, hrb, h1, _, _⟩ := ih
      exact (an_spawn_sound tbl u _ fa _ _ rb hrb (by simp) _ hrun _ hb').mono h1

/-- paths of an analysed body: every dynamic observation is recorded and the final lock set is among
the computed ends -/
theorem body_paths_sound {tbl : Table} {u fa n : Nat} {b : List Act} {rb : Res}
    (h : an tbl fa [([], [])] b = some rb) :
    ∀ p ∈ bodyPaths tbl u n b,
      (∀ o ∈ trace [] p, o ∈ rb.obs ∨ o ∈ (exits (unionD rb.fall rb.rets)).1) ∧
      heldAfterPath [] p ∈ (exits (unionD rb.fall rb.rets)).2 := by
  intro p hp
  simp only [bodyPaths, List.mem_map] at hp
  obtain ⟨run, hrun, rfl⟩ := hp
  obtain ⟨a1, b1, c1⟩ := an_sound tbl u n fa _ b rb h ([], []) (by simp) run hrun
  have hstate : (heldAfterPath [] run.path, run.defers) ∈ unionD rb.fall rb.rets := by
    apply mem_unionD.mpr
    cases hr : run.returned with
    | false => left; simpa using b1 hr
    | true => right; simpa using c1 hr
  obtain ⟨e1, e2⟩ := exits_spec _ _ hstate
  constructor
  · intro o ho
    rw [trace_append] at ho
    rcases List.mem_append.mp ho with ho | ho
    · exact Or.inl (a1 o ho)
    · exact Or.inr (e1 o ho)
  · rw [heldAfterPath_append]; exact e2

/-- The threads of one invocation of `root`: the invoking goroutine and every goroutine spawned
(transitively) along some run. `IsThreadPath tbl u root p`: `p` is a complete path of one of them. -/
def IsThreadPath (tbl : Table) (u : Nat) (root : List Act) (p : Path) : Prop :=
  (∃ n, p ∈ bodyPaths tbl u n root) ∨ ∃ b n, Spawned tbl u root b ∧ p ∈ bodyPaths tbl u n b

/-- every dynamic observation of every thread of `root` is among the analysed observations, and every
thread ends with one of the computed lock sets (or the "ends holding a lock" marker is recorded) -/
theorem thread_paths_sound {tbl : Table} {u fuel : Nat} {root : List Act} {obs : List Obs} {ends : List Held}
    (ha : analyse tbl fuel root = some (obs, ends)) (p : Path) (hp : IsThreadPath tbl u root p) :
    (∀ o ∈ trace [] p, o ∈ obs) ∧ (heldAfterPath [] p ∈ ends ∨ heldAfterPath [] p = [] ∨ badEnd ∈ obs) := by
  rcases hp with ⟨n, hp⟩ | ⟨b, n, hsp, hp⟩
  · unfold analyse at ha
    cases hr : an tbl fuel [([], [])] root with
    | none => simp [hr] at ha
    | some r =>
      simp only [hr, Option.some.injEq, Prod.mk.injEq] at ha
      obtain ⟨hobs, hends⟩ := ha
      obtain ⟨h1, h2⟩ := body_paths_sound (u := u) (n := n) hr p hp
      refine ⟨?_, Or.inl (by rw [← hends]; exact h2)⟩
      intro o ho
      rw [← hobs]
      rcases h1 o ho with h | h
      · simp [h]
      · simp [h]
  · obtain ⟨fa, rb, hrb, g1, g2, g3⟩ := spawned_good (u := u) ha b hsp
    obtain ⟨h1, h2⟩ := body_paths_sound (u := u) (n := n) hrb p hp
    refine ⟨?_, ?_⟩
    · intro o ho
      rcases h1 o ho with h | h
      · exact g1 o h
      · exact g2 o h
    · rcases g3 with g3 | g3
      · right; left
        have := List.all_eq_true.mp g3 _ h2
        simpa using this
      · exact Or.inr (Or.inr g3)

/-! ### from the decidable criteria to the path properties used by the interleaving theorems -/

theorem obsWf_badEnd : obsWf badEnd = false := rfl

/-- the deadlock criteria of a skeleton hold for every path of every thread of it -/
theorem deadlockCriteria_paths (c : Cfg) (s : Skel) (h : deadlockCriteria c s = true) (u : Nat)
    (p : Path) (hp : IsThreadPath c.tbl u s p) : pathOk c.order p = true := by
  simp only [deadlockCriteria, wellFormed, noReentrantAcquire, lockOrderOk, noBlockingInCS, Bool.and_eq_true] at h
  cases ha : analyse c.tbl fuelDefault s with
  | none => simp [ha] at h
  | some r =>
    obtain ⟨obs, ends⟩ := r
    simp only [ha, Bool.and_eq_true, List.all_eq_true] at h
    obtain ⟨⟨⟨⟨hwf, hends⟩, hre⟩, hord⟩, hblk⟩ := h
    obtain ⟨h1, h2⟩ := thread_paths_sound (u := u) ha p hp
    simp only [pathOk, pathOkFrom, Bool.and_eq_true, List.all_eq_true]
    constructor
    · intro o ho
      have := h1 o ho
      simp only [obsDl, Bool.and_eq_true]
      exact ⟨⟨⟨hwf o this, hre o this⟩, hord o this⟩, hblk o this⟩
    · rcases h2 with h2 | h2 | h2
      · exact hends _ h2
      · simp [h2]
      · have := hwf _ h2
        rw [obsWf_badEnd] at this; cases this

/-- the lockset criterion of a skeleton holds for every path of every thread of it -/
theorem locksetOk_paths (c : Cfg) (s : Skel) (hw : wellFormed c s = true) (h : locksetOk c s = true)
    (u : Nat) (p : Path) (hp : IsThreadPath c.tbl u s p) : pathLs c.guards p = true := by
  simp only [wellFormed, locksetOk] at hw h
  cases ha : analyse c.tbl fuelDefault s with
  | none => simp [ha] at h
  | some r =>
    obtain ⟨obs, ends⟩ := r
    simp only [ha, Bool.and_eq_true, List.all_eq_true] at hw h
    obtain ⟨h1, _⟩ := thread_paths_sound (u := u) ha p hp
    simp only [pathLs, pathLsFrom, List.all_eq_true, Bool.and_eq_true]
    intro o ho
    exact ⟨hw.1 o (h1 o ho), h o (h1 o ho)⟩

/-! ### goroutines executing several invocations one after the other -/

/-- both path properties -/
def PathGood (c : Cfg) (p : Path) : Prop := pathOk c.order p = true ∧ pathLs c.guards p = true

theorem pathGood_nil (c : Cfg) : PathGood c [] := by
  simp [PathGood, pathOk, pathOkFrom, pathLs, pathLsFrom, trace, heldAfterPath]

theorem pathGood_append {c : Cfg} {p q : Path} (hp : PathGood c p) (hq : PathGood c q) :
    PathGood c (p ++ q) := by
  obtain ⟨hp1, hp2⟩ := hp
  obtain ⟨hq1, hq2⟩ := hq
  have hend : heldAfterPath [] p = [] := by
    simp only [pathOk, pathOkFrom, Bool.and_eq_true] at hp1
    simpa using hp1.2
  constructor
  · simp only [pathOk, pathOkFrom, Bool.and_eq_true, trace_append, heldAfterPath_append, hend,
      List.all_append] at hp1 hq1 ⊢
    exact ⟨⟨hp1.1, hq1.1⟩, hq1.2⟩
  · simp only [pathLs, pathLsFrom, trace_append, hend, List.all_append, Bool.and_eq_true] at hp2 hq2 ⊢
    exact ⟨hp2, hq2⟩

theorem pathGood_flatten {c : Cfg} (segs : List Path) (h : ∀ q ∈ segs, PathGood c q) :
    PathGood c segs.flatten := by
  induction segs with
  | nil => exact pathGood_nil c
  | cons q segs ih =>
    simp only [List.flatten_cons]
    exact pathGood_append (h q (by simp)) (ih (fun q' hq' => h q' (by simp [hq'])))

end LiskVerif.Locks
