/-
Message-level lemmas for the codec model: readers positioned before an encoded body, one lemma per
primitive read ("reading what was written"), and the converse ("what was read had been written").
-/
import LiskVerif.Lemmas.Varint

namespace LiskVerif.Codec

/-! ### readers and suffixes -/

/-- advance the reader by `k` bytes -/
def Reader.adv (r : Reader) (k : Nat) : Reader := { r with index := r.index + k }

@[simp] theorem Reader.adv_data (r : Reader) (k : Nat) : (r.adv k).data = r.data := rfl
@[simp] theorem Reader.adv_stop (r : Reader) (k : Nat) : (r.adv k).stop = r.stop := rfl
@[simp] theorem Reader.adv_index (r : Reader) (k : Nat) : (r.adv k).index = r.index + k := rfl

theorem Reader.adv_adv (r : Reader) (a b : Nat) : (r.adv a).adv b = r.adv (a + b) := by
  simp [Reader.adv, Nat.add_assoc]

theorem Reader.adv_zero (r : Reader) : r.adv 0 = r := rfl

/-- the reader is positioned before `body`, and `body` is exactly what lies before `stop` -/
def Reader.Holds (r : Reader) (body : Bytes) : Prop :=
  ∃ junk, r.suffix = body ++ junk ∧ r.stop = (r.index : Int) + body.length

theorem Reader.Holds.adv {r : Reader} {X tail : Bytes} (h : r.Holds (X ++ tail)) :
    (r.adv X.length).Holds tail := by
  obtain ⟨junk, hs, hst⟩ := h
  refine ⟨junk, ?_, ?_⟩
  · unfold Reader.suffix at *
    simp only [Reader.adv_data, Reader.adv_index]
    rw [← List.drop_drop, hs]
    simp [List.append_assoc]
  · simp only [Reader.adv_stop, Reader.adv_index, hst, List.length_append]
    push_cast
    omega

theorem Reader.Holds.new (data : Bytes) : (Reader.new data).Holds data :=
  ⟨[], by simp [Reader.new, Reader.suffix], by simp [Reader.new]⟩

theorem Reader.Holds.lt_stop {r : Reader} {body : Bytes} (h : r.Holds body) (hne : body ≠ []) :
    (r.index : Int) < r.stop := by
  obtain ⟨junk, _, hst⟩ := h
  have : 0 < body.length := List.length_pos_iff.mpr hne
  omega

theorem Reader.Holds.ge_stop {r : Reader} (h : r.Holds []) : (r.index : Int) ≥ r.stop := by
  obtain ⟨junk, _, hst⟩ := h
  simp at hst
  omega

theorem Reader.Holds.length_le {r : Reader} {body : Bytes} (h : r.Holds body) :
    body.length ≤ r.data.length := by
  obtain ⟨junk, hs, _⟩ := h
  have := congrArg List.length hs
  simp [Reader.suffix] at this
  omega

theorem Reader.Holds.index_le {r : Reader} {body : Bytes} (h : r.Holds body) (hne : body ≠ []) :
    r.index + body.length ≤ r.data.length := by
  obtain ⟨junk, hs, _⟩ := h
  have := congrArg List.length hs
  have hp : 0 < body.length := List.length_pos_iff.mpr hne
  simp [Reader.suffix] at this
  omega

/-! ### reading what was written: primitives -/

theorem Reader.readUInt_put {r : Reader} {n : Nat} {tail : Bytes} (hn : n < 2 ^ 64)
    (h : r.Holds (putUvarint n ++ tail)) :
    r.readUInt = .ok (n, r.adv (putUvarint n).length) := by
  obtain ⟨junk, hs, _⟩ := h
  unfold Reader.readUInt
  rw [hs, List.append_assoc, readUint_putUvarint n hn _ (putUvarint_length_le_10 n hn)]
  rfl

theorem readKey_mk {num wt : Nat} (hwt : wt = 0 ∨ wt = 2) : readKey (num * 8 + wt) = .ok (num, wt) := by
  unfold readKey
  have h1 : (num * 8 + wt) % 8 = wt := by omega
  have h2 : (num * 8 + wt) / 8 = num := by omega
  simp only [h1, h2]
  rcases hwt with rfl | rfl <;> simp

theorem writeKey_ne_nil (wt num : Nat) : writeKey wt num ≠ [] := by
  intro h
  have := putUvarint_length_pos (num * 8 + wt)
  unfold writeKey at h
  rw [h] at this
  simp at this

/-- the expected key is there -/
theorem Reader.check_key {r : Reader} {num wt : Nat} {tail : Bytes} (hwt : wt = 0 ∨ wt = 2)
    (hk : num * 8 + wt < 2 ^ 64) (h : r.Holds (writeKey wt num ++ tail)) :
    r.check num wt = .ok (r.adv (writeKey wt num).length) := by
  have hlt := h.lt_stop (by simp [writeKey_ne_nil])
  obtain ⟨junk, hs, _⟩ := h
  unfold Reader.check
  have hnge : ¬ ((r.index : Int) ≥ r.stop) := by omega
  simp only [hnge, if_false]
  unfold writeKey at hs ⊢
  rw [hs, List.append_assoc, readUint_putUvarint _ hk _ (putUvarint_length_le_10 _ hk)]
  simp only [readKey_mk hwt]
  simp
  rfl

/-- another field's key is there -/
theorem Reader.check_other {r : Reader} {num wt num' wt' : Nat} {tail : Bytes} (hwt : wt' = 0 ∨ wt' = 2)
    (hk : num' * 8 + wt' < 2 ^ 64) (hne : num' ≠ num) (h : r.Holds (writeKey wt' num' ++ tail)) :
    r.check num wt = .error .unexpectedFieldNumber := by
  have hlt := h.lt_stop (by simp [writeKey_ne_nil])
  obtain ⟨junk, hs, _⟩ := h
  unfold Reader.check
  have hnge : ¬ ((r.index : Int) ≥ r.stop) := by omega
  simp only [hnge, if_false]
  unfold writeKey at hs
  rw [hs, List.append_assoc, readUint_putUvarint _ hk _ (putUvarint_length_le_10 _ hk)]
  simp only [readKey_mk hwt]
  simp [hne]

theorem Reader.check_end {r : Reader} {num wt : Nat} (h : r.Holds []) :
    r.check num wt = .error .fieldNumberNotFound := by
  have := h.ge_stop
  unfold Reader.check
  simp [this]

/-- what follows an array field `num`: the end, or the key of a later field -/
def TailOK (num : Nat) (tail : Bytes) : Prop :=
  tail = [] ∨ ∃ num' wt rest, num < num' ∧ num' * 8 + wt < 2 ^ 64 ∧ (wt = 0 ∨ wt = 2) ∧
    tail = writeKey wt num' ++ rest

theorem TailOK.mono {a b : Nat} {tail : Bytes} (h : TailOK b tail) (hab : a ≤ b) : TailOK a tail := by
  rcases h with h | ⟨n, wt, rest, h1, h2, h3, h4⟩
  · exact Or.inl h
  · exact Or.inr ⟨n, wt, rest, by omega, h2, h3, h4⟩

/-- the check failed with one of the two "absent" errors -/
def strictErr' (x : Except Err Reader) : Prop :=
  x = .error .fieldNumberNotFound ∨ x = .error .unexpectedFieldNumber

theorem Reader.check_tail {r : Reader} {num wt : Nat} {tail : Bytes} (ht : TailOK num tail)
    (h : r.Holds tail) : strictErr' (r.check num wt) := by
  rcases ht with rfl | ⟨n, wt', rest, h1, h2, h3, rfl⟩
  · rw [Reader.check_end h]; exact Or.inl rfl
  · rw [Reader.check_other h3 h2 (by omega) h]; exact Or.inr rfl

theorem Reader.enter_key {r : Reader} {num wt : Nat} {tail : Bytes} (st : Bool) (hwt : wt = 0 ∨ wt = 2)
    (hk : num * 8 + wt < 2 ^ 64) (h : r.Holds (writeKey wt num ++ tail)) :
    r.enter num wt st = .ok (some (r.adv (writeKey wt num).length)) := by
  unfold Reader.enter
  rw [Reader.check_key hwt hk h]

theorem Reader.enterArr_key {r : Reader} {num wt : Nat} {tail : Bytes} (hwt : wt = 0 ∨ wt = 2)
    (hk : num * 8 + wt < 2 ^ 64) (h : r.Holds (writeKey wt num ++ tail)) :
    r.enterArr num wt = .ok (some (r.adv (writeKey wt num).length)) := by
  unfold Reader.enterArr
  rw [Reader.check_key hwt hk h]

theorem Reader.enterArr_tail {r : Reader} {num wt : Nat} {tail : Bytes} (ht : TailOK num tail)
    (h : r.Holds tail) : r.enterArr num wt = .ok none := by
  unfold Reader.enterArr
  rcases Reader.check_tail (wt := wt) ht h with e | e <;> rw [e] <;> rfl

theorem Reader.enter_tail {r : Reader} {num wt : Nat} {tail : Bytes} (ht : TailOK num tail)
    (h : r.Holds tail) : r.enter num wt false = .ok none := by
  unfold Reader.enter
  rcases Reader.check_tail (wt := wt) ht h with e | e <;> rw [e] <;> rfl

theorem getElem?_of_drop {l : Bytes} {i : Nat} {x : UInt8} {rest : Bytes} (h : l.drop i = x :: rest) :
    l[i]? = some x := by
  have := congrArg (fun l => l[0]?) h
  simpa using this

theorem Reader.readBool_put {r : Reader} {b : Bool} {tail : Bytes}
    (h : r.Holds ((if b then (1 : UInt8) else 0) :: tail)) :
    r.readBool = .ok (b, r.adv 1) := by
  obtain ⟨junk, hs, _⟩ := h
  unfold Reader.readBool
  rw [getElem?_of_drop (by simpa [Reader.suffix] using hs)]
  cases b <;> simp [Reader.adv]

theorem Reader.readBytes_put {r : Reader} {b tail : Bytes} (hb : b.length < 2 ^ 64)
    (h : r.Holds (writeBytes b ++ tail)) :
    r.readBytes = .ok (b, r.adv (writeBytes b).length) := by
  unfold writeBytes at h ⊢
  rw [List.append_assoc] at h
  unfold Reader.readBytes
  rw [Reader.readUInt_put hb h]
  obtain ⟨junk, hs, _⟩ := h.adv
  simp only [Reader.suffix, Reader.adv_data, Reader.adv_index] at hs
  have hl := congrArg List.length hs
  simp only [List.length_drop, List.length_append] at hl
  have hsz : ¬ (b.length > r.data.length - (r.index + (putUvarint b.length).length)) := by omega
  simp only [Reader.adv_data, Reader.adv_index, hsz, if_false, hs]
  simp [Reader.adv, Nat.add_assoc]

theorem Reader.readString_put {r : Reader} {nfc : NFC} {b tail : Bytes} (hb : b.length < 2 ^ 64)
    (hu : utf8Valid b = true) (hn : nfc.normal b = true)
    (h : r.Holds (writeBytes b ++ tail)) :
    r.readString nfc = .ok (b, r.adv (writeBytes b).length) := by
  unfold Reader.readString
  rw [Reader.readBytes_put hb h]
  simp [hu, hn]

/-! ### arrays -/

def encBytesArr (num : Nat) (l : List Bytes) : Bytes :=
  (l.map fun b => writeKey 2 num ++ writeBytes b).flatten

def encPacked (l : List Nat) : Bytes := (l.map putUvarint).flatten

theorem encBytesArr_length_ge (num : Nat) (l : List Bytes) : l.length ≤ (encBytesArr num l).length := by
  induction l with
  | nil => simp
  | cons b l ih =>
    have := putUvarint_length_pos (num * 8 + 2)
    simp only [encBytesArr, writeKey, List.map_cons, List.flatten_cons, List.length_append,
      List.length_cons] at ih ⊢
    omega

theorem encPacked_length_ge (l : List Nat) : l.length ≤ (encPacked l).length := by
  induction l with
  | nil => simp
  | cons n l ih =>
    have := putUvarint_length_pos n
    simp only [encPacked, List.map_cons, List.flatten_cons, List.length_append,
      List.length_cons] at ih ⊢
    omega

theorem readBytesArray_put (num : Nat) (hk : num * 8 + 2 < 2 ^ 64) :
    ∀ (l : List Bytes) (fuel : Nat) (r : Reader) (acc : List Bytes) (tail : Bytes),
    (∀ b ∈ l, b.length < 2 ^ 64) → l.length < fuel → TailOK num tail →
    r.Holds (encBytesArr num l ++ tail) →
    readBytesArray fuel r num acc = .ok (acc ++ l, r.adv (encBytesArr num l).length) := by
  intro l
  induction l with
  | nil =>
    intro fuel r acc tail _ hf ht h
    obtain ⟨fuel, rfl⟩ : ∃ f, fuel = f + 1 := ⟨fuel - 1, by simp at hf; omega⟩
    simp only [encBytesArr, List.map_nil, List.flatten_nil, List.nil_append, List.length_nil] at h ⊢
    unfold readBytesArray
    rw [Reader.enterArr_tail ht h]
    simp [Reader.adv_zero]
  | cons b l ih =>
    intro fuel r acc tail hb hf ht h
    obtain ⟨fuel, rfl⟩ : ∃ f, fuel = f + 1 := ⟨fuel - 1, by simp at hf; omega⟩
    have hbl : b.length < 2 ^ 64 := hb b (by simp)
    have e : encBytesArr num (b :: l) = writeKey 2 num ++ (writeBytes b ++ encBytesArr num l) := by
      simp [encBytesArr]
    rw [e] at h ⊢
    simp only [List.append_assoc] at h
    have hlt := h.lt_stop (by simp [writeKey_ne_nil])
    unfold readBytesArray
    simp only [hlt, if_true]
    rw [Reader.enterArr_key (Or.inr rfl) hk h]
    simp only
    rw [Reader.readBytes_put hbl h.adv]
    simp only
    rw [ih fuel _ (acc ++ [b]) tail (fun x hx => hb x (by simp [hx])) (by simp at hf; omega) ht h.adv.adv]
    simp [Reader.adv_adv, Nat.add_assoc]

theorem readPackedUInts_put :
    ∀ (l : List Nat) (fuel : Nat) (r : Reader) (stop : Int) (acc : List Nat) (tail : Bytes),
    (∀ n ∈ l, n < 2 ^ 64) → l.length < fuel →
    r.Holds (encPacked l ++ tail) → stop = (r.index : Int) + (encPacked l).length →
    readPackedUInts fuel r stop acc = .ok (acc ++ l, r.adv (encPacked l).length) := by
  intro l
  induction l with
  | nil =>
    intro fuel r stop acc tail _ hf h hs
    obtain ⟨fuel, rfl⟩ : ∃ f, fuel = f + 1 := ⟨fuel - 1, by simp at hf; omega⟩
    simp only [encPacked, List.map_nil, List.flatten_nil, List.length_nil] at hs ⊢
    unfold readPackedUInts
    have : ¬ ((r.index : Int) < stop) := by omega
    simp [this, Reader.adv_zero]
  | cons n l ih =>
    intro fuel r stop acc tail hn hf h hs
    obtain ⟨fuel, rfl⟩ : ∃ f, fuel = f + 1 := ⟨fuel - 1, by simp at hf; omega⟩
    have e : encPacked (n :: l) = putUvarint n ++ encPacked l := by simp [encPacked]
    rw [e] at h hs ⊢
    simp only [List.append_assoc] at h
    have hpos := putUvarint_length_pos n
    have hlt : (r.index : Int) < stop := by
      rw [hs]; simp only [List.length_append]; push_cast; omega
    unfold readPackedUInts
    simp only [hlt, if_true]
    rw [Reader.readUInt_put (hn n (by simp)) h]
    simp only
    rw [ih fuel _ stop (acc ++ [n]) tail (fun x hx => hn x (by simp [hx])) (by simp at hf; omega) h.adv
      (by rw [hs]; simp only [List.length_append, Reader.adv_index]; push_cast; omega)]
    simp [Reader.adv_adv]

/-! ### one field -/

def flatKind : Kind → Bool
  | .uint | .uint32 | .int32 | .bool | .bytes | .string | .bytesArr | .uints => true
  | _ => false

/-- the value has the Go type of the field (and is something the node itself would encode) -/
def typedVal (nfc : NFC) : Kind → Value → Bool
  | .uint, .uint n => decide (n < 2 ^ 64)
  | .uint32, .uint n => decide (n < 2 ^ 32)
  | .int32, .int i => decide (-2 ^ 31 ≤ i ∧ i < 2 ^ 31)
  | .bool, .bool _ => true
  | .bytes, .bytes b => decide (b.length < 2 ^ 63)
  | .string, .bytes b =>
    decide (b.length < 2 ^ 63) && utf8Valid b && nfc.normal b && decide (nfc.normalize b = b)
  | .bytesArr, .bytesArr l => l.all fun b => decide (b.length < 2 ^ 63)
  | .uints, .uints l => l.all (fun n => decide (n < 2 ^ 64)) && decide ((encPacked l).length < 2 ^ 63)
  | _, _ => false

/-- the bytes `encodeFields` writes for one field (the `here` of the model) -/
def encField (t : Table) (nfc : NFC) (fuel : Nat) (f : Field) (v : Value) : Bytes :=
  match f.kind, v with
  | .uint, .uint n => writeKey 0 f.num ++ putUvarint n
  | .uint32, .uint n => writeKey 0 f.num ++ putUvarint n
  | .int32, .int i => writeKey 0 f.num ++ putUvarint (zigzag i)
  | .bool, .bool b => writeKey 0 f.num ++ [if b then 1 else 0]
  | .bytes, .bytes b => writeKey 2 f.num ++ writeBytes b
  | .string, .bytes b => writeKey 2 f.num ++ writeBytes (nfc.normalize b)
  | .bytesArr, .bytesArr l => (l.map fun b => writeKey 2 f.num ++ writeBytes b).flatten
  | .uints, .uints l =>
    if l.isEmpty then [] else writeKey 2 f.num ++ writeBytes (l.map putUvarint).flatten
  | .msg name, .msg present vals =>
    if !present then [] else
    match fuel, t.find name with
    | fuel' + 1, some s => writeKey 2 f.num ++ writeBytes (encodeFields t nfc fuel' s.enc vals)
    | _, _ => []
  | .msgArr name, .msgArr l =>
    match fuel, t.find name with
    | fuel' + 1, some s =>
      (l.map fun vals => writeKey 2 f.num ++ writeBytes (encodeFields t nfc fuel' s.enc vals)).flatten
    | _, _ => []
  | _, _ => []

theorem encodeFields_cons (t : Table) (nfc : NFC) (ef : Nat) (f : Field) (fs : List Field) (v : Value)
    (vs : List Value) :
    encodeFields t nfc ef (f :: fs) (v :: vs) =
      encField t nfc ef f v ++ encodeFields t nfc ef fs vs := by
  conv => lhs; unfold encodeFields
  rfl

theorem zigzag_lt (i : Int) (h1 : -2 ^ 31 ≤ i) (h2 : i < 2 ^ 31) : zigzag i < 2 ^ 64 := by
  unfold zigzag; split <;> omega

theorem int32_roundtrip (i : Int) (h1 : -2 ^ 31 ≤ i) (h2 : i < 2 ^ 31) :
    (if ((unzigzag (zigzag i) % (2 ^ 32 : Int)) + 2 ^ 32) % 2 ^ 32 ≥ 2 ^ 31
      then ((unzigzag (zigzag i) % (2 ^ 32 : Int)) + 2 ^ 32) % 2 ^ 32 - 2 ^ 32
      else ((unzigzag (zigzag i) % (2 ^ 32 : Int)) + 2 ^ 32) % 2 ^ 32) = i := by
  have : unzigzag (zigzag i) = i := by
    unfold unzigzag zigzag
    by_cases h : i ≥ 0
    · simp only [h, if_true]
      have : (2 * i).toNat % 2 = 0 := by omega
      simp only [this, if_true]
      omega
    · simp only [h, if_false]
      have : (2 * (-i) - 1).toNat % 2 = 1 := by omega
      simp only [this]
      omega
  rw [this]
  split <;> omega

theorem wrapInt64_id (i : Int) (h1 : -2 ^ 63 ≤ i) (h2 : i < 2 ^ 63) : wrapInt64 i = i := by
  unfold wrapInt64; omega

theorem decodeField_put (t : Table) (nfc : NFC) (ef fuel : Nat) (f : Field) (v : Value) (r : Reader)
    (tail : Bytes) (hk : flatKind f.kind = true) (hnum : f.num * 8 + 2 < 2 ^ 64)
    (hty : typedVal nfc f.kind v = true) (hd : f.kind = .uints → r.data.length < 2 ^ 63)
    (ht : TailOK f.num tail)
    (h : r.Holds (encField t nfc ef f v ++ tail)) :
    decodeField t nfc (fuel + 1) f r = .ok (v, r.adv (encField t nfc ef f v).length) := by
  obtain ⟨num, kind, st⟩ := f
  simp only at hnum ht hk hty
  cases kind <;> cases v <;> first | (simp [typedVal, flatKind] at hty hk; done) | skip
  all_goals clear hk
  all_goals simp only [encField, List.append_assoc] at h ⊢
  all_goals simp only [decodeField]
  · -- uint
    rename_i n
    have hn : n < 2 ^ 64 := by simpa [typedVal] using hty
    rw [Reader.enter_key st (Or.inl rfl) (by omega) h]
    simp only
    rw [Reader.readUInt_put hn h.adv]
    simp [Reader.adv_adv]
  · -- uint32
    rename_i n
    have hn : n < 2 ^ 32 := by simpa [typedVal] using hty
    rw [Reader.enter_key st (Or.inl rfl) (by omega) h]
    simp only
    rw [Reader.readUInt_put (by omega) h.adv]
    simpa [Reader.adv_adv] using hn
  · -- int32
    rename_i i
    have hi : -2 ^ 31 ≤ i ∧ i < 2 ^ 31 := by simpa [typedVal] using hty
    rw [Reader.enter_key st (Or.inl rfl) (by omega) h]
    simp only
    rw [Reader.readUInt_put (zigzag_lt i hi.1 hi.2) h.adv]
    simp only [int32_roundtrip i hi.1 hi.2]
    simp [Reader.adv_adv]
  · -- bool
    rename_i b
    rw [Reader.enter_key st (Or.inl rfl) (by omega) h]
    simp only
    rw [Reader.readBool_put (tail := tail) (by simpa using h.adv)]
    simp [Reader.adv_adv]
  · -- bytes
    rename_i b
    have hb : b.length < 2 ^ 63 := by simpa [typedVal] using hty
    rw [Reader.enter_key st (Or.inr rfl) (by omega) h]
    simp only
    rw [Reader.readBytes_put (by omega) h.adv]
    simp [Reader.adv_adv]
  · -- string
    rename_i b
    simp only [typedVal, Bool.and_eq_true, decide_eq_true_eq] at hty
    obtain ⟨⟨⟨hb, hu⟩, hn⟩, he⟩ := hty
    rw [he] at h ⊢
    rw [Reader.enter_key st (Or.inr rfl) (by omega) h]
    simp only
    rw [Reader.readString_put (by omega) hu hn h.adv]
    simp [Reader.adv_adv]
  · -- bytesArr
    rename_i l
    simp only [typedVal, List.all_eq_true, decide_eq_true_eq] at hty
    have hf : l.length < r.data.length + 2 := by
      have h1 := encBytesArr_length_ge num l
      have h2 := h.length_le
      simp only [encBytesArr, List.length_append] at h1 h2
      omega
    rw [readBytesArray_put num hnum l _ r [] tail (fun b hb => by have := hty b hb; omega) hf ht h]
    simp [encBytesArr]
  · -- uints
    rename_i l
    simp only [typedVal, Bool.and_eq_true, List.all_eq_true, decide_eq_true_eq] at hty
    obtain ⟨hl, hlen⟩ := hty
    cases l with
    | nil =>
      simp only [List.isEmpty_nil, if_true, List.nil_append, List.length_nil] at h ⊢
      rw [Reader.enterArr_tail ht h]
      rfl
    | cons n l =>
      simp only [List.isEmpty_cons, Bool.false_eq_true, if_false, List.append_assoc] at h ⊢
      rw [Reader.enterArr_key (Or.inr rfl) hnum h]
      simp only
      have hd := hd rfl
      have h1 := h.adv
      unfold writeBytes at h1 ⊢
      rw [List.append_assoc] at h1
      have hlen' : (encPacked (n :: l)).length < 2 ^ 63 := hlen
      change r.adv _ |>.Holds (putUvarint (encPacked (n :: l)).length ++ (encPacked (n :: l) ++ tail)) at h1
      rw [Reader.readUInt_put (by omega) h1]
      have h2 := h1.adv
      have hnl : ¬ ((encPacked (n :: l)).length ≥ 2 ^ 63) := by omega
      have hne : encPacked (n :: l) ++ tail ≠ [] := by
        have h3 := encPacked_length_ge (n :: l)
        intro hc
        have h4 := congrArg List.length hc
        simp only [List.length_append, List.length_nil, List.length_cons] at h3 h4
        omega
      have hidx := h2.index_le hne
      simp only [Reader.adv_data, Reader.adv_index, List.length_append] at hidx
      simp only [hnl, if_false, Reader.adv_index]
      rw [wrapInt64_id _ (by omega) (by push_cast; omega)]
      have hpl := encPacked_length_ge (n :: l)
      have hdl := h.length_le
      simp only [List.length_append] at hdl
      rw [readPackedUInts_put (n :: l) _ _ _ [] tail hl (by omega) h2 (by simp)]
      simp [Reader.adv_adv, encPacked, Nat.add_assoc]

/-! ### a list of fields -/

/-- one field's bytes are empty or start with that field's key -/
theorem encField_shape (t : Table) (nfc : NFC) (ef : Nat) (f : Field) (v : Value) :
    encField t nfc ef f v = [] ∨
      ∃ wt rest, (wt = 0 ∨ wt = 2) ∧ encField t nfc ef f v = writeKey wt f.num ++ rest := by
  obtain ⟨num, kind, st⟩ := f
  cases kind <;> cases v <;> simp only [encField] <;>
    first
    | exact Or.inl rfl
    | exact Or.inl trivial
    | exact Or.inr ⟨0, _, Or.inl rfl, rfl⟩
    | exact Or.inr ⟨2, _, Or.inr rfl, rfl⟩
    | skip
  · rename_i l
    cases l with
    | nil => exact Or.inl rfl
    | cons b l => exact Or.inr ⟨2, _, Or.inr rfl, by simp; rfl⟩
  · rename_i l
    cases l with
    | nil => exact Or.inl rfl
    | cons b l => exact Or.inr ⟨2, _, Or.inr rfl, by simp; rfl⟩
  · split
    · exact Or.inl rfl
    · split
      · exact Or.inr ⟨2, _, Or.inr rfl, rfl⟩
      · exact Or.inl rfl
  · rename_i l
    split
    · cases l with
      | nil => exact Or.inl rfl
      | cons b l => exact Or.inr ⟨2, _, Or.inr rfl, by simp; rfl⟩
    · exact Or.inl rfl

/-- field numbers strictly increase and exceed `lo` -/
def fieldsAbove : Nat → List Field → Bool
  | _, [] => true
  | lo, f :: fs => decide (lo < f.num) && fieldsAbove f.num fs

theorem fieldsAbove_mono {a b : Nat} (hab : a ≤ b) : ∀ {fs : List Field}, fieldsAbove b fs = true →
    fieldsAbove a fs = true := by
  intro fs h
  cases fs with
  | nil => rfl
  | cons f fs =>
    simp only [fieldsAbove, Bool.and_eq_true, decide_eq_true_eq] at h ⊢
    exact ⟨by omega, h.2⟩

theorem encodeFields_nil_left (t : Table) (nfc : NFC) (ef : Nat) (vs : List Value) :
    encodeFields t nfc ef [] vs = [] := by
  unfold encodeFields; rfl

theorem encodeFields_nil_right (t : Table) (nfc : NFC) (ef : Nat) (fs : List Field) :
    encodeFields t nfc ef fs [] = [] := by
  cases fs <;> (unfold encodeFields; rfl)

theorem tailOK_encodeFields (t : Table) (nfc : NFC) (ef : Nat) :
    ∀ (fs : List Field) (vs : List Value) (lo : Nat), fieldsAbove lo fs = true →
    (∀ f ∈ fs, f.num * 8 + 2 < 2 ^ 64) → TailOK lo (encodeFields t nfc ef fs vs) := by
  intro fs
  induction fs with
  | nil => intro vs lo _ _; left; exact encodeFields_nil_left t nfc ef vs
  | cons f fs ih =>
    intro vs lo hs hb
    cases vs with
    | nil => left; exact encodeFields_nil_right t nfc ef _
    | cons v vs =>
      simp only [fieldsAbove, Bool.and_eq_true, decide_eq_true_eq] at hs
      rw [encodeFields_cons]
      rcases encField_shape t nfc ef f v with e | ⟨wt, rest, hwt, e⟩
      · rw [e, List.nil_append]
        exact (ih vs f.num hs.2 (fun g hg => hb g (by simp [hg]))).mono (by omega)
      · rw [e, List.append_assoc]
        have := hb f (by simp)
        exact Or.inr ⟨f.num, wt, _, hs.1, by omega, hwt, rfl⟩

theorem decodeFields_put_gen (t : Table) (nfc : NFC) (ef : Nat) (P : Field → Value → Prop)
    (D : Bytes → Prop) (k : Nat)
    (hP : ∀ (f : Field) (v : Value) (fuel : Nat) (r : Reader) (tail : Bytes), P f v → k ≤ fuel →
      D r.data → TailOK f.num tail → r.Holds (encField t nfc ef f v ++ tail) →
      decodeField t nfc (fuel + 1) f r = .ok (v, r.adv (encField t nfc ef f v).length)) :
    ∀ (fs : List Field) (vs : List Value) (lo fuel : Nat) (r : Reader),
    fieldsAbove lo fs = true → (∀ f ∈ fs, f.num * 8 + 2 < 2 ^ 64) → List.Forall₂ P fs vs →
    fs.length + k < fuel → D r.data → r.Holds (encodeFields t nfc ef fs vs) →
    decodeFields t nfc fuel fs r = .ok (vs, r.adv (encodeFields t nfc ef fs vs).length) := by
  intro fs
  induction fs with
  | nil =>
    intro vs lo fuel r _ _ hv _ _ _
    cases hv
    rw [encodeFields_nil_left]
    unfold decodeFields
    rfl
  | cons f fs ih =>
    intro vs lo fuel r hs hb hv hf hd h
    cases hv with
    | cons hfv hrest =>
      rename_i v vs
      simp only [fieldsAbove, Bool.and_eq_true, decide_eq_true_eq] at hs
      simp only [List.length_cons] at hf
      obtain ⟨fuel, rfl⟩ : ∃ x, fuel = x + 2 := ⟨fuel - 2, by omega⟩
      rw [encodeFields_cons] at h ⊢
      have ht := tailOK_encodeFields t nfc ef fs vs f.num hs.2 (fun g hg => hb g (by simp [hg]))
      simp only [decodeFields]
      rw [hP f v fuel r _ hfv (by omega) hd ht h]
      simp only
      rw [ih vs f.num (fuel + 1) (r.adv (encField t nfc ef f v).length) hs.2 (fun g hg => hb g (by simp [hg])) hrest (by omega) hd h.adv]
      simp [Reader.adv_adv]

/-! ### flat schemas: round trip -/

def flatField (f : Field) : Bool := flatKind f.kind && decide (f.num * 8 + 2 < 2 ^ 64)

def typedVals (nfc : NFC) : List Field → List Value → Bool
  | [], [] => true
  | f :: fs, v :: vs => typedVal nfc f.kind v && typedVals nfc fs vs
  | _, _ => false

/-- what Encode / Decode / DecodeStrict must agree on -/
def fieldShape (f : Field) : Nat × Kind := (f.num, f.kind)

theorem fieldsAbove_congr : ∀ (fs fs' : List Field) (lo : Nat), fs.map fieldShape = fs'.map fieldShape →
    fieldsAbove lo fs = fieldsAbove lo fs' := by
  intro fs
  induction fs with
  | nil => intro fs' lo h; cases fs' <;> simp_all
  | cons f fs ih =>
    intro fs' lo h
    cases fs' with
    | nil => simp at h
    | cons g fs' =>
      simp only [List.map_cons, List.cons.injEq, fieldShape, Prod.mk.injEq] at h
      obtain ⟨⟨hn, _⟩, ht⟩ := h
      simp only [fieldsAbove, hn, ih fs' g.num ht]

theorem flatField_congr : ∀ (fs fs' : List Field), fs.map fieldShape = fs'.map fieldShape →
    fs.all flatField = fs'.all flatField := by
  intro fs
  induction fs with
  | nil => intro fs' h; cases fs' <;> simp_all
  | cons f fs ih =>
    intro fs' h
    cases fs' with
    | nil => simp at h
    | cons g fs' =>
      simp only [List.map_cons, List.cons.injEq, fieldShape, Prod.mk.injEq] at h
      obtain ⟨⟨hn, hk⟩, ht⟩ := h
      simp only [List.all_cons, flatField, hn, hk, ih fs' ht]

theorem typedVals_congr (nfc : NFC) : ∀ (fs fs' : List Field) (vs : List Value),
    fs.map fieldShape = fs'.map fieldShape → typedVals nfc fs vs = typedVals nfc fs' vs := by
  intro fs
  induction fs with
  | nil => intro fs' vs h; cases fs' <;> simp_all
  | cons f fs ih =>
    intro fs' vs h
    cases fs' with
    | nil => simp at h
    | cons g fs' =>
      simp only [List.map_cons, List.cons.injEq, fieldShape, Prod.mk.injEq] at h
      obtain ⟨⟨_, hk⟩, ht⟩ := h
      cases vs with
      | nil => rfl
      | cons v vs => simp only [typedVals, hk, ih fs' vs ht]

theorem encodeFields_congr (t : Table) (nfc : NFC) (ef : Nat) : ∀ (fs fs' : List Field) (vs : List Value),
    fs.map fieldShape = fs'.map fieldShape → encodeFields t nfc ef fs vs = encodeFields t nfc ef fs' vs := by
  intro fs
  induction fs with
  | nil =>
    intro fs' vs h
    cases fs' with
    | nil => rfl
    | cons g fs' => simp at h
  | cons f fs ih =>
    intro fs' vs h
    cases fs' with
    | nil => simp at h
    | cons g fs' =>
      simp only [List.map_cons, List.cons.injEq, fieldShape, Prod.mk.injEq] at h
      obtain ⟨⟨hn, hk⟩, ht⟩ := h
      cases vs with
      | nil => rw [encodeFields_nil_right, encodeFields_nil_right]
      | cons v vs =>
        rw [encodeFields_cons, encodeFields_cons, ih fs' vs ht]
        congr 1
        simp only [encField, hn, hk]

theorem forall₂_of_typedVals (nfc : NFC) (Q : Field → Prop) : ∀ (fs : List Field) (vs : List Value),
    (∀ f ∈ fs, Q f) → typedVals nfc fs vs = true →
    List.Forall₂ (fun f v => Q f ∧ typedVal nfc f.kind v = true) fs vs := by
  intro fs
  induction fs with
  | nil => intro vs _ h; cases vs with
    | nil => exact .nil
    | cons v vs => simp [typedVals] at h
  | cons f fs ih =>
    intro vs hf h
    cases vs with
    | nil => simp [typedVals] at h
    | cons v vs =>
      simp only [typedVals, Bool.and_eq_true] at h
      exact .cons ⟨hf f (by simp), h.1⟩ (ih vs (fun g hg => hf g (by simp [hg])) h.2)

def noUints (fs : List Field) : Bool := fs.all fun f => decide (f.kind ≠ .uints)

/-- Round trip of the field list of a flat struct for a reader positioned before exactly its
encoding (`Holds`): all values come back and the reader has advanced over the encoding. The length
bound is only needed when there is a packed `uints` field (Go `int` index arithmetic). -/
theorem decodeFields_flat_put (t : Table) (nfc : NFC) (ef fuel : Nat) (fs : List Field)
    (vs : List Value) (r : Reader) (hs : fieldsAbove 0 fs = true) (hf : fs.all flatField = true)
    (hv : typedVals nfc fs vs = true) (hfuel : fs.length < fuel)
    (hlen : noUints fs = true ∨ r.data.length < 2 ^ 63)
    (h : r.Holds (encodeFields t nfc ef fs vs)) :
    decodeFields t nfc fuel fs r = .ok (vs, r.adv (encodeFields t nfc ef fs vs).length) := by
  refine decodeFields_put_gen t nfc ef
    (fun f v => (flatField f = true ∧ (noUints fs = true → f.kind ≠ .uints)) ∧ typedVal nfc f.kind v = true)
    (fun data => noUints fs = true ∨ data.length < 2 ^ 63) 0
    ?_ fs vs 0 fuel r hs ?_ (forall₂_of_typedVals nfc _ fs vs ?_ hv) (by omega) hlen h
  · intro f v fuel r tail ⟨⟨h1, hu⟩, h2⟩ _ hd ht h
    simp only [flatField, Bool.and_eq_true, decide_eq_true_eq] at h1
    refine decodeField_put t nfc ef fuel f v r tail h1.1 h1.2 h2 ?_ ht h
    intro hk
    rcases hd with hd | hd
    · exact absurd hk (hu hd)
    · exact hd
  · intro f hfm
    have := List.all_eq_true.mp hf f hfm
    simp only [flatField, Bool.and_eq_true, decide_eq_true_eq] at this
    exact this.2
  · intro f hfm
    refine ⟨List.all_eq_true.mp hf f hfm, fun hn => ?_⟩
    have := List.all_eq_true.mp hn f hfm
    simpa using this

/-- the same from the start of a buffer holding exactly the encoding -/
theorem decodeFields_flat_roundtrip (t : Table) (nfc : NFC) (ef fuel : Nat) (fs : List Field)
    (vs : List Value) (hs : fieldsAbove 0 fs = true) (hf : fs.all flatField = true)
    (hv : typedVals nfc fs vs = true) (hfuel : fs.length < fuel)
    (hlen : noUints fs = true ∨ (encodeFields t nfc ef fs vs).length < 2 ^ 63) :
    decodeFields t nfc fuel fs (Reader.new (encodeFields t nfc ef fs vs)) =
      .ok (vs, (Reader.new (encodeFields t nfc ef fs vs)).adv (encodeFields t nfc ef fs vs).length) :=
  decodeFields_flat_put t nfc ef fuel fs vs _ hs hf hv hfuel hlen (Reader.Holds.new _)

theorem noUints_congr : ∀ (fs fs' : List Field), fs.map fieldShape = fs'.map fieldShape →
    noUints fs = noUints fs' := by
  intro fs
  induction fs with
  | nil => intro fs' h; cases fs' <;> simp_all [noUints]
  | cons f fs ih =>
    intro fs' h
    cases fs' with
    | nil => simp at h
    | cons g fs' =>
      simp only [List.map_cons, List.cons.injEq, fieldShape, Prod.mk.injEq] at h
      obtain ⟨⟨_, hk⟩, ht⟩ := h
      have := ih fs' ht
      simp only [noUints, List.all_cons, hk] at this ⊢
      rw [this]

/-! ### what was read had been written: primitives -/

/-- reading moved `r` to `r'` over exactly the bytes `X` -/
def Canon (r r' : Reader) (X : Bytes) : Prop := r' = r.adv X.length ∧ r.suffix = X ++ r'.suffix

theorem Canon.refl (r : Reader) : Canon r r [] := ⟨rfl, by simp⟩

theorem Canon.trans {r r1 r2 : Reader} {X Y : Bytes} (h1 : Canon r r1 X) (h2 : Canon r1 r2 Y) :
    Canon r r2 (X ++ Y) := by
  obtain ⟨e1, s1⟩ := h1
  obtain ⟨e2, s2⟩ := h2
  refine ⟨?_, ?_⟩
  · rw [e2, e1, Reader.adv_adv, List.length_append]
  · rw [s1, s2, List.append_assoc]

theorem canon_of_take {r : Reader} {size : Nat} {X : Bytes} (h : r.suffix.take size = X)
    (hs : size = X.length) : Canon r { r with index := r.index + size } X := by
  subst hs
  refine ⟨rfl, ?_⟩
  have := (List.take_append_drop X.length r.suffix).symm
  rw [h] at this
  rw [this]
  congr 1
  simp [Reader.suffix, List.drop_drop]

theorem Reader.readUInt_canon {r r' : Reader} {n : Nat} (h : r.readUInt = .ok (n, r')) :
    Canon r r' (putUvarint n) ∧ n < 2 ^ 64 := by
  unfold Reader.readUInt at h
  split at h
  · rename_i v size heq
    injection h with h
    injection h with hv hr
    subst hv hr
    obtain ⟨h1, h2, h3⟩ := readUint_canonical _ _ _ heq
    exact ⟨canon_of_take h1 h2, h3⟩
  · exact absurd h (by simp)

theorem Reader.check_canon {r r' : Reader} {num wt : Nat} (h : r.check num wt = .ok r') :
    Canon r r' (writeKey wt num) := by
  unfold Reader.check at h
  split at h
  · exact absurd h (by simp)
  · split at h
    · exact absurd h (by simp)
    · rename_i key size heq
      split at h
      · exact absurd h (by simp)
      · rename_i fn w hk
        split at h
        · exact absurd h (by simp)
        · split at h
          · exact absurd h (by simp)
          · rename_i hfn hw
            injection h with h
            subst h
            obtain ⟨h1, h2, _⟩ := readUint_canonical _ _ _ heq
            have hkey : key = num * 8 + wt := by
              unfold readKey at hk
              simp only at hk
              split at hk
              · exact absurd hk (by simp)
              · injection hk with hk
                injection hk with a b
                omega
            unfold writeKey
            rw [← hkey]
            exact canon_of_take h1 h2

theorem Reader.readBool_canon {r r' : Reader} {b : Bool} (h : r.readBool = .ok (b, r')) :
    Canon r r' [if b then 1 else 0] := by
  unfold Reader.readBool at h
  split at h
  · exact absurd h (by simp)
  · rename_i x hx
    split at h
    · exact absurd h (by simp)
    · rename_i hb
      injection h with h
      injection h with hv hr
      subst hr
      have hx01 : x = 0 ∨ x = 1 := by
        by_cases h0 : x = 0
        · exact Or.inl h0
        · right
          by_contra h1
          exact hb ⟨h0, h1⟩
      have hval : (if b then (1 : UInt8) else 0) = x := by
        rcases hx01 with rfl | rfl <;> simp [← hv]
      rw [hval]
      obtain ⟨hlt, hget⟩ := List.getElem?_eq_some_iff.mp hx
      refine ⟨rfl, ?_⟩
      simp only [Reader.suffix]
      rw [List.drop_eq_getElem_cons hlt, hget]
      rfl

theorem Reader.readBytes_canon {r r' : Reader} {b : Bytes} (h : r.readBytes = .ok (b, r')) :
    Canon r r' (writeBytes b) ∧ b.length < 2 ^ 64 := by
  unfold Reader.readBytes at h
  split at h
  · exact absurd h (by simp)
  · rename_i size r1 heq
    obtain ⟨hc, hsz⟩ := Reader.readUInt_canon heq
    simp only at h
    split at h
    · exact absurd h (by simp)
    · rename_i hle
      injection h with h
      injection h with hv hr
      have hlen : b.length = size := by
        rw [← hv]; simp only [List.length_take, List.length_drop]; omega
      unfold writeBytes
      rw [hlen]
      refine ⟨hc.trans ?_, by omega⟩
      rw [← hr]
      exact canon_of_take hv hlen.symm

theorem Reader.readString_canon {nfc : NFC} {r r' : Reader} {b : Bytes}
    (h : r.readString nfc = .ok (b, r')) :
    Canon r r' (writeBytes b) ∧ nfc.normal b = true := by
  unfold Reader.readString at h
  split at h
  · exact absurd h (by simp)
  · rename_i b1 r1 heq
    split at h
    · exact absurd h (by simp)
    · split at h
      · exact absurd h (by simp)
      · rename_i hn
        injection h with h
        injection h with hv hr
        subst hv hr
        exact ⟨(Reader.readBytes_canon heq).1, by simpa using hn⟩

theorem Reader.enter_strict_canon {r : Reader} {num wt : Nat} {o : Option Reader}
    (h : r.enter num wt true = .ok o) : ∃ r1, o = some r1 ∧ Canon r r1 (writeKey wt num) := by
  unfold Reader.enter at h
  split at h
  · rename_i r1 heq
    injection h with h
    exact ⟨r1, h.symm, Reader.check_canon heq⟩
  · split at h
    · exact absurd h (by simp)
    · simp at h

theorem readBytesArray_canon (num : Nat) : ∀ (fuel : Nat) (r r' : Reader) (acc l : List Bytes),
    readBytesArray fuel r num acc = .ok (l, r') →
    ∃ l', l = acc ++ l' ∧ Canon r r' (encBytesArr num l') := by
  intro fuel
  induction fuel with
  | zero => intro r r' acc l h; simp [readBytesArray] at h
  | succ fuel ih =>
    intro r r' acc l h
    unfold readBytesArray at h
    split at h
    · split at h
      · exact absurd h (by simp)
      · injection h with h
        injection h with h1 h2
        subst h1 h2
        exact ⟨[], by simp, Canon.refl r⟩
      · rename_i r1 heq
        split at h
        · exact absurd h (by simp)
        · rename_i b r2 hb
          obtain ⟨l', hl, hc⟩ := ih r2 r' (acc ++ [b]) l h
          have hk : Canon r r1 (writeKey 2 num) := by
            unfold Reader.enterArr at heq
            split at heq
            · rename_i r1' hch
              injection heq with heq
              injection heq with heq
              subst heq
              exact Reader.check_canon hch
            · split at heq <;> simp at heq
          refine ⟨b :: l', by simp [hl], ?_⟩
          have := (hk.trans (Reader.readBytes_canon hb).1).trans hc
          simpa [encBytesArr, List.append_assoc] using this
    · injection h with h
      injection h with h1 h2
      subst h1 h2
      exact ⟨[], by simp, Canon.refl r⟩

/-! ### canonical strict decoding of flat structs -/

def canonKind : Kind → Bool
  | .uint | .bool | .bytes | .string | .bytesArr => true
  | _ => false

def singleValued : Kind → Bool
  | .bytesArr | .uints | .msgArr _ => false
  | _ => true

def canonField (f : Field) : Bool := canonKind f.kind && (f.strict == singleValued f.kind)

theorem decodeField_canon (t : Table) (nfc : NFC) (ef : Nat)
    (hlaw : ∀ b, nfc.normal b = true → nfc.normalize b = b)
    (fuel : Nat) (f : Field) (r r' : Reader) (v : Value) (hf : canonField f = true)
    (h : decodeField t nfc fuel f r = .ok (v, r')) : Canon r r' (encField t nfc ef f v) := by
  cases fuel with
  | zero => simp [decodeField] at h
  | succ fuel =>
  obtain ⟨num, kind, st⟩ := f
  cases kind <;> simp [canonField, canonKind, singleValued] at hf
  all_goals subst hf
  all_goals simp only [decodeField] at h
  · -- uint
    split at h
    · exact absurd h (by simp)
    · rename_i heq
      obtain ⟨r1, e, _⟩ := Reader.enter_strict_canon heq
      simp at e
    · rename_i r1 heq
      obtain ⟨r1', e, hc⟩ := Reader.enter_strict_canon heq
      injection e with e
      subst e
      split at h
      · exact absurd h (by simp)
      · rename_i x r2 hr
        injection h with h
        injection h with hv hr'
        subst hv hr'
        simp only [encField]
        exact hc.trans (Reader.readUInt_canon hr).1
  · -- bool
    split at h
    · exact absurd h (by simp)
    · rename_i heq
      obtain ⟨r1, e, _⟩ := Reader.enter_strict_canon heq
      simp at e
    · rename_i r1 heq
      obtain ⟨r1', e, hc⟩ := Reader.enter_strict_canon heq
      injection e with e
      subst e
      split at h
      · exact absurd h (by simp)
      · rename_i x r2 hr
        injection h with h
        injection h with hv hr'
        subst hv hr'
        simp only [encField]
        exact hc.trans (Reader.readBool_canon hr)
  · -- bytes
    split at h
    · exact absurd h (by simp)
    · rename_i heq
      obtain ⟨r1, e, _⟩ := Reader.enter_strict_canon heq
      simp at e
    · rename_i r1 heq
      obtain ⟨r1', e, hc⟩ := Reader.enter_strict_canon heq
      injection e with e
      subst e
      split at h
      · exact absurd h (by simp)
      · rename_i x r2 hr
        injection h with h
        injection h with hv hr'
        subst hv hr'
        simp only [encField]
        exact hc.trans (Reader.readBytes_canon hr).1
  · -- string
    split at h
    · exact absurd h (by simp)
    · rename_i heq
      obtain ⟨r1, e, _⟩ := Reader.enter_strict_canon heq
      simp at e
    · rename_i r1 heq
      obtain ⟨r1', e, hc⟩ := Reader.enter_strict_canon heq
      injection e with e
      subst e
      split at h
      · exact absurd h (by simp)
      · rename_i x r2 hr
        injection h with h
        injection h with hv hr'
        subst hv hr'
        simp only [encField]
        rw [hlaw _ (Reader.readString_canon hr).2]
        exact hc.trans (Reader.readString_canon hr).1
  · -- bytesArr
    split at h
    · exact absurd h (by simp)
    · rename_i l r2 hr
      injection h with h
      injection h with hv hr'
      subst hv hr'
      obtain ⟨l', hl, hc⟩ := readBytesArray_canon num _ _ _ _ _ hr
      simp only [List.nil_append] at hl
      subst hl
      simpa [encField, encBytesArr] using hc

theorem decodeFields_canon (t : Table) (nfc : NFC) (ef : Nat)
    (hlaw : ∀ b, nfc.normal b = true → nfc.normalize b = b) :
    ∀ (fs : List Field) (fuel : Nat) (r r' : Reader) (vs : List Value),
    fs.all canonField = true → decodeFields t nfc fuel fs r = .ok (vs, r') →
    Canon r r' (encodeFields t nfc ef fs vs) := by
  intro fs
  induction fs with
  | nil =>
    intro fuel r r' vs _ h
    unfold decodeFields at h
    injection h with h
    injection h with h1 h2
    subst h1 h2
    rw [encodeFields_nil_left]
    exact Canon.refl r
  | cons f fs ih =>
    intro fuel r r' vs hf h
    simp only [List.all_cons, Bool.and_eq_true] at hf
    cases fuel with
    | zero => simp [decodeFields] at h
    | succ fuel =>
      simp only [decodeFields] at h
      split at h
      · exact absurd h (by simp)
      · rename_i v r1 h1
        split at h
        · exact absurd h (by simp)
        · rename_i vs' r2 h2
          injection h with h
          injection h with hv hr
          subst hv hr
          rw [encodeFields_cons]
          exact (decodeField_canon t nfc ef hlaw fuel f r r1 v hf.1 h1).trans (ih fuel r1 _ vs' hf.2 h2)

/-- Strict decoding of a flat canonical-kind field list from a fresh reader that ends exactly at the
end of the buffer: the buffer is the encoding of the decoded values. -/
theorem decodeFields_canon_whole (t : Table) (nfc : NFC) (ef : Nat)
    (hlaw : ∀ b, nfc.normal b = true → nfc.normalize b = b)
    (fs : List Field) (fuel : Nat) (data : Bytes) (r' : Reader) (vs : List Value)
    (hf : fs.all canonField = true)
    (h : decodeFields t nfc fuel fs (Reader.new data) = .ok (vs, r'))
    (hend : (r'.index : Int) = r'.stop) : encodeFields t nfc ef fs vs = data := by
  obtain ⟨e, hs⟩ := decodeFields_canon t nfc ef hlaw fs fuel _ r' vs hf h
  have h1 : r'.suffix = [] := by
    rw [e] at hend ⊢
    simp only [Reader.adv_index, Reader.adv_stop, Reader.new] at hend
    simp only [Reader.suffix, Reader.adv_data, Reader.adv_index, Reader.new]
    apply List.drop_eq_nil_of_le
    omega
  rw [h1, List.append_nil] at hs
  rw [← hs]
  simp [Reader.suffix, Reader.new]

/-! ### one level of nesting -/

/-- a present nested struct whose schema is flat -/
theorem decodeField_put_msg (t : Table) (nfc : NFC) (ef fuel : Nat) (f : Field) (name : String)
    (sn : Schema) (vals : List Value) (r : Reader) (tail : Bytes)
    (hk : f.kind = .msg name) (hfind : t.find name = some sn) (hnum : f.num * 8 + 2 < 2 ^ 64)
    (hs : fieldsAbove 0 sn.dec = true) (hff : sn.dec.all flatField = true)
    (hv : typedVals nfc sn.dec vals = true) (hshape : sn.enc.map fieldShape = sn.dec.map fieldShape)
    (hfuel : sn.dec.length + 1 < fuel) (hd : r.data.length < 2 ^ 63)
    (h : r.Holds (encField t nfc (ef + 1) f (.msg true vals) ++ tail)) :
    decodeField t nfc (fuel + 1) f r =
      .ok (.msg true vals, r.adv (encField t nfc (ef + 1) f (.msg true vals)).length) := by
  obtain ⟨num, kind, st⟩ := f
  simp only at hk hnum
  subst hk
  have e : encField t nfc (ef + 1) ⟨num, .msg name, st⟩ (.msg true vals) =
      writeKey 2 num ++ writeBytes (encodeFields t nfc ef sn.dec vals) := by
    simp only [encField, hfind, Bool.not_true, Bool.false_eq_true, if_false]
    rw [encodeFields_congr t nfc ef sn.enc sn.dec vals hshape]
  rw [e] at h ⊢
  generalize hbody : encodeFields t nfc ef sn.dec vals = body at h ⊢
  simp only [List.append_assoc] at h
  obtain ⟨fuel, rfl⟩ : ∃ x, fuel = x + 1 := ⟨fuel - 1, by omega⟩
  simp only [decodeField]
  rw [Reader.enter_key st (Or.inr rfl) hnum h]
  simp only [decodeNested]
  have h1 := h.adv
  unfold writeBytes at h1 ⊢
  rw [List.append_assoc] at h1
  have hbl : body.length < 2 ^ 63 := by
    have := h.length_le
    simp only [List.length_append, writeBytes] at this
    omega
  rw [Reader.readUInt_put (by omega) h1]
  simp only [hfind]
  have h2 := h1.adv
  have hnl : ¬ (body.length ≥ 2 ^ 63) := by omega
  simp only [hnl, if_false, Reader.adv_index]
  have hidx : r.index + (writeKey 2 num).length + (putUvarint body.length).length + body.length
      ≤ r.data.length := by
    by_cases hb : body = []
    · subst hb
      have := h1.index_le (by
        intro hc
        have := congrArg List.length hc
        have := putUvarint_length_pos ([] : Bytes).length
        simp only [List.length_append, List.length_nil] at *
        omega)
      simp only [Reader.adv_data, Reader.adv_index, List.length_append, List.length_nil] at this ⊢
      omega
    · have := h2.index_le (by simp [hb])
      simp only [Reader.adv_data, Reader.adv_index, List.length_append] at this
      omega
  rw [wrapInt64_id _ (by omega) (by push_cast; omega)]
  -- the nested reader holds exactly the body
  have hn : Reader.Holds
      { data := r.data, index := r.index + (writeKey 2 num).length + (putUvarint body.length).length,
        stop := ((r.index + (writeKey 2 num).length + (putUvarint body.length).length : Nat) : Int)
          + (body.length : Int) } body := by
    obtain ⟨junk, hsuf, _⟩ := h2
    exact ⟨tail ++ junk, by simpa [Reader.suffix, List.append_assoc] using hsuf, rfl⟩
  have hdec := decodeFields_flat_put t nfc ef fuel sn.dec vals
    { data := r.data, index := r.index + (writeKey 2 num).length + (putUvarint body.length).length,
      stop := ((r.index + (writeKey 2 num).length + (putUvarint body.length).length : Nat) : Int)
        + (body.length : Int) } hs hff hv (by omega) (Or.inr hd) (hbody ▸ hn)
  rw [hbody] at hdec
  simp only [Reader.adv] at hdec ⊢
  push_cast at hdec ⊢
  rw [hdec]
  simp [Nat.add_assoc]

/-! ### absent fields: defaults -/

theorem decodeField_absent (t : Table) (nfc : NFC) (fuel : Nat) (f : Field) (r : Reader)
    (hk : flatKind f.kind = true) (hst : f.strict = false) (h : r.Holds []) :
    decodeField t nfc (fuel + 1) f r = .ok (zeroValue f.kind, r) := by
  obtain ⟨num, kind, st⟩ := f
  simp only at hk hst
  subst hst
  have hte : ∀ wt, r.enter num wt false = .ok none := fun wt => Reader.enter_tail (Or.inl rfl) h
  have hta : ∀ wt, r.enterArr num wt = .ok none := fun wt => Reader.enterArr_tail (Or.inl rfl) h
  cases kind <;> simp only [flatKind] at hk <;> first | (exact absurd hk (by decide)) | skip
  all_goals simp only [decodeField, hte, hta, zeroValue]
  -- bytesArr
  have hge := h.ge_stop
  have hnlt : ¬ ((r.index : Int) < r.stop) := by omega
  simp only [readBytesArray, hnlt, if_false]

theorem decodeFields_absent (t : Table) (nfc : NFC) : ∀ (fs : List Field) (fuel : Nat) (r : Reader),
    fs.all (fun f => flatKind f.kind && !f.strict) = true → fs.length < fuel → r.Holds [] →
    decodeFields t nfc fuel fs r = .ok (fs.map fun f => zeroValue f.kind, r) := by
  intro fs
  induction fs with
  | nil => intro fuel r _ _ _; unfold decodeFields; rfl
  | cons f fs ih =>
    intro fuel r hf hfuel h
    simp only [List.all_cons, Bool.and_eq_true, Bool.not_eq_true'] at hf
    simp only [List.length_cons] at hfuel
    obtain ⟨fuel, rfl⟩ : ∃ x, fuel = x + 2 := ⟨fuel - 2, by omega⟩
    simp only [decodeFields]
    rw [decodeField_absent t nfc fuel f r hf.1.1 hf.1.2 h]
    simp only
    rw [ih (fuel + 1) r (by simpa using hf.2) (by omega) h]
    rfl

/-- a field that is flat and well-typed, or a present nested struct with a flat schema -/
def fieldOK1 (t : Table) (nfc : NFC) (f : Field) (v : Value) : Prop :=
  (flatField f = true ∧ typedVal nfc f.kind v = true) ∨
  (∃ name sn vals, f.kind = .msg name ∧ t.find name = some sn ∧ v = .msg true vals ∧
    f.num * 8 + 2 < 2 ^ 64 ∧ fieldsAbove 0 sn.dec = true ∧ sn.dec.all flatField = true ∧
    typedVals nfc sn.dec vals = true ∧ sn.enc.map fieldShape = sn.dec.map fieldShape ∧
    sn.dec.length ≤ 100)

theorem fieldOK1_bound {t : Table} {nfc : NFC} {f : Field} {v : Value} (h : fieldOK1 t nfc f v) :
    f.num * 8 + 2 < 2 ^ 64 := by
  rcases h with ⟨h, _⟩ | ⟨_, _, _, _, _, _, h, _⟩
  · simp only [flatField, Bool.and_eq_true, decide_eq_true_eq] at h; exact h.2
  · exact h

theorem fieldOK1_congr {t : Table} {nfc : NFC} {f g : Field} {v : Value}
    (e : fieldShape f = fieldShape g) (h : fieldOK1 t nfc f v) : fieldOK1 t nfc g v := by
  simp only [fieldShape, Prod.mk.injEq] at e
  unfold fieldOK1 flatField at *
  rw [← e.1, ← e.2]
  exact h

theorem forall₂_shape_congr (P : Field → Value → Prop)
    (hP : ∀ f g v, fieldShape f = fieldShape g → P f v → P g v) :
    ∀ (fs fs' : List Field) (vs : List Value), fs.map fieldShape = fs'.map fieldShape →
    List.Forall₂ P fs vs → List.Forall₂ P fs' vs := by
  intro fs
  induction fs with
  | nil =>
    intro fs' vs h hv
    cases fs' with
    | nil => exact hv
    | cons g fs' => simp at h
  | cons f fs ih =>
    intro fs' vs h hv
    cases fs' with
    | nil => simp at h
    | cons g fs' =>
      simp only [List.map_cons, List.cons.injEq] at h
      cases hv with
      | cons h1 h2 => exact .cons (hP f g _ h.1 h1) (ih fs' _ h.2 h2)

theorem forall₂_left {P : Field → Value → Prop} {Q : Field → Prop} (hPQ : ∀ f v, P f v → Q f) :
    ∀ {fs : List Field} {vs : List Value}, List.Forall₂ P fs vs → ∀ f ∈ fs, Q f := by
  intro fs vs h
  induction h with
  | nil => intro f hf; simp at hf
  | cons h1 _ ih =>
    intro f hf
    rcases List.mem_cons.mp hf with rfl | hf
    · exact hPQ _ _ h1
    · exact ih f hf

/-- Round trip of a field list whose fields are flat or present nested structs with flat schemas. -/
theorem decodeFields_nested1_put (t : Table) (nfc : NFC) (ef fuel : Nat) (fs : List Field)
    (vs : List Value) (r : Reader) (hs : fieldsAbove 0 fs = true)
    (hv : List.Forall₂ (fieldOK1 t nfc) fs vs) (hfuel : fs.length + 102 < fuel)
    (hd : r.data.length < 2 ^ 63) (h : r.Holds (encodeFields t nfc (ef + 1) fs vs)) :
    decodeFields t nfc fuel fs r = .ok (vs, r.adv (encodeFields t nfc (ef + 1) fs vs).length) := by
  refine decodeFields_put_gen t nfc (ef + 1) (fieldOK1 t nfc) (fun data => data.length < 2 ^ 63) 102
    ?_ fs vs 0 fuel r hs (forall₂_left (P := fieldOK1 t nfc) (Q := fun f => f.num * 8 + 2 < 2 ^ 64)
      (fun _ _ hh => fieldOK1_bound hh) hv) hv hfuel hd h
  intro f v fuel r tail hP hk hd ht h
  rcases hP with ⟨h1, h2⟩ | ⟨name, sn, vals, hkind, hfind, rfl, hnum, h3, h4, h5, h6, h7⟩
  · simp only [flatField, Bool.and_eq_true, decide_eq_true_eq] at h1
    exact decodeField_put t nfc (ef + 1) fuel f v r tail h1.1 h1.2 h2 (fun _ => hd) ht h
  · exact decodeField_put_msg t nfc ef fuel f name sn vals r tail hkind hfind hnum h3 h4 h5 h6
      (by omega) hd h

end LiskVerif.Codec
