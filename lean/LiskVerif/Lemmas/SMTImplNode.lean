/-
`updateNode` refines the specification: on a node holding the entries `es` and bins holding the writes `ops`
it returns (the flattening of) a layout tree arranging `applyE es ops`.

The store enters through two abstract relations, so that the same proof serves a single stored level
(`S`, `F` trivial) and the recursion through the levels:
* `S db d es h`  – the store `db` holds the subtree with root `h` for the entries `es` (`d` key bits left);
* `F pre db db'` – `db'` differs from `db` only in records of subtrees below the position `pre` (frame).
-/
import LiskVerif.Lemmas.SMTImplBins
import LiskVerif.Lemmas.SMTImplMaps

namespace LiskVerif.SMTImpl
open LiskVerif LiskVerif.SMT

/-- two positions neither of which is above the other -/
def Diverge (p q : Bits) : Prop := ∃ (cm : Bits) (b : Bool) (r₁ r₂ : Bits), p = cm ++ b :: r₁ ∧ q = cm ++ (!b) :: r₂

theorem Diverge.ext_left {p q : Bits} (h : Diverge p q) (x : Bits) : Diverge (p ++ x) q := by
  obtain ⟨cm, b, r₁, r₂, rfl, rfl⟩ := h
  exact ⟨cm, b, r₁ ++ x, r₂, by simp, rfl⟩

theorem Diverge.ext_right {p q : Bits} (h : Diverge p q) (x : Bits) : Diverge p (q ++ x) := by
  obtain ⟨cm, b, r₁, r₂, rfl, rfl⟩ := h
  exact ⟨cm, b, r₁, r₂ ++ x, rfl, by simp⟩

theorem Diverge.symm {p q : Bits} (h : Diverge p q) : Diverge q p := by
  obtain ⟨cm, b, r₁, r₂, rfl, rfl⟩ := h
  exact ⟨cm, !b, r₂, r₁, rfl, by simp⟩

theorem diverge_children (pre : Bits) (b : Bool) : Diverge (pre ++ [b]) (pre ++ [!b]) :=
  ⟨pre, b, [], [], rfl, rfl⟩

/-- the abstract store interface -/
structure World where
  S : DB → Nat → List Entry → Bytes → Prop
  F : Bits → DB → DB → Prop
  /-- what is known of the key / value of every stored entry, and of every write of the batch -/
  EOK : Bytes → Bytes → Prop
  OOK : Bytes → Bytes → Prop
  /-- what is known of every group of entries (before and after the writes); kept when descending -/
  IOK : Nat → List Entry → Prop
  IOK_goL : ∀ d es, WFE (d + 1) es → IOK (d + 1) es → IOK d (goL es)
  IOK_goR : ∀ d es, WFE (d + 1) es → IOK (d + 1) es → IOK d (goR es)
  F_refl : ∀ pre db, F pre db db
  F_trans : ∀ pre db db1 db2, F pre db db1 → F pre db1 db2 → F pre db db2
  F_ext : ∀ pre x db db', F (pre ++ x) db db' → F pre db db'
  S_frame : ∀ pre pre' db db' d es h, F pre db db' → Diverge pre pre' → (∀ e ∈ es, Under pre' e) → 2 ≤ es.length →
    S db d es h → S db' d es h

/-- the trivial world of a single stored level -/
def World.trivial : World where
  S := fun _ _ _ _ => True
  F := fun _ _ _ => True
  EOK := fun _ _ => True
  OOK := fun _ _ => True
  IOK := fun _ _ => True
  IOK_goL := fun _ _ _ _ => True.intro
  IOK_goR := fun _ _ _ _ => True.intro
  F_refl := fun _ _ => True.intro
  F_trans := fun _ _ _ _ _ _ => True.intro
  F_ext := fun _ _ _ _ _ => True.intro
  S_frame := fun _ _ _ _ _ _ _ _ _ _ _ _ => True.intro

theorem ArrTip.frame (W : World) {H : HashFn} {rem d : Nat} {n : Node} {es : List Entry} {pre pre' : Bits}
    {db db' : DB} (hF : W.F pre db db') (hd : Diverge pre pre') (hu : ∀ e ∈ es, Under pre' e)
    (h : ArrTip H (W.S db) rem d n es) : ArrTip H (W.S db') rem d n es := by
  cases h with
  | empty => exact ArrTip.empty
  | leaf e hv => exact ArrTip.leaf e hv
  | stub es h0 h2 hs =>
    exact ArrTip.stub es h0 h2 (W.S_frame pre pre' db db' d es _ hF hd hu h2 hs)

/-- a tree arranged below `pre'` survives changes below a diverging position -/
theorem Arr.frame (W : World) {H : HashFn} {pre : Bits} {db db' : DB} (hF : W.F pre db db') :
    ∀ {rem d : Nat} {t : LT} {es : List Entry} {pre' : Bits}, Diverge pre pre' → (∀ e ∈ es, Under pre' e) →
      Arr H (W.S db) rem d t es → Arr H (W.S db') rem d t es := by
  intro rem d t es pre' hd hu h
  induction h generalizing pre' with
  | tip rem d n es ht => exact Arr.tip rem d n es (ArrTip.frame W hF hd hu ht)
  | br rem d l r es _ _ ihl ihr =>
    exact Arr.br rem d l r es (ihl (hd.ext_right [false]) (under_goL hu)) (ihr (hd.ext_right [true]) (under_goR hu))

/-- the hypothesis on the bottom of a subtree (`structurePos == subtreeHeight`): when the shortcuts do not apply,
`updateBottom` returns one node holding the updated entries -/
def BottomOK (c : Cfg) (W : World) (lower : DB → List KV → SubTree → Nat → St SubTree) (height d : Nat) : Prop :=
  ∀ (pre : Bits) (db : DB) (bins : List (List KV)) (cur : Node) (es ops : List Entry),
    pre.length = height + c.sth → ArrTip c.H (W.S db) 0 d cur es → WFE d es → WFE d ops →
    (∀ e ∈ es, Under pre e) → (∀ o ∈ ops, Under pre o) →
    (∀ e ∈ es, W.EOK e.key e.value) → (∀ o ∈ ops, W.OOK o.key o.value) →
    W.IOK d es → W.IOK d (applyE es ops) →
    BinsOK 0 bins ops → ops ≠ [] → singleResult c c.sth bins cur = none →
    ∃ db' n, updateBottom c lower height c.sth db bins cur = (db', .ok ([n], [c.sth])) ∧
      ArrTip c.H (W.S db') 0 d n (applyE es ops) ∧ W.F pre db db'

theorem applyE_single_hit {e o : Entry} (h : e.path = o.path) :
    applyE [e] [o] = if o.value ≠ [] then [o] else [] := by
  simp [applyE, untouched, h]
  split <;> simp_all

theorem applyE_nil_single (o : Entry) : applyE [] [o] = if o.value ≠ [] then [o] else [] := by
  simp [applyE]
  split <;> simp_all

/-- the `totalData == 1` shortcuts are right -/
theorem singleResult_arr (c : Cfg) (W : World) {rem d : Nat} {pre : Bits} {db : DB} {bins : List (List KV)}
    {cur : Node} {es ops : List Entry} {pos : Nat} {r : NS}
    (hcur : ArrTip c.H (W.S db) rem d cur es) (ho : WFE d ops) (hrd : rem ≤ d)
    (hue : ∀ e ∈ es, Under pre e) (huo : ∀ o ∈ ops, Under pre o)
    (hb : BinsOK rem bins ops) (h : singleResult c pos bins cur = some r) :
    ∃ n, r = ([n], [pos]) ∧ ArrTip c.H (W.S db) rem d n (applyE es ops) := by
  have hlen : ∀ o ∈ ops, rem ≤ o.path.length := fun o ho' => by rw [ho.1 o ho']; exact hrd
  have htot := hb.total hlen
  unfold singleResult at h
  split at h
  · rename_i h1
    rw [htot] at h1
    obtain ⟨o, rfl⟩ := List.length_eq_one_iff.mp h1
    have hf := hb.firstKV_single (hlen o (by simp))
    rw [hf] at h
    simp only [kvOf] at h
    cases hcur with
    | empty =>
      simp only [newEmptyNode, if_true] at h
      rw [applyE_nil_single]
      by_cases hv : o.value = []
      · simp [hv] at h ⊢
        exact ⟨_, h.symm, ArrTip.empty⟩
      · have hl : o.value.length ≠ 0 := by simpa using hv
        simp [hl] at h
        rw [if_pos hv]
        exact ⟨_, h.symm, ArrTip.leaf o hv⟩
    | leaf e hev =>
      simp only [newLeafNode] at h
      rw [if_neg (by simp)] at h
      by_cases hk : e.key = o.key
      · rw [if_pos ⟨trivial, hk⟩] at h
        have hp : e.path = o.path := (under_key_eq (hue e (by simp)) (huo o (by simp))).mpr hk
        rw [applyE_single_hit hp]
        by_cases hv : o.value = []
        · simp [hv] at h ⊢
          exact ⟨_, h.symm, ArrTip.empty⟩
        · have hl : o.value.length ≠ 0 := by simpa using hv
          simp [hl] at h
          rw [if_pos hv]
          exact ⟨_, h.symm, ArrTip.leaf o hv⟩
      · rw [if_neg (by simp [hk])] at h
        simp at h
    | stub es h0 h2 hs =>
      simp [newStubNode] at h
  · simp at h

/-- **`updateNode` arranges the updated entries** -/
theorem updateNode_arr (c : Cfg) (W : World) (lower : DB → List KV → SubTree → Nat → St SubTree) (height dB : Nat)
    (hB : BottomOK c W lower height dB) :
    ∀ (rem d : Nat) (pre : Bits) (db : DB) (bins : List (List KV)) (cur : Node) (es ops : List Entry),
      rem ≤ c.sth → pre.length = height + (c.sth - rem) → d = rem + dB →
      ArrTip c.H (W.S db) rem d cur es → WFE d es → WFE d ops →
      (∀ e ∈ es, Under pre e) → (∀ o ∈ ops, Under pre o) →
      (∀ e ∈ es, W.EOK e.key e.value) → (∀ o ∈ ops, W.OOK o.key o.value) →
      W.IOK d es → W.IOK d (applyE es ops) →
      BinsOK rem bins ops →
      ∃ db' t, updateNode c lower height rem db bins cur = (db', .ok (t.nodes, t.depths (c.sth - rem))) ∧
        Arr c.H (W.S db') rem d t (applyE es ops) ∧ W.F pre db db' := by
  intro rem
  induction rem with
  | zero =>
    intro d pre db bins cur es ops hle hpre hrd' hcur he ho hue huo hev hov hie hia hb
    have hrd : 0 ≤ d := Nat.zero_le _
    have hdB : d = dB := by omega
    subst hdB
    have hlen : ∀ o ∈ ops, 0 ≤ o.path.length := fun _ _ => Nat.zero_le _
    have htot := hb.total hlen
    have hbl := hb.length
    unfold updateNode
    simp only
    rw [if_neg (by intro h; simp [List.isEmpty_iff] at h; rw [h] at hbl; simp at hbl)]
    by_cases h0 : binTotal bins = 0
    · rw [if_pos h0]
      have : ops = [] := List.length_eq_zero_iff.mp (by omega)
      subst this
      refine ⟨db, .tip cur, rfl, ?_, W.F_refl _ _⟩
      rw [applyE_nil_ops]
      exact Arr.tip _ _ _ _ hcur
    · rw [if_neg h0]
      cases hs : singleResult c (c.sth - 0) bins cur with
      | some r =>
        obtain ⟨n, rfl, hn⟩ := singleResult_arr c W hcur ho hrd hue huo hb hs
        exact ⟨db, .tip n, rfl, Arr.tip _ _ _ _ hn, W.F_refl _ _⟩
      | none =>
        simp only
        have hne : ops ≠ [] := by intro h; rw [h] at htot; simp at htot; exact h0 htot
        obtain ⟨db', n, h1, h2, h3⟩ := hB pre db bins cur es ops (by simpa using hpre) hcur he ho hue huo hev hov hie hia hb hne
          (by simpa using hs)
        exact ⟨db', .tip n, by simpa [LT.nodes, LT.depths] using h1, Arr.tip _ _ _ _ h2, h3⟩
  | succ rem ih =>
    intro d pre db bins cur es ops hle hpre hrd' hcur he ho hue huo hev hov hie hia hb
    have hrd : rem + 1 ≤ d := by omega
    have hlen : ∀ o ∈ ops, rem + 1 ≤ o.path.length := fun o ho' => by rw [ho.1 o ho']; exact hrd
    have htot := hb.total hlen
    have hbl := hb.length
    obtain ⟨d', rfl⟩ : ∃ d', d = d' + 1 := ⟨d - 1, by omega⟩
    unfold updateNode
    simp only
    rw [if_neg (by intro h; simp [List.isEmpty_iff] at h; rw [h] at hbl; simp at hbl; exact absurd hbl.symm (Nat.ne_of_gt (Nat.two_pow_pos _)))]
    by_cases h0 : binTotal bins = 0
    · rw [if_pos h0]
      have : ops = [] := List.length_eq_zero_iff.mp (by omega)
      subst this
      refine ⟨db, .tip cur, rfl, ?_, W.F_refl _ _⟩
      rw [applyE_nil_ops]
      exact Arr.tip _ _ _ _ hcur
    · rw [if_neg h0]
      cases hs : singleResult c (c.sth - (rem + 1)) bins cur with
      | some r =>
        obtain ⟨n, rfl, hn⟩ := singleResult_arr c W hcur ho hrd hue huo hb hs
        exact ⟨db, .tip n, rfl, Arr.tip _ _ _ _ hn, W.F_refl _ _⟩
      | none =>
        simp only
        -- the two children of the current node and the entries they hold
        have hkids : ∃ ln rn, splitNode c height (c.sth - (rem + 1)) cur = .ok (ln, rn) ∧
            ArrTip c.H (W.S db) rem d' ln (goL es) ∧ ArrTip c.H (W.S db) rem d' rn (goR es) := by
          cases hcur with
          | empty => exact ⟨_, _, rfl, by simpa [goL] using ArrTip.empty, by simpa [goR] using ArrTip.empty⟩
          | leaf e hv =>
            have hpl := he.1 e (by simp)
            have hu := hue e (by simp)
            cases hp : e.path with
            | nil => rw [hp] at hpl; simp at hpl
            | cons b p' =>
              have hbit : (keyBits e.key)[height + (c.sth - (rem + 1))]? = some b := by
                rw [hu, hp, ← hpre]; simp
              have hib := isBitSet_keyBits e.key _ b hbit
              simp only [splitNode, newLeafNode]
              rw [hib]
              cases b with
              | true =>
                refine ⟨_, _, rfl, ?_, ?_⟩
                · simp [goL, stepL_true e p' hp]; exact ArrTip.empty
                · simp [goR, stepR_true e p' hp]
                  exact ArrTip.leaf ⟨p', e.key, e.value⟩ hv
              | false =>
                refine ⟨_, _, rfl, ?_, ?_⟩
                · simp [goL, stepL_false e p' hp]
                  exact ArrTip.leaf ⟨p', e.key, e.value⟩ hv
                · simp [goR, stepR_false e p' hp]; exact ArrTip.empty
          | stub es h0 _ _ => simp at h0
        obtain ⟨ln, rn, hk, hl, hr⟩ := hkids
        rw [hk]
        simp only
        have hsplit : bins.length / 2 = 2 ^ rem := by rw [hbl, Nat.pow_succ]; omega
        rw [if_neg (by rw [hsplit]; exact Nat.ne_of_gt (Nat.two_pow_pos _))]
        obtain ⟨hbL, hbR⟩ := hb.take_drop
        have hpreL : (pre ++ [false]).length = height + (c.sth - rem) := by simp; omega
        have hpreR : (pre ++ [true]).length = height + (c.sth - rem) := by simp; omega
        have hevL : ∀ e ∈ goL es, W.EOK e.key e.value := fun e' he' => by
          obtain ⟨e, hm, _, hk, hv⟩ := mem_goL.mp he'; rw [hk, hv]; exact hev e hm
        have hevR : ∀ e ∈ goR es, W.EOK e.key e.value := fun e' he' => by
          obtain ⟨e, hm, _, hk, hv⟩ := mem_goR.mp he'; rw [hk, hv]; exact hev e hm
        have hovL : ∀ e ∈ goL ops, W.OOK e.key e.value := fun e' he' => by
          obtain ⟨e, hm, _, hk, hv⟩ := mem_goL.mp he'; rw [hk, hv]; exact hov e hm
        have hovR : ∀ e ∈ goR ops, W.OOK e.key e.value := fun e' he' => by
          obtain ⟨e, hm, _, hk, hv⟩ := mem_goR.mp he'; rw [hk, hv]; exact hov e hm
        have hieL := W.IOK_goL d' es he hie
        have hieR := W.IOK_goR d' es he hie
        have hiaL : W.IOK d' (applyE (goL es) (goL ops)) := by
          rw [← goL_applyE]; exact W.IOK_goL d' _ (wfe_applyE he ho) hia
        have hiaR : W.IOK d' (applyE (goR es) (goR ops)) := by
          rw [← goR_applyE]; exact W.IOK_goR d' _ (wfe_applyE he ho) hia
        obtain ⟨db1, tl, e1, a1, f1⟩ := ih d' (pre ++ [false]) db _ ln (goL es) (goL ops) (by omega) hpreL (by omega)
          hl (wfe_goL he) (wfe_goL ho) (under_goL hue) (under_goL huo) hevL hovL hieL hiaL hbL
        have hr' : ArrTip c.H (W.S db1) rem d' rn (goR es) :=
          ArrTip.frame W f1 (diverge_children pre false) (under_goR hue) hr
        obtain ⟨db2, tr, e2, a2, f2⟩ := ih d' (pre ++ [true]) db1 _ rn (goR es) (goR ops) (by omega) hpreR (by omega)
          hr' (wfe_goR he) (wfe_goR ho) (under_goR hue) (under_goR huo) hevR hovR hieR hiaR hbR
        rw [e1]; simp only
        rw [e2]; simp only
        have hdep : c.sth - rem = c.sth - (rem + 1) + 1 := by omega
        refine ⟨db2, .br tl tr, ?_, ?_, ?_⟩
        · simp [LT.nodes, LT.depths, hdep]
        · refine Arr.br rem d' tl tr _ ?_ ?_
          · rw [goL_applyE]
            exact Arr.frame W f2 (diverge_children pre true) (under_applyE (under_goL hue) (under_goL huo)) a1
          · rw [goR_applyE]; exact a2
        · exact W.F_trans _ _ _ _ (W.F_ext _ _ _ _ f1) (W.F_ext _ _ _ _ f2)

end LiskVerif.SMTImpl
