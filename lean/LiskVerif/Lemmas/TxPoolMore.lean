/- C14, gap closing: exact forms of the sender-list `Add` decisions, of `addCore` / `add` on an occupied
slot, of the capacity eviction, and of one promotion round (`reorgAcct`, `reorg`) as a function of the
sender list and the verifier answers.  Used by `Props/C14_More.lean`. -/
import LiskVerif.Lemmas.TxPoolProc

namespace LiskVerif.TxPool

/-! ### sender list `Add`, exact -/

/-- occupied nonce: the fee rule alone decides -/
theorem acct_add_occupied (cfg : Cfg) (a : Acct) (tx old : Tx) (hg : a.get tx.nonce = some old) :
    (tx.fee < old.fee + cfg.minFeeDiff → a.add cfg tx = (a, false, none)) ∧
    (old.fee + cfg.minFeeDiff ≤ tx.fee →
      a.add cfg tx = ({ txs := tx :: a.txs.filter (fun x => x.nonce != tx.nonce), proc := demote a.proc tx.nonce },
                      true, some old)) := by
  unfold Acct.add
  rw [hg]
  simp only
  constructor
  · intro h; rw [if_pos h]
  · intro h; rw [if_neg (by omega)]

/-- free nonce, list below its limit -/
theorem acct_add_free (cfg : Cfg) (a : Acct) (tx : Tx) (hg : a.get tx.nonce = none)
    (hl : a.txs.length + 1 ≤ cfg.maxPerAcct) : a.add cfg tx = ({ a with txs := tx :: a.txs }, true, none) := by
  unfold Acct.add
  rw [hg]
  simp only
  rw [if_neg (by omega)]

/-- free nonce, list at its limit: the decision only reads the *current* nonces of the list -/
theorem acct_add_limit (cfg : Cfg) (a : Acct) (tx : Tx) (hg : a.get tx.nonce = none)
    (hfull : cfg.maxPerAcct < a.txs.length + 1) (hne : a.txs ≠ []) :
    (a.maxNonce < tx.nonce → a.add cfg tx = (a, false, none)) ∧
    (tx.nonce ≤ a.maxNonce → ∃ top, a.get a.maxNonce = some top ∧ top ∈ a.txs ∧ top.nonce = a.maxNonce ∧
      a.add cfg tx = ({ txs := tx :: a.txs.filter (fun x => x.nonce != a.maxNonce),
                        proc := demote a.proc a.maxNonce }, true, some top)) := by
  unfold Acct.add
  rw [hg]
  simp only
  rw [if_pos (by omega)]
  constructor
  · intro h; rw [if_pos h]
  · intro h
    rw [if_neg (by omega)]
    obtain ⟨t, ht, htm⟩ := maxNonce_mem a hne
    obtain ⟨t', ht'⟩ := get_isSome_of_mem ht
    rw [htm] at ht'
    refine ⟨t', ht', (get_some ht').1, (get_some ht').2, ?_⟩
    rcases acct_remove_spec a a.maxNonce with ⟨hn, _⟩ | ⟨t'', hg'', hr⟩
    · rw [ht'] at hn; cases hn
    · rw [ht'] at hg''; cases hg''; rw [hr]

/-! ### `addCore` on an occupied / a free slot -/

theorem not_mem_of_id {p : Pool} {tx : Tx} (hid : ∀ t ∈ p.all, t.id ≠ tx.id) : tx ∉ p.all :=
  fun h => hid tx h rfl

/-- `addCore` when the slot (sender, nonce) of `tx` is held by `old`: `tx` gets in iff it pays the
old fee plus the minimum difference; otherwise `all` is untouched. -/
theorem addCore_occupied {cfg : Cfg} {p1 : Pool} (h1 : C14Inv cfg p1) (tx old : Tx) (pubOk : Bool)
    (hold : old ∈ p1.all) (hs : old.sender = tx.sender) (hn : old.nonce = tx.nonce) :
    (old.fee + cfg.minFeeDiff ≤ tx.fee →
      (addCore cfg p1 tx pubOk).1.all = tx :: p1.all.filter (fun x => x.id != old.id)) ∧
    (tx.fee < old.fee + cfg.minFeeDiff →
      (addCore cfg p1 tx pubOk).1.all = p1.all ∧ (addCore cfg p1 tx pubOk).2 = false) := by
  have hf := acct_facts h1 tx.sender
  unfold addCore
  generalize (findAcct p1.accts tx.sender).getD {} = a at hf
  have holdA : old ∈ a.txs := hf.owns old hold hs
  have hget : a.get tx.nonce = some old := by rw [← hn]; exact get_of_mem hf.nodup holdA
  obtain ⟨hrej, hacc⟩ := acct_add_occupied cfg a tx old hget
  constructor
  · intro hfee; simp only [hacc hfee, if_true]
  · intro hfee; simp only [hrej hfee, Bool.false_eq_true, if_false, and_self]

/-- `addCore` when no pooled transaction holds the slot of `tx` and the sender has fewer than
`maxPerAcct` pooled transactions: `tx` gets in and nothing leaves. -/
theorem addCore_free {cfg : Cfg} {p1 : Pool} (h1 : C14Inv cfg p1) (tx : Tx) (pubOk : Bool)
    (hslot : ∀ x ∈ p1.all, x.sender = tx.sender → x.nonce ≠ tx.nonce)
    (hroom : ∀ a, findAcct p1.accts tx.sender = some a → a.txs.length + 1 ≤ cfg.maxPerAcct)
    (hper : 1 ≤ cfg.maxPerAcct) :
    (addCore cfg p1 tx pubOk).1.all = tx :: p1.all := by
  have hf := acct_facts h1 tx.sender
  unfold addCore
  have hlen : ((findAcct p1.accts tx.sender).getD {}).txs.length + 1 ≤ cfg.maxPerAcct := by
    cases hfa : findAcct p1.accts tx.sender with
    | none => simpa using hper
    | some a => simpa using hroom a hfa
  generalize (findAcct p1.accts tx.sender).getD {} = a at hf hlen
  have hget : a.get tx.nonce = none := by
    cases hg : a.get tx.nonce with
    | none => rfl
    | some x =>
      have := get_some hg
      exact absurd this.2 (hslot x (hf.inAll x this.1) (hf.sender x this.1))
  simp only [acct_add_free cfg a tx hget hlen, if_true]

/-! ### eviction, exact -/

theorem minPrio_le : ∀ (l : List Tx) (m : Nat), minPrio l = some m → ∀ u ∈ l, m ≤ u.prio := by
  intro l
  induction l with
  | nil => intro m _ u hu; cases hu
  | cons a r ih =>
    intro m h u hu
    unfold minPrio at h
    cases hr : minPrio r with
    | none =>
      rw [hr] at h
      have hnil := minPrio_none r hr
      subst hnil
      have hm : a.prio = m := by simpa using h
      rcases List.mem_cons.1 hu with rfl | hu
      · omega
      · cases hu
    | some m' =>
      rw [hr] at h
      simp only [Option.some.injEq] at h
      have ih' := ih m' hr
      by_cases hc : a.prio < m'
      · rw [if_pos hc] at h
        rcases List.mem_cons.1 hu with rfl | hu
        · omega
        · have := ih' u hu; omega
      · rw [if_neg hc] at h
        rcases List.mem_cons.1 hu with rfl | hu
        · omega
        · have := ih' u hu; omega

/-- the popped element is a member with minimal fee priority, chosen by `tie` among the minimal ones -/
theorem pickMin_spec {l : List Tx} {tie : Nat} {t : Tx} (h : pickMin l tie = some t) :
    t ∈ l ∧ (∀ u ∈ l, t.prio ≤ u.prio) ∧ (minCands l)[tie % (minCands l).length]? = some t := by
  refine ⟨pickMin_mem h, ?_, h⟩
  have hm : t ∈ minCands l := List.mem_of_getElem? h
  unfold minCands at hm
  cases hmp : minPrio l with
  | none => rw [hmp] at hm; cases hm
  | some m =>
    rw [hmp] at hm
    have htm : t.prio = m := by simpa using (List.mem_filter.1 hm).2
    intro u hu
    rw [htm]; exact minPrio_le l m hmp u hu

theorem pickMin_none {l : List Tx} {tie : Nat} (h : pickMin l tie = none) : l = [] := by
  apply Classical.byContradiction
  intro hne
  obtain ⟨t, ht⟩ := pickMin_some tie hne
  rw [ht] at h; cases h


/-- the capacity eviction removes exactly one pooled transaction, the one `pickMin` pops -/
theorem evict_spec {cfg : Cfg} {p : Pool} (h : C14Inv cfg p) (hne : p.all ≠ []) (tie : Nat) :
    ∃ t, pickMin (evictCands p) tie = some t ∧ t ∈ p.all ∧ evict p tie = (remove p t.id).1 ∧
      (evict p tie).all = p.all.filter (fun x => x.id != t.id) ∧
      (evict p tie).heap = p.all.filter (fun x => x.id != t.id) := by
  obtain ⟨t, ht⟩ := pickMin_some tie (evictCands_ne_nil h hne)
  obtain ⟨e, he, hte⟩ := evictCands_mem (pickMin_mem ht)
  have htall := h.acctInAll e he t hte
  obtain ⟨a, _, _, hr⟩ := remove_spec h htall
  refine ⟨t, ht, htall, ?_, ?_, ?_⟩
  · unfold evict; rw [ht]
  · unfold evict; rw [ht]; simp only; rw [hr]
  · unfold evict; rw [ht]; simp only; rw [hr]

/-! ### `add`: the admission guards -/

theorem add_admitted {cfg : Cfg} {p : Pool} {tx : Tx} {v : Verdict} (pubOk : Bool) (tie : Nat)
    (hid : ∀ t ∈ p.all, t.id ≠ tx.id) (hent : cfg.minEntrance ≤ tx.prio)
    (hcheap : (isFull cfg p && tooCheap p.heap tx) = false) (hv : v ≠ Verdict.invalid) :
    add cfg p tx v pubOk tie = addCore cfg (if isFull cfg p then evict p tie else p) tx pubOk := by
  unfold add
  have h1 : p.all.any (fun t => t.id == tx.id) = false := by
    rw [List.any_eq_false]; intro x hx; simpa using hid x hx
  have h4 : (v == Verdict.invalid) = false := by
    cases v <;> first | rfl | exact absurd rfl hv
  rw [h1, hcheap, h4]
  simp only [Bool.false_eq_true, if_false]
  rw [if_neg (by omega)]

theorem add_rejected {cfg : Cfg} {p : Pool} {tx : Tx} {v : Verdict} (pubOk : Bool) (tie : Nat)
    (h : (∃ t ∈ p.all, t.id = tx.id) ∨ tx.prio < cfg.minEntrance ∨
      (isFull cfg p && tooCheap p.heap tx) = true ∨ v = Verdict.invalid) :
    add cfg p tx v pubOk tie = (p, false) := by
  unfold add
  by_cases h1 : p.all.any (fun t => t.id == tx.id) = true
  · rw [if_pos h1]
  rw [if_neg h1]
  by_cases h2 : tx.prio < cfg.minEntrance
  · rw [if_pos h2]
  rw [if_neg h2]
  by_cases h3 : (isFull cfg p && tooCheap p.heap tx) = true
  · rw [if_pos h3]
  rw [if_neg h3]
  by_cases h4 : (v == Verdict.invalid) = true
  · rw [if_pos h4]
  exfalso
  rcases h with ⟨t, ht, hti⟩ | h | h | h
  · apply h1; rw [List.any_eq_true]; exact ⟨t, ht, by simpa using hti⟩
  · exact h2 h
  · exact h3 h
  · apply h4; rw [h]; rfl

/-- `add` of a transaction whose slot is held by `old` (guards passed): it gets in iff it pays the fee
increase, or the pool was full and the capacity eviction happened to remove `old` itself. -/
theorem add_occupied_iff {cfg : Cfg} (hmax : 1 ≤ cfg.maxTx) (hper : 1 ≤ cfg.maxPerAcct) {p : Pool}
    (h : C14Inv cfg p) (tx old : Tx) (v : Verdict) (pubOk : Bool) (tie : Nat)
    (hold : old ∈ p.all) (hs : old.sender = tx.sender) (hn : old.nonce = tx.nonce)
    (hid : ∀ t ∈ p.all, t.id ≠ tx.id) (hent : cfg.minEntrance ≤ tx.prio)
    (hcheap : (isFull cfg p && tooCheap p.heap tx) = false) (hv : v ≠ Verdict.invalid) :
    tx ∈ (add cfg p tx v pubOk tie).1.all ↔
      (old.fee + cfg.minFeeDiff ≤ tx.fee ∨
        (isFull cfg p = true ∧ pickMin (evictCands p) tie = some old)) := by
  rw [add_admitted pubOk tie hid hent hcheap hv]
  have hnot : tx ∉ p.all := not_mem_of_id hid
  by_cases hfull : isFull cfg p = true
  · rw [if_pos hfull]
    have hlen : cfg.maxTx ≤ p.all.length := by simpa [isFull] using hfull
    have hne : p.all ≠ [] := by intro h0; rw [h0] at hlen; simp at hlen; omega
    obtain ⟨t, hpick, htall, hev, hevall, _⟩ := evict_spec h hne tie
    have h1 : C14Inv cfg (evict p tie) := evict_inv h tie
    have hnot1 : tx ∉ (evict p tie).all := fun hx => hnot (evict_all_subset p tie tx hx)
    by_cases hto : t = old
    · subst hto
      -- the victim is `old`: the slot is free afterwards
      have hin : tx ∈ (addCore cfg (evict p tie) tx pubOk).1.all := by
        rw [addCore_free h1 tx pubOk ?_ ?_ hper]
        · exact List.mem_cons_self
        · intro x hx hxs hxn
          rw [hevall] at hx
          obtain ⟨hxall, hxid⟩ := List.mem_filter.1 hx
          have : x = t := inv_unique_slot h hxall hold (hxs.trans hs.symm) (hxn.trans hn.symm)
          subst this; simp at hxid
        · intro a1 ha1
          -- the sender list lost `old`
          obtain ⟨a, ha, hta, hr⟩ := remove_spec h hold
          have hai := h.acctOk _ ha
          rw [hev, hr, hs] at ha1
          simp only at ha1
          split at ha1
          · rw [findAcct_delAcct] at ha1; cases ha1
          · rw [findAcct_setAcct] at ha1
            cases ha1
            have : (a.txs.filter (fun x => x.nonce != t.nonce)).length < a.txs.length :=
              length_filter_lt _ _ t hta (by simp)
            have hb : a.txs.length ≤ cfg.maxPerAcct := hai.bound
            simp only
            omega
      exact ⟨fun _ => Or.inr ⟨hfull, hpick⟩, fun _ => hin⟩
    · -- another victim: `old` still holds the slot
      have hold1 : old ∈ (evict p tie).all := by
        rw [hevall]
        refine List.mem_filter.2 ⟨hold, ?_⟩
        have : old.id ≠ t.id := fun hi => hto (inj_of_nodup_map _ _ h.allNodup old hold t htall hi).symm
        simpa using this
      obtain ⟨hacc, hrej⟩ := addCore_occupied h1 tx old pubOk hold1 hs hn
      constructor
      · intro hin
        by_cases hfee : old.fee + cfg.minFeeDiff ≤ tx.fee
        · exact Or.inl hfee
        · rw [(hrej (by omega)).1] at hin; exact absurd hin hnot1
      · rintro (hfee | ⟨_, hp⟩)
        · rw [hacc hfee]; exact List.mem_cons_self
        · rw [hpick] at hp; exact absurd (Option.some.inj hp) hto
  · rw [if_neg hfull]
    obtain ⟨hacc, hrej⟩ := addCore_occupied h tx old pubOk hold hs hn
    constructor
    · intro hin
      by_cases hfee : old.fee + cfg.minFeeDiff ≤ tx.fee
      · exact Or.inl hfee
      · rw [(hrej (by omega)).1] at hin; exact absurd hin hnot
    · rintro (hfee | ⟨hf, _⟩)
      · rw [hacc hfee]; exact List.mem_cons_self
      · exact absurd hf hfull


/-! ### per-sender count on `all` -/

theorem nodup_of_nodup_map {α β : Type} (f : α → β) : ∀ (l : List α), (l.map f).Nodup → l.Nodup := by
  intro l
  induction l with
  | nil => intro _; exact List.nodup_nil
  | cons a r ih =>
    intro h
    rw [List.map_cons, List.nodup_cons] at h
    rw [List.nodup_cons]
    exact ⟨fun hm => h.1 (List.mem_map.2 ⟨a, hm, rfl⟩), ih h.2⟩

/-- the pooled transactions of sender `s` are exactly the entries of its list -/
theorem sender_filter_perm {cfg : Cfg} {p : Pool} (h : C14Inv cfg p) (s : Nat) :
    (p.all.filter (fun t => t.sender == s)).Perm ((findAcct p.accts s).getD {}).txs := by
  have hf := acct_facts h s
  generalize (findAcct p.accts s).getD {} = a at hf
  apply (List.perm_ext_iff_of_nodup ?_ ?_).2
  · intro x
    rw [List.mem_filter]
    constructor
    · rintro ⟨hx, hs⟩; exact hf.owns x hx (by simpa using hs)
    · intro hx; exact ⟨hf.inAll x hx, by simpa using hf.sender x hx⟩
  · exact List.Nodup.sublist List.filter_sublist (nodup_of_nodup_map _ _ h.allNodup)
  · exact nodup_of_nodup_map _ _ hf.nodup

theorem sender_count_le {cfg : Cfg} {p : Pool} (h : C14Inv cfg p) (s : Nat) :
    (p.all.filter (fun t => t.sender == s)).length ≤ cfg.maxPerAcct := by
  rw [(sender_filter_perm h s).length_eq]
  exact (acct_facts h s).bound

/-- `addCore` for a free slot of a sender whose list is at its limit -/
theorem addCore_limit {cfg : Cfg} {p1 : Pool} (h1 : C14Inv cfg p1) (tx : Tx) (pubOk : Bool) (a : Acct)
    (ha : findAcct p1.accts tx.sender = some a)
    (hslot : ∀ x ∈ p1.all, x.sender = tx.sender → x.nonce ≠ tx.nonce)
    (hfull : a.txs.length = cfg.maxPerAcct) :
    ∃ top, top ∈ a.txs ∧ top.nonce = a.maxNonce ∧
      (top.nonce < tx.nonce → (addCore cfg p1 tx pubOk).1.all = p1.all) ∧
      (tx.nonce < top.nonce → (addCore cfg p1 tx pubOk).1.all = tx :: p1.all.filter (fun x => x.id != top.id)) := by
  have hmem := findAcct_some ha
  have hai := h1.acctOk _ hmem
  have hget : a.get tx.nonce = none := by
    cases hg : a.get tx.nonce with
    | none => rfl
    | some x =>
      have := get_some hg
      exact absurd this.2 (hslot x (h1.acctInAll _ hmem x this.1) (hai.sender x this.1))
  obtain ⟨hrej, hacc⟩ := acct_add_limit cfg a tx hget (by omega) hai.nonempty
  obtain ⟨t, ht, htm⟩ := maxNonce_mem a hai.nonempty
  have hgt : a.get a.maxNonce = some t := by rw [← htm]; exact get_of_mem hai.nodup ht
  refine ⟨t, ht, htm, ?_, ?_⟩
  · intro hlt
    unfold addCore
    simp only [ha, Option.getD_some, hrej (by omega), Bool.false_eq_true, if_false]
  · intro hlt
    obtain ⟨top, hgtop, _, _, hr⟩ := hacc (by omega)
    rw [hgt] at hgtop; cases hgtop
    unfold addCore
    simp only [ha, Option.getD_some, hr, if_true]

/-! ### the sender map, lookups of other keys -/

theorem findAcct_delAcct_ne (accts : List (Nat × Acct)) {s s' : Nat} (h : s' ≠ s) :
    findAcct (delAcct accts s) s' = findAcct accts s' := by
  unfold findAcct delAcct
  congr 1
  induction accts with
  | nil => rfl
  | cons e r ih =>
    rw [List.filter_cons]
    by_cases he : e.1 = s
    · have h1 : (e.1 != s) = false := by simp [he]
      have h2 : (e.1 == s') = false := by simp [he]; exact fun hh => h hh.symm
      rw [h1]; simp only [Bool.false_eq_true, if_false]
      rw [List.find?_cons, h2]; exact ih
    · have h1 : (e.1 != s) = true := by simp [he]
      rw [h1]; simp only [if_true]
      rw [List.find?_cons, List.find?_cons, ih]

theorem findAcct_setAcct_ne (accts : List (Nat × Acct)) (a : Acct) {s s' : Nat} (h : s' ≠ s) :
    findAcct (setAcct accts s a) s' = findAcct accts s' := by
  rw [← findAcct_delAcct_ne accts h]
  unfold setAcct findAcct
  rw [List.find?_cons]
  have : ((s, a).1 == s') = false := by simp; exact fun hh => h hh.symm
  rw [this]

/-! ### removing several transactions of one sender -/

/-- the list of sender `s` after the transactions `l` (all in the list) were removed -/
def acctAfter (b : Acct) (l : List Tx) : Option Acct :=
  let txs' := b.txs.filter (fun x => !(l.map (·.nonce)).contains x.nonce)
  if txs'.isEmpty then none
  else some { txs := txs', proc := b.proc.filter (fun n => l.all (fun t => decide (n < t.nonce))) }

theorem filter_not_contains_cons {α : Type} (f : α → Nat) (n : Nat) (ns : List Nat) (l : List α) :
    (l.filter (fun x => f x != n)).filter (fun x => !ns.contains (f x)) =
      l.filter (fun x => !(n :: ns).contains (f x)) := by
  rw [List.filter_filter]
  apply List.filter_congr
  intro x _
  rw [List.contains_cons]
  cases ns.contains (f x) <;> cases hh : (f x == n) <;> simp [bne, hh]

theorem filter_not_contains_nil {α : Type} (f : α → Nat) (l : List α) :
    l.filter (fun x => !([] : List Nat).contains (f x)) = l := by
  rw [List.filter_eq_self]; intro x _; rfl

/-- one `remove` of a transaction of the list of `s` -/
theorem remove_exact {cfg : Cfg} {q : Pool} (h : C14Inv cfg q) {s : Nat} {b : Acct}
    (hb : findAcct q.accts s = some b) {t : Tx} (ht : t ∈ b.txs) :
    (remove q t.id).1.all = q.all.filter (fun x => x.id != t.id) ∧
    findAcct (remove q t.id).1.accts s =
      (if (b.txs.filter (fun x => x.nonce != t.nonce)).isEmpty then none
       else some { txs := b.txs.filter (fun x => x.nonce != t.nonce), proc := demote b.proc t.nonce }) ∧
    ∀ s', s' ≠ s → findAcct (remove q t.id).1.accts s' = findAcct q.accts s' := by
  have hmem := findAcct_some hb
  have hai := h.acctOk _ hmem
  have hts : t.sender = s := hai.sender t ht
  have htall := h.acctInAll _ hmem t ht
  obtain ⟨a, ha, _, hr⟩ := remove_spec h htall
  have hab : a = b := by
    rw [hts] at ha
    have := findAcct_of_mem h.acctsNodup ha
    rw [hb] at this; exact (Option.some.inj this).symm
  subst hab
  rw [hr, hts]
  refine ⟨rfl, ?_, ?_⟩
  · simp only
    split
    · exact findAcct_delAcct _ _
    · exact findAcct_setAcct _ _ _
  · intro s' hs'
    simp only
    split
    · exact findAcct_delAcct_ne _ hs'
    · exact findAcct_setAcct_ne _ _ hs'

theorem foldl_remove_exact {cfg : Cfg} {s : Nat} : ∀ (l : List Tx) (q : Pool) (b : Acct), C14Inv cfg q →
    findAcct q.accts s = some b → (∀ t ∈ l, t ∈ b.txs) → (l.map (·.nonce)).Nodup →
    (l.foldl (fun q t => (remove q t.id).1) q).all = q.all.filter (fun x => !(l.map (·.id)).contains x.id) ∧
    findAcct (l.foldl (fun q t => (remove q t.id).1) q).accts s = acctAfter b l ∧
    ∀ s', s' ≠ s → findAcct (l.foldl (fun q t => (remove q t.id).1) q).accts s' = findAcct q.accts s' := by
  intro l
  induction l with
  | nil =>
    intro q b h hb _ _
    have hne : b.txs ≠ [] := (h.acctOk _ (findAcct_some hb)).nonempty
    refine ⟨?_, ?_, fun _ _ => rfl⟩
    · rw [List.foldl_nil, List.map_nil, filter_not_contains_nil (fun x : Tx => x.id)]
    · have hp : b.proc.filter (fun n => ([] : List Tx).all (fun t => decide (n < t.nonce))) = b.proc := by
        rw [List.filter_eq_self]; intro x _; rfl
      have : b.txs.isEmpty = false := by cases hbt : b.txs with
        | nil => exact absurd hbt hne
        | cons _ _ => rfl
      unfold acctAfter
      simp only [List.foldl_nil, List.map_nil]
      rw [filter_not_contains_nil (fun x : Tx => x.nonce), hp, this, hb]
      rfl
  | cons t r ih =>
    intro q b h hb hsub hnd
    have ht : t ∈ b.txs := hsub t List.mem_cons_self
    obtain ⟨hall1, hacct1, hoth1⟩ := remove_exact h hb ht
    have h1 := remove_inv h t.id
    have hproc : b.proc.Pairwise (· < ·) := (h.acctOk _ (findAcct_some hb)).gapfree.1
    rw [List.map_cons, List.nodup_cons] at hnd
    have hrsub : ∀ x ∈ r, x ∈ b.txs.filter (fun x => x.nonce != t.nonce) := by
      intro x hx
      refine List.mem_filter.2 ⟨hsub x (List.mem_cons_of_mem _ hx), ?_⟩
      have : x.nonce ≠ t.nonce := fun hh => hnd.1 (hh ▸ List.mem_map.2 ⟨x, hx, rfl⟩)
      simpa using this
    rw [List.foldl_cons]
    by_cases hempty : (b.txs.filter (fun x => x.nonce != t.nonce)).isEmpty = true
    · -- the list disappears: nothing is left to remove
      have hnil : b.txs.filter (fun x => x.nonce != t.nonce) = [] := by simpa using hempty
      have hr : r = [] := by
        cases r with
        | nil => rfl
        | cons x _ => have := hrsub x List.mem_cons_self; rw [hnil] at this; cases this
      subst hr
      rw [if_pos hempty] at hacct1
      refine ⟨?_, ?_, hoth1⟩
      · rw [List.foldl_nil, hall1, List.map_cons, List.map_nil,
          ← filter_not_contains_cons (fun x : Tx => x.id) t.id [] q.all, filter_not_contains_nil]
      · rw [List.foldl_nil, hacct1]
        unfold acctAfter
        have : b.txs.filter (fun x => !(List.map (·.nonce) [t]).contains x.nonce) = [] := by
          rw [List.map_cons, List.map_nil, ← filter_not_contains_cons (fun x : Tx => x.nonce) t.nonce [] b.txs,
            filter_not_contains_nil, hnil]
        simp only [this, List.isEmpty_nil, if_true]
    · rw [if_neg hempty] at hacct1
      obtain ⟨hall2, hacct2, hoth2⟩ := ih _ _ h1 hacct1 hrsub hnd.2
      refine ⟨?_, ?_, ?_⟩
      · rw [hall2, hall1, List.map_cons]
        exact filter_not_contains_cons (fun x : Tx => x.id) t.id _ q.all
      · rw [hacct2]
        unfold acctAfter
        simp only [List.map_cons]
        rw [filter_not_contains_cons (fun x : Tx => x.nonce) t.nonce _ b.txs, demote_eq_filter _ _ hproc,
          List.filter_filter]
        have : (List.filter (fun a => (r.all fun t => decide (a < t.nonce)) && decide (a < t.nonce)) b.proc) =
            List.filter (fun n => (t :: r).all fun t => decide (n < t.nonce)) b.proc := by
          apply List.filter_congr; intro x _; rw [List.all_cons, Bool.and_comm]
        rw [this]
      · intro s' hs'; rw [hoth2 s' hs', hoth1 s' hs']


/-! ### list facts for the promotion round -/

theorem sortUniq_eq_self : ∀ (l : List Nat), l.Pairwise (· < ·) → sortUniq l = l := by
  intro l
  induction l with
  | nil => intro _; rfl
  | cons a r ih =>
    intro h
    rw [List.pairwise_cons] at h
    show insertNat a (sortUniq r) = a :: r
    rw [ih h.2]
    cases r with
    | nil => rfl
    | cons b r' =>
      unfold insertNat
      rw [if_pos (h.1 b List.mem_cons_self)]

/-- in a strictly ascending list, the elements of a prefix `take j` (j ≥ i) that lie below every
element of `drop i` are the prefix `take i` -/
theorem take_filter_lt_drop : ∀ (L : List Nat), L.Pairwise (· < ·) → ∀ (i j : Nat), i ≤ j →
    (L.take j).filter (fun n => (L.drop i).all (fun m => decide (n < m))) = L.take i := by
  intro L
  induction L with
  | nil => intro _ i j _; simp
  | cons x L' ih =>
    intro hp i j hij
    rw [List.pairwise_cons] at hp
    cases i with
    | zero =>
      rw [List.take_zero, List.filter_eq_nil_iff]
      intro n hn
      have hn' : n ∈ x :: L' := List.mem_of_mem_take hn
      rw [List.drop_zero, List.all_eq_true]
      intro hall
      have := hall n hn'
      simp at this
    | succ i' =>
      cases j with
      | zero => omega
      | succ j' =>
        rw [List.take_succ_cons, List.take_succ_cons, List.drop_succ_cons, List.filter_cons]
        have hx : ((L'.drop i').all (fun m => decide (x < m))) = true := by
          rw [List.all_eq_true]; intro m hm
          simpa using hp.1 m (List.mem_of_mem_drop hm)
        rw [hx]
        simp only [if_true]
        rw [ih hp.2 i' j' (by omega)]

theorem takeWhile_length_findIdx? {α : Type} (q : α → Bool) : ∀ (l : List α),
    (l.takeWhile (fun x => !q x)).length = (l.findIdx? q).getD l.length := by
  intro l
  induction l with
  | nil => rfl
  | cons a r ih =>
    rw [List.takeWhile_cons, List.findIdx?_cons]
    cases hq : q a with
    | true => simp
    | false =>
      simp only [Bool.not_false, if_true, List.length_cons, Bool.false_eq_true, if_false]
      rw [ih]
      cases r.findIdx? q <;> simp

theorem findIdx?_lt {α : Type} (q : α → Bool) : ∀ (l : List α) (i : Nat), l.findIdx? q = some i → i < l.length := by
  intro l i h
  exact (List.findIdx?_eq_some_iff_findIdx_eq.1 h).1

/-! ### one promotion round, exact -/

/-- the nonces `reorg` asks the verifier about for one sender list: its processable nonces followed
by the promotable run (`combinedTxs` of txpool.go `reorg`) -/
def Acct.asked (a : Acct) : List Nat := a.proc ++ a.promotableNonces

/-- the transactions at those nonces -/
def Acct.askedTxs (a : Acct) : List Tx := a.asked.filterMap a.get

/-- length of the longest prefix of the asked transactions that the verifier does not answer `invalid` -/
def acceptedLen (v : Nat → Verdict) (a : Acct) : Nat :=
  (a.askedTxs.takeWhile (fun t => v t.id != Verdict.invalid)).length

/-- specification of the `reorg` goroutine for one sender list: nothing happens without a promotable
transaction; otherwise the accepted prefix of the asked nonces becomes the processable set and every asked
transaction from the first `invalid` one on leaves the list (an empty list is unregistered). -/
def reorgSpec (v : Nat → Verdict) (a : Acct) : Option Acct :=
  if a.promotableNonces.isEmpty then some a
  else
    let k := acceptedLen v a
    let txs' := a.txs.filter (fun t => !(a.asked.drop k).contains t.nonce)
    if txs'.isEmpty then none else some { txs := txs', proc := a.asked.take k }

theorem processables_map_nonce {cfg : Cfg} {s : Nat} {a : Acct} (h : AcctInv cfg s a) :
    a.processables.map (·.nonce) = a.proc := map_nonce_filterMap_get a a.proc h.procIn

theorem promotable_map_nonce (a : Acct) : a.promotable.map (·.nonce) = a.promotableNonces := by
  obtain ⟨_, _, _, _, hin⟩ := promotableNonces_spec a
  exact map_nonce_filterMap_get a _ hin

theorem askedTxs_eq (a : Acct) : a.askedTxs = a.processables ++ a.promotable := by
  unfold Acct.askedTxs Acct.asked Acct.processables Acct.promotable
  rw [List.filterMap_append]

theorem askedTxs_map_nonce {cfg : Cfg} {s : Nat} {a : Acct} (h : AcctInv cfg s a) :
    a.askedTxs.map (·.nonce) = a.asked := by
  rw [askedTxs_eq, List.map_append, processables_map_nonce h, promotable_map_nonce]; rfl

theorem asked_pairwise {cfg : Cfg} {s : Nat} {a : Acct} (h : AcctInv cfg s a) : a.asked.Pairwise (· < ·) := by
  obtain ⟨first, m, hr, hfirst, _⟩ := promotableNonces_spec a
  unfold Acct.asked
  rw [hr, List.pairwise_append]
  refine ⟨h.gapfree.1, List.pairwise_lt_range' 1, ?_⟩
  intro x hx y hy
  rw [List.mem_range'] at hy
  obtain ⟨i, _, rfl⟩ := hy
  cases hl : a.proc.getLast? with
  | none =>
    have : a.proc = [] := by simpa using hl
    rw [this] at hx; cases hx
  | some hi =>
    have := (le_getLast_of_pairwise a.proc hi h.gapfree.1 hl).2 x hx
    have := hfirst hi hl
    omega

theorem askedTxs_subset {a : Acct} {t : Tx} (h : t ∈ a.askedTxs) : t ∈ a.txs := by
  rw [askedTxs_eq] at h
  rcases List.mem_append.1 h with h | h
  · exact processables_subset h
  · exact promotable_subset h

/-- promoting a prefix of the promotable transactions, in closed form -/
theorem promote_take_eq {cfg : Cfg} {s : Nat} {a : Acct} (h : AcctInv cfg s a) (j : Nat) :
    a.promote (a.promotable.take j) = { txs := a.txs, proc := a.proc ++ a.promotableNonces.take j } := by
  have hp : (a.proc ++ a.promotableNonces.take j).Pairwise (· < ·) :=
    List.Pairwise.sublist (List.Sublist.append (List.Sublist.refl _) (List.take_sublist _ _)) (asked_pairwise h)
  unfold Acct.promote
  split
  · rw [List.map_take, promotable_map_nonce, sortUniq_eq_self _ hp]
  · rename_i hneg
    exfalso
    apply hneg
    rw [List.all_eq_true]
    intro t ht
    have hta := promotable_subset (List.mem_of_mem_take ht)
    rw [get_of_mem h.nodup hta]
    simp

theorem reorgAcct_exact {cfg : Cfg} {p : Pool} (h : C14Inv cfg p) (v : Nat → Verdict) (s : Nat) :
    findAcct (reorgAcct v p s).accts s = (findAcct p.accts s).bind (reorgSpec v) ∧
    ∀ s', s' ≠ s → findAcct (reorgAcct v p s).accts s' = findAcct p.accts s' := by
  unfold reorgAcct
  cases ha : findAcct p.accts s with
  | none => exact ⟨by simp [ha], fun _ _ => rfl⟩
  | some a =>
    simp only [Option.bind_some]
    have hmem := findAcct_some ha
    have hai : AcctInv cfg s a := h.acctOk _ hmem
    have hpm := promotable_map_nonce a
    have hempty : a.promotable.isEmpty = a.promotableNonces.isEmpty := by
      rw [← hpm]; cases a.promotable <;> rfl
    have hlenP : a.promotable.length = a.promotableNonces.length := by rw [← hpm, List.length_map]
    have hlenQ : a.processables.length = a.proc.length := by
      rw [← processables_map_nonce hai, List.length_map]
    have hcomb : a.processables ++ a.promotable = a.askedTxs := (askedTxs_eq a).symm
    have hasked := askedTxs_map_nonce hai
    have hpw := asked_pairwise hai
    by_cases hemp : a.promotable.isEmpty = true
    · rw [if_pos hemp]
      refine ⟨?_, fun _ _ => rfl⟩
      unfold reorgSpec
      rw [← hempty, if_pos hemp]; exact ha
    · rw [if_neg hemp]
      have hk : acceptedLen v a = (firstInvalid v a.askedTxs).getD a.askedTxs.length := by
        unfold acceptedLen firstInvalid
        exact takeWhile_length_findIdx? (fun t => v t.id == Verdict.invalid) a.askedTxs
      have hlenA : a.askedTxs.length = a.asked.length := by rw [← hasked, List.length_map]
      unfold reorgSpec
      rw [← hempty, if_neg hemp, hcomb]
      simp only
      rw [hk]
      cases hfi : firstInvalid v a.askedTxs with
      | none =>
        simp only [Option.getD_none]
        refine ⟨?_, fun s' hs' => findAcct_setAcct_ne _ _ hs'⟩
        rw [findAcct_setAcct, hlenA, List.drop_length, List.take_length]
        have hfull : a.promotable = a.promotable.take a.promotable.length := (List.take_length).symm
        rw [hfull, promote_take_eq hai, hlenP, List.take_length,
          filter_not_contains_nil (fun x : Tx => x.nonce)]
        have : a.txs.isEmpty = false := by cases hbt : a.txs with
          | nil => exact absurd hbt hai.nonempty
          | cons _ _ => rfl
        rw [this]; rfl
      | some i =>
        simp only [Option.getD_some]
        have hilt : i < a.askedTxs.length := findIdx?_lt _ _ i hfi
        -- the list before the removals: processable set `asked.take j` for some `j ≥ i`
        obtain ⟨j, hij, ha1⟩ : ∃ j, i ≤ j ∧
            (if i ≥ a.processables.length + 1 then a.promote (a.promotable.take (i - a.processables.length)) else a)
              = { txs := a.txs, proc := a.asked.take j } := by
          by_cases hc : i ≥ a.processables.length + 1
          · refine ⟨i, Nat.le_refl _, ?_⟩
            rw [if_pos hc, promote_take_eq hai, hlenQ]
            unfold Acct.asked
            rw [List.take_append]
            have : a.proc.take i = a.proc := List.take_of_length_le (by omega)
            rw [this]
          · refine ⟨a.proc.length, by omega, ?_⟩
            rw [if_neg hc]
            unfold Acct.asked
            rw [List.take_left']
            rfl
        rw [ha1]
        have hai1 : AcctInv cfg s { txs := a.txs, proc := a.asked.take j } := by
          rw [← ha1]
          split
          · exact (promote_inv hai _).1
          · exact hai
        have h1 : C14Inv cfg { p with accts := setAcct p.accts s { txs := a.txs, proc := a.asked.take j } } :=
          setProc_inv h ha hai1 rfl
        have hsub : ∀ t ∈ a.askedTxs.drop i, t ∈ a.txs :=
          fun t ht => askedTxs_subset (a := a) (List.mem_of_mem_drop ht)
        have hmapn : (a.askedTxs.drop i).map (·.nonce) = a.asked.drop i := by rw [List.map_drop, hasked]
        have hnd : ((a.askedTxs.drop i).map (·.nonce)).Nodup := by
          rw [hmapn]
          exact (List.Pairwise.sublist (List.drop_sublist _ _) hpw).imp (fun hab => Nat.ne_of_lt hab)
        obtain ⟨_, hacct, hoth⟩ := foldl_remove_exact (a.askedTxs.drop i) _ _ h1 (findAcct_setAcct _ _ _) hsub hnd
        refine ⟨?_, fun s' hs' => (hoth s' hs').trans (findAcct_setAcct_ne _ _ hs')⟩
        rw [hacct]
        unfold acctAfter
        simp only [hmapn]
        have hproc : (a.asked.take j).filter (fun n => (a.askedTxs.drop i).all (fun t => decide (n < t.nonce)))
            = a.asked.take i := by
          rw [← take_filter_lt_drop a.asked hpw i j hij]
          apply List.filter_congr
          intro n _
          rw [← hmapn, List.all_map]; rfl
        rw [hproc]


theorem foldl_reorgAcct_exact {cfg : Cfg} (v : Nat → Verdict) : ∀ (ks : List Nat) (q : Pool), C14Inv cfg q →
    ks.Nodup → ∀ s, findAcct (ks.foldl (reorgAcct v) q).accts s =
      if s ∈ ks then (findAcct q.accts s).bind (reorgSpec v) else findAcct q.accts s := by
  intro ks
  induction ks with
  | nil => intro q _ _ s; simp
  | cons k r ih =>
    intro q h hnd s
    rw [List.nodup_cons] at hnd
    rw [List.foldl_cons, ih _ (reorgAcct_inv h v k) hnd.2 s]
    obtain ⟨hself, hoth⟩ := reorgAcct_exact h v k
    by_cases hsk : s = k
    · subst hsk
      rw [if_neg hnd.1, if_pos List.mem_cons_self, hself]
    · rw [hoth s hsk]
      by_cases hsr : s ∈ r
      · rw [if_pos hsr, if_pos (List.mem_cons_of_mem _ hsr)]
      · rw [if_neg hsr, if_neg (by simp [hsk, hsr])]

/-- one `reorg` tick, exact: every sender list is transformed by `reorgSpec`, independently -/
theorem reorg_exact {cfg : Cfg} {p : Pool} (h : C14Inv cfg p) (v : Nat → Verdict) (s : Nat) :
    findAcct (reorg v p).accts s = (findAcct p.accts s).bind (reorgSpec v) := by
  unfold reorg
  rw [foldl_reorgAcct_exact v _ p h h.acctsNodup s]
  split
  · rfl
  · rename_i hs
    cases hf : findAcct p.accts s with
    | none => rfl
    | some a => exact absurd (List.mem_map.2 ⟨(s, a), findAcct_some hf, rfl⟩) hs

/-! ### membership in a `takeWhile` prefix of an ascending list -/

theorem mem_takeWhile_of_ascending {α : Type} (f : α → Nat) (q : α → Bool) : ∀ (l : List α),
    (l.map f).Pairwise (· < ·) → ∀ x ∈ l, (x ∈ l.takeWhile q ↔ ∀ u ∈ l, f u ≤ f x → q u = true) := by
  intro l
  induction l with
  | nil => intro _ x hx; cases hx
  | cons a r ih =>
    intro hp x hx
    rw [List.map_cons, List.pairwise_cons] at hp
    have hlt : ∀ u ∈ r, f a < f u := fun u hu => hp.1 (f u) (List.mem_map.2 ⟨u, hu, rfl⟩)
    rw [List.takeWhile_cons]
    cases hq : q a with
    | false =>
      simp only [Bool.false_eq_true, if_false, List.not_mem_nil, false_iff]
      intro hall
      have hax : f a ≤ f x := by
        rcases List.mem_cons.1 hx with rfl | hx
        · exact Nat.le_refl _
        · exact Nat.le_of_lt (hlt x hx)
      have := hall a List.mem_cons_self hax
      rw [hq] at this; cases this
    | true =>
      simp only [if_true]
      rcases List.mem_cons.1 hx with rfl | hxr
      · constructor
        · intro _ u hu hux
          rcases List.mem_cons.1 hu with rfl | hu
          · exact hq
          · have := hlt u hu; omega
        · intro _; exact List.mem_cons_self
      · have hne : x ≠ a := by
          intro hxa; have := hlt x hxr; rw [hxa] at this; omega
        rw [List.mem_cons]
        constructor
        · rintro (hxa | hin)
          · exact absurd hxa hne
          · intro u hu hux
            rcases List.mem_cons.1 hu with rfl | hu
            · exact hq
            · exact (ih hp.2 x hxr).1 hin u hu hux
        · intro hall
          right
          exact (ih hp.2 x hxr).2 (fun u hu hux => hall u (List.mem_cons_of_mem _ hu) hux)


theorem isProc_iff_findAcct {cfg : Cfg} {p : Pool} (h : C14Inv cfg p) (t : Tx) :
    isProc p t ↔ ∃ a, findAcct p.accts t.sender = some a ∧ t ∈ a.txs ∧ t.nonce ∈ a.proc := by
  unfold isProc
  constructor
  · rintro ⟨a, ha, h1, h2⟩; exact ⟨a, findAcct_of_mem h.acctsNodup ha, h1, h2⟩
  · rintro ⟨a, ha, h1, h2⟩; exact ⟨a, findAcct_some ha, h1, h2⟩

/-- who is processable after a promotion round: an asked transaction of a list with something to promote is
processable afterwards iff the verifier answered `invalid` for no asked transaction up to and including it -/
theorem reorg_isProc_iff {cfg : Cfg} {p : Pool} (h : C14Inv cfg p) (v : Nat → Verdict) {s : Nat} {a : Acct}
    (ha : findAcct p.accts s = some a) (hprom : a.promotableNonces ≠ []) {t : Tx} (ht : t ∈ a.askedTxs) :
    isProc (reorg v p) t ↔ ∀ u ∈ a.askedTxs, u.nonce ≤ t.nonce → v u.id ≠ Verdict.invalid := by
  have hmem := findAcct_some ha
  have hai : AcctInv cfg s a := h.acctOk _ hmem
  have hta : t ∈ a.txs := askedTxs_subset ht
  have hts : t.sender = s := hai.sender t hta
  have hasked := askedTxs_map_nonce hai
  have hpw := asked_pairwise hai
  have hnemp : a.promotableNonces.isEmpty = false := by
    cases hh : a.promotableNonces with
    | nil => exact absurd hh hprom
    | cons _ _ => rfl
  -- the accepted prefix
  have htw : a.askedTxs.takeWhile (fun t => v t.id != Verdict.invalid) = a.askedTxs.take (acceptedLen v a) :=
    List.prefix_iff_eq_take.1 (List.takeWhile_prefix _)
  have hmemTW : t ∈ a.askedTxs.takeWhile (fun t => v t.id != Verdict.invalid) ↔
      ∀ u ∈ a.askedTxs, u.nonce ≤ t.nonce → v u.id ≠ Verdict.invalid := by
    rw [mem_takeWhile_of_ascending (fun x : Tx => x.nonce) _ a.askedTxs (by rw [hasked]; exact hpw) t ht]
    constructor
    · intro hq u hu hle; simpa using hq u hu hle
    · intro hq u hu hle; simpa using hq u hu hle
  have hnonceTake : t.nonce ∈ a.asked.take (acceptedLen v a) ↔ t ∈ a.askedTxs.take (acceptedLen v a) := by
    rw [← hasked, ← List.map_take]
    constructor
    · intro hm
      obtain ⟨u, hu, hun⟩ := List.mem_map.1 hm
      have hua : u ∈ a.txs := askedTxs_subset (List.mem_of_mem_take hu)
      rw [← inj_of_nodup_map _ _ hai.nodup u hua t hta hun]; exact hu
    · intro hm; exact List.mem_map.2 ⟨t, hm, rfl⟩
  have hdisj : t.nonce ∈ a.asked.take (acceptedLen v a) → t.nonce ∉ a.asked.drop (acceptedLen v a) := by
    intro h1 h2
    have hp := hpw
    rw [← List.take_append_drop (acceptedLen v a) a.asked, List.pairwise_append] at hp
    exact Nat.lt_irrefl _ (hp.2.2 _ h1 _ h2)
  rw [isProc_iff_findAcct (reorg_inv h v) t, hts, reorg_exact h v s, ha, ← hmemTW, htw, ← hnonceTake]
  simp only [Option.bind_some]
  unfold reorgSpec
  rw [hnemp]
  simp only [Bool.false_eq_true, if_false]
  constructor
  · rintro ⟨a', ha', _, h2⟩
    split at ha'
    · cases ha'
    · cases ha'; exact h2
  · intro h1
    have hin : t ∈ a.txs.filter (fun x => !(a.asked.drop (acceptedLen v a)).contains x.nonce) := by
      refine List.mem_filter.2 ⟨hta, ?_⟩
      have := hdisj h1
      simpa using this
    have hne : (a.txs.filter (fun x => !(a.asked.drop (acceptedLen v a)).contains x.nonce)).isEmpty = false := by
      cases hh : a.txs.filter (fun x => !(a.asked.drop (acceptedLen v a)).contains x.nonce) with
      | nil => rw [hh] at hin; cases hin
      | cons _ _ => rfl
    rw [hne]
    exact ⟨_, rfl, hin, h1⟩


/-! ### further facts on `add` -/

theorem addCore_all_subset (cfg : Cfg) (p1 : Pool) (tx : Tx) (pubOk : Bool) :
    ∀ x ∈ (addCore cfg p1 tx pubOk).1.all, x = tx ∨ x ∈ p1.all := by
  intro x hx
  unfold addCore at hx
  simp only at hx
  generalize Acct.add cfg ((findAcct p1.accts tx.sender).getD {}) tx = r at hx
  by_cases hr : r.2.1 = true
  · rw [if_pos hr] at hx
    simp only at hx
    rcases List.mem_cons.1 hx with rfl | hx
    · exact Or.inl rfl
    · right
      cases hr2 : r.2.2 with
      | none => rw [hr2] at hx; exact hx
      | some old => rw [hr2] at hx; exact (List.mem_filter.1 hx).1
  · rw [if_neg hr] at hx
    exact Or.inr hx

/-- the old holder of a slot survives an `add` that does not pay the fee increase, unless the capacity
eviction picked it -/
theorem add_occupied_rejected {cfg : Cfg} (hmax : 1 ≤ cfg.maxTx) (hper : 1 ≤ cfg.maxPerAcct) {p : Pool}
    (h : C14Inv cfg p) (tx old : Tx) (v : Verdict) (pubOk : Bool) (tie : Nat)
    (hold : old ∈ p.all) (hs : old.sender = tx.sender) (hn : old.nonce = tx.nonce) (hne : old.id ≠ tx.id)
    (hfee : tx.fee < old.fee + cfg.minFeeDiff)
    (hvict : ¬ (isFull cfg p = true ∧ pickMin (evictCands p) tie = some old)) :
    tx ∉ (add cfg p tx v pubOk tie).1.all ∧ old ∈ (add cfg p tx v pubOk tie).1.all := by
  have hnot : tx ∉ p.all := fun htx => hne (congrArg Tx.id (inv_unique_slot h hold htx hs hn))
  by_cases hg : (∃ t ∈ p.all, t.id = tx.id) ∨ tx.prio < cfg.minEntrance ∨
      (isFull cfg p && tooCheap p.heap tx) = true ∨ v = Verdict.invalid
  · rw [add_rejected pubOk tie hg]; exact ⟨hnot, hold⟩
  · have hid : ∀ t ∈ p.all, t.id ≠ tx.id := fun t ht hti => hg (Or.inl ⟨t, ht, hti⟩)
    have hent : cfg.minEntrance ≤ tx.prio := by
      apply Classical.byContradiction; intro hh; exact hg (Or.inr (Or.inl (by omega)))
    have hcheap : (isFull cfg p && tooCheap p.heap tx) = false := by
      cases hh : (isFull cfg p && tooCheap p.heap tx) with
      | false => rfl
      | true => exact absurd (Or.inr (Or.inr (Or.inl hh))) hg
    have hv : v ≠ Verdict.invalid := fun hh => hg (Or.inr (Or.inr (Or.inr hh)))
    refine ⟨?_, ?_⟩
    · intro hin
      rcases (add_occupied_iff hmax hper h tx old v pubOk tie hold hs hn hid hent hcheap hv).1 hin with h1 | h1
      · omega
      · exact hvict h1
    · rw [add_admitted pubOk tie hid hent hcheap hv]
      by_cases hfull : isFull cfg p = true
      · rw [if_pos hfull]
        have hlen : cfg.maxTx ≤ p.all.length := by simpa [isFull] using hfull
        have hne0 : p.all ≠ [] := by intro h0; rw [h0] at hlen; simp at hlen; omega
        obtain ⟨t, hpick, htall, _, hevall, _⟩ := evict_spec h hne0 tie
        have hto : t ≠ old := fun hh => hvict ⟨hfull, hh ▸ hpick⟩
        have hold1 : old ∈ (evict p tie).all := by
          rw [hevall]
          refine List.mem_filter.2 ⟨hold, ?_⟩
          have : old.id ≠ t.id := fun hi => hto (inj_of_nodup_map _ _ h.allNodup old hold t htall hi).symm
          simpa using this
        rw [((addCore_occupied (evict_inv h tie) tx old pubOk hold1 hs hn).2 hfee).1]
        exact hold1
      · rw [if_neg hfull, ((addCore_occupied h tx old pubOk hold hs hn).2 hfee).1]
        exact hold

/-- the last processable transaction of a list carries its highest processable nonce -/
theorem processables_getLast {cfg : Cfg} {s : Nat} {a : Acct} (h : AcctInv cfg s a) {t : Tx}
    (hl : a.processables.getLast? = some t) : t ∈ a.txs ∧ t.nonce ∈ a.proc ∧ ∀ n ∈ a.proc, n ≤ t.nonce := by
  have hm := processables_map_nonce h
  have hlast : a.proc.getLast? = some t.nonce := by
    rw [← hm, List.getLast?_map, hl]; rfl
  obtain ⟨h1, h2⟩ := le_getLast_of_pairwise a.proc t.nonce h.gapfree.1 hlast
  exact ⟨processables_subset (List.mem_of_getLast? hl), h1, h2⟩


/-! ### `GetUnprocessables` when the processable nonces are the lowest of the list -/

theorem sortedNonces_lt {cfg : Cfg} {s : Nat} {a : Acct} (h : AcctInv cfg s a) :
    a.sortedNonces.Pairwise (· < ·) := by
  have hle : a.sortedNonces.Pairwise (fun x y => natLe x y = true) := by
    unfold Acct.sortedNonces
    apply isort_pairwise
    · intro x y z h1 h2; simp [natLe] at *; omega
    · intro x y; simp [natLe]; omega
  have hnd : a.sortedNonces.Nodup := by
    unfold Acct.sortedNonces
    exact ((isort_perm natLe _).nodup_iff).2 h.nodup
  exact (hle.and hnd).imp (fun hab => by
    have h1 : natLe _ _ = true := hab.1
    have h2 := hab.2
    simp [natLe] at h1; omega)

theorem sortedNonces_split {cfg : Cfg} {s : Nat} {a : Acct} (h : AcctInv cfg s a)
    (hnormal : ∀ t ∈ a.txs, t.nonce ∉ a.proc → ∀ n ∈ a.proc, n < t.nonce) :
    a.sortedNonces = a.proc ++ a.sortedNonces.filter (fun n => !a.proc.contains n) := by
  have hS := sortedNonces_lt h
  have hR : (a.proc ++ a.sortedNonces.filter (fun n => !a.proc.contains n)).Pairwise (· < ·) := by
    rw [List.pairwise_append]
    refine ⟨h.gapfree.1, List.Pairwise.filter _ hS, ?_⟩
    intro x hx y hy
    obtain ⟨hyS, hyP⟩ := List.mem_filter.1 hy
    obtain ⟨t, ht, htn⟩ := sortedNonces_mem hyS
    have : y ∉ a.proc := by simpa using hyP
    rw [← htn] at this ⊢
    exact hnormal t ht this x hx
  apply List.Perm.eq_of_pairwise (le := (· < ·)) _ hS hR
  · apply (List.perm_ext_iff_of_nodup (hS.imp (fun hab => Nat.ne_of_lt hab)) (hR.imp (fun hab => Nat.ne_of_lt hab))).2
    intro n
    rw [List.mem_append, List.mem_filter]
    constructor
    · intro hn
      by_cases hp : n ∈ a.proc
      · exact Or.inl hp
      · exact Or.inr ⟨hn, by simpa using hp⟩
    · rintro (hp | ⟨hn, _⟩)
      · obtain ⟨t, ht, htn⟩ := h.procIn n hp
        unfold Acct.sortedNonces
        rw [mem_isort]
        exact List.mem_map.2 ⟨t, ht, htn⟩
      · exact hn
  · intro x y _ _ h1 h2; omega

/-- if no list entry lies below a processable nonce, `GetUnprocessables` returns exactly the entries whose
nonce is not processable -/
theorem mem_unprocessables_iff {cfg : Cfg} {s : Nat} {a : Acct} (h : AcctInv cfg s a)
    (hnormal : ∀ t ∈ a.txs, t.nonce ∉ a.proc → ∀ n ∈ a.proc, n < t.nonce) (t : Tx) :
    t ∈ a.unprocessables ↔ t ∈ a.txs ∧ t.nonce ∉ a.proc := by
  unfold Acct.unprocessables
  rw [sortedNonces_split h hnormal, List.drop_left' rfl, List.mem_filterMap]
  constructor
  · rintro ⟨n, hn, hg⟩
    obtain ⟨_, hnP⟩ := List.mem_filter.1 hn
    have := get_some hg
    refine ⟨this.1, ?_⟩
    rw [this.2]; simpa using hnP
  · rintro ⟨hta, hnp⟩
    refine ⟨t.nonce, List.mem_filter.2 ⟨?_, by simpa using hnp⟩, get_of_mem h.nodup hta⟩
    unfold Acct.sortedNonces
    rw [mem_isort]
    exact List.mem_map.2 ⟨t, hta, rfl⟩

/-! ### the promotable run is maximal -/

theorem takeRun_maximal : ∀ (more : List Nat) (first : Nat), (first :: more).Pairwise (· < ·) →
    first + 1 + (takeRun first more).length ∉ more := by
  intro more
  induction more with
  | nil => intro first _ h; cases h
  | cons n r ih =>
    intro first hp
    rw [List.pairwise_cons] at hp
    have hfn : first < n := hp.1 n List.mem_cons_self
    have hnr := List.pairwise_cons.1 hp.2
    unfold takeRun
    by_cases hc : (n == first + 1) = true
    · rw [if_pos hc]
      have hn : n = first + 1 := by simpa using hc
      intro hm
      rcases List.mem_cons.1 hm with h1 | h1
      · simp at h1; omega
      · apply ih n hp.2
        simp only [List.length_cons] at h1
        have : n + 1 + (takeRun n r).length = first + 1 + ((takeRun n r).length + 1) := by omega
        rw [this]; exact h1
    · rw [if_neg hc]
      have hn : n ≠ first + 1 := by simpa using hc
      intro hm
      simp only [List.length_nil, Nat.add_zero] at hm
      rcases List.mem_cons.1 hm with h1 | h1
      · omega
      · have := hnr.1 _ h1; omega

/-- a non-empty promotable run `first … first+m` starts right after the highest processable nonce and is
maximal: the list has no entry at nonce `first+m+1` -/
theorem promotable_maximal {cfg : Cfg} {s : Nat} {a : Acct} (h : AcctInv cfg s a) (hne : a.promotableNonces ≠ []) :
    ∃ first m, a.promotableNonces = List.range' first (m + 1) ∧
      (∀ hi, a.proc.getLast? = some hi → first = hi + 1) ∧ ∀ t ∈ a.txs, t.nonce ≠ first + m + 1 := by
  have hS := sortedNonces_lt h
  have hsplit := List.take_append_drop a.proc.length a.sortedNonces
  unfold Acct.promotableNonces at hne ⊢
  cases hd : a.sortedNonces.drop a.proc.length with
  | nil => rw [hd] at hne; exact absurd rfl hne
  | cons first more =>
    rw [hd] at hne hsplit
    simp only at hne ⊢
    have hfm : (first :: more).Pairwise (· < ·) := by
      rw [← hd]; exact List.Pairwise.sublist (List.drop_sublist _ _) hS
    have hmax : ∀ t ∈ a.txs, t.nonce ≠ first + (takeRun first more).length + 1 := by
      intro t ht hcontra
      have htS : t.nonce ∈ a.sortedNonces := by
        unfold Acct.sortedNonces; rw [mem_isort]; exact List.mem_map.2 ⟨t, ht, rfl⟩
      rw [← hsplit, List.mem_append] at htS
      rw [← hsplit, List.pairwise_append] at hS
      rcases htS with h1 | h1
      · have := hS.2.2 _ h1 first List.mem_cons_self; omega
      · rcases List.mem_cons.1 h1 with h2 | h2
        · omega
        · apply takeRun_maximal more first hfm
          have : first + 1 + (takeRun first more).length = first + (takeRun first more).length + 1 := by omega
          rw [this, ← hcontra]; exact h2
    have hrange : first :: takeRun first more = List.range' first ((takeRun first more).length + 1) := by
      rw [takeRun_range more first, Nat.add_comm]
    cases hl : a.proc.getLast? with
    | none =>
      exact ⟨first, _, hrange, (by intro hi hh; cases hh), hmax⟩
    | some hi =>
      rw [hl] at hne
      simp only at hne ⊢
      by_cases hc : (first != hi + 1) = true
      · rw [if_pos hc] at hne; exact absurd rfl hne
      · rw [if_neg hc]
        have hf : first = hi + 1 := by simpa using hc
        exact ⟨first, _, hrange, (by intro hi' hh; cases hh; exact hf), hmax⟩

/-! ### the fuel of the lock walk is irrelevant once it exceeds the call depth -/

theorem foldl_congr_mem {α β : Type} (f g : β → α → β) : ∀ (l : List α) (w : β),
    (∀ a ∈ l, ∀ w, f w a = g w a) → l.foldl f w = l.foldl g w := by
  intro l
  induction l with
  | nil => intro w _; rfl
  | cons a r ih =>
    intro w h
    rw [List.foldl_cons, List.foldl_cons, h a List.mem_cons_self w]
    exact ih _ (fun b hb => h b (List.mem_cons_of_mem _ hb))

theorem flatMap_congr_mem {α β : Type} (f g : α → List β) : ∀ (l : List α),
    (∀ a ∈ l, f a = g a) → l.flatMap f = l.flatMap g := by
  intro l
  induction l with
  | nil => intro _; rfl
  | cons a r ih =>
    intro h
    rw [List.flatMap_cons, List.flatMap_cons, h a List.mem_cons_self,
      ih (fun b hb => h b (List.mem_cons_of_mem _ hb))]

/-- call depth below each function of the fixed table -/
def fnRank : Fn → Nat
  | .Get | .GetAll | .lGet | .lSize | .lGetProcessables | .lGetUnprocessables | .lPromote | .lGetPromotable
  | .ldemoteAfter | .lmaxNonce | .extern | .rebuildFeePriorityQueue => 0
  | .lremove | .verifyTransactions | .GetProcessable => 1
  | .lAdd | .lRemove | .HandleRPCEndpointGetTransaction => 2
  | .removeLocked => 3
  | .removeM | .evictUnprocessable | .evictProcessable => 4
  | .RemoveTx | .AddTx | .reorgWorker => 5
  | .reorgM | .onTransactionAnnoucement => 6
  | .Start => 7

/-- every callee / spawned function has a smaller rank -/
def rankOk (tab : LockTable) (f : Fn) : Bool :=
  (tab f).all fun a => match a with
    | .call g => decide (fnRank g < fnRank f)
    | .go g => decide (fnRank g < fnRank f)
    | _ => true

theorem fixedTable_rankOk : ∀ f, rankOk fixedTable f = true := by
  intro f; cases f <;> rfl

theorem fnRank_le (f : Fn) : fnRank f ≤ 7 := by cases f <;> decide

theorem acquires_fuel (tab : LockTable) (hr : ∀ f, rankOk tab f = true) : ∀ (n : Nat) (f : Fn),
    fnRank f < n → acquires tab n f = acquires tab (n + 1) f := by
  intro n
  induction n with
  | zero => intro f h; omega
  | succ n ih =>
    intro f hf
    simp only [acquires]
    apply flatMap_congr_mem
    intro a ha
    have hra := List.all_eq_true.1 (hr f) a ha
    cases a with
    | call g => exact ih g (by simp at hra; omega)
    | go g => exact ih g (by simp at hra; omega)
    | _ => rfl

theorem walk_fuel (tab : LockTable) (hr : ∀ f, rankOk tab f = true) : ∀ (n : Nat) (f : Fn),
    fnRank f < n → ∀ w, walk tab n f w = walk tab (n + 1) f w := by
  intro n
  induction n with
  | zero => intro f h; omega
  | succ n ih =>
    intro f hf w
    rw [walk.eq_2 tab f w n, walk.eq_2 tab f w (n + 1)]
    apply foldl_congr_mem
    intro a ha w'
    have hra := List.all_eq_true.1 (hr f) a ha
    cases a with
    | call g => exact ih g (by simp at hra; omega) w'
    | go g =>
      have hg : fnRank g < n := by simp at hra; omega
      simp only
      rw [ih g hg, acquires_fuel tab hr n g hg]
    | _ => rfl

end LiskVerif.TxPool
