/-
The volatile keys, exactly: what `processValidated` and `deleteBlock` do to the finalized-height
marker, temporary blocks, old state diffs and prunable events when finality does not advance —
for the all-keys form of the reorganisation theorem.
-/
import LiskVerif.Lemmas.NodeTrans

namespace LiskVerif.Node
open LiskVerif LiskVerif.DiffDB

theorem applyDb_lookup_all (cd : Codecs) (cfg : Cfg) (db : Store) (fin : Nat) (b : Block) (x : Exec)
    (rt : Bool) (hnd : NoDupKeys x.overlay) (k : Bytes) :
    slookup (applyDb cd cfg db fin b x rt) k =
      match bval (applyOps cd cfg db fin b x rt) k with
      | some v => v
      | none =>
        match stateVal x.overlay k with
        | some v => v
        | none => slookup db k := by
  unfold applyDb
  rw [slookup_applyBatch, commitCache_lookup _ _ _ hnd]
  rfl

/-- the part of the batch of `processValidated` that does not depend on event pruning -/
def applyPre (cd : Codecs) (db : Store) (fin : Nat) (b : Block) (x : Exec) : List BOp :=
  ([BOp.set (kDiff b.hdr.height) (cd.encDiff (diffOf x.overlay))]
    ++ (if decide (fin < x.mhpc) = true then diffPruneOps db x.mhpc else []))
  ++ (blockSetOps b x.events ++ [BOp.set kFin (encU32 (nextFin fin x.mhpc))])

def tempOp (b : Block) (rt : Bool) : List BOp := if rt = true then [BOp.del (kTemp b.hdr.height)] else []

theorem applyOps_split (cd : Codecs) (cfg : Cfg) (db : Store) (fin : Nat) (b : Block) (x : Exec)
    (rt : Bool) :
    applyOps cd cfg db fin b x rt =
      (applyPre cd db fin b x ++ eventPruneOps cfg db b.hdr.height (nextFin fin x.mhpc)) ++ tempOp b rt := by
  unfold applyOps saveBlockOps applyPre tempOp nextFin
  simp only [decide_eq_true_eq, List.append_assoc]

/-- keys scanned by the event pruning of a block at height `h` when the finalized height is `nf` -/
def Pruned (cfg : Cfg) (h nf : Nat) (k : Bytes) : Prop :=
  cfg.keepEvents > -1 ∧ eventPruneBound cfg h nf > 0 ∧
    inRange (kEvents 0) (kEvents (eventPruneBound cfg h nf)) k = true

theorem eventPrune_pruned (cfg : Cfg) (db : Store) (h nf : Nat) :
    ∀ op ∈ eventPruneOps cfg db h nf, Pruned cfg h nf op.key := by
  intro op hop
  unfold eventPruneOps at hop
  split at hop
  · rename_i hk
    simp only at hop
    split at hop
    · rename_i hm
      simp only [List.mem_map] at hop
      obtain ⟨kv, hmem, rfl⟩ := hop
      have := (C12_db_range_mem db _ _ false kv).mp hmem
      exact ⟨hk, hm, by unfold inRange; simp [this.2.1, this.2.2, BOp.key]⟩
    · cases hop
  · cases hop

theorem eventPrune_bval_present (cfg : Cfg) (db : Store) (hnd : NoDupKeys db) (h nf : Nat) (k v : Bytes)
    (hp : Pruned cfg h nf k) (hl : slookup db k = some v) :
    bval (eventPruneOps cfg db h nf) k = some none := by
  obtain ⟨h1, h2, h3⟩ := hp
  unfold eventPruneOps
  simp only [h1, h2, if_true]
  have hmem : (k, v) ∈ dbRange db (kEvents 0) (kEvents (eventPruneBound cfg h nf)) (-1) false := by
    apply (C12_db_range_mem db _ _ false (k, v)).mpr
    unfold inRange at h3
    simp only [Bool.and_eq_true] at h3
    exact ⟨(slookup_iff_mem db hnd k v).mp hl, h3.1, h3.2⟩
  have hmap : (dbRange db (kEvents 0) (kEvents (eventPruneBound cfg h nf)) (-1) false).map
      (fun kv => BOp.del kv.1) =
      ((dbRange db (kEvents 0) (kEvents (eventPruneBound cfg h nf)) (-1) false).map (·.1)).map BOp.del := by
    rw [List.map_map]; rfl
  rw [hmap, bval_dels]
  have : k ∈ (dbRange db (kEvents 0) (kEvents (eventPruneBound cfg h nf)) (-1) false).map (·.1) :=
    List.mem_map.mpr ⟨(k, v), hmem, rfl⟩
  simp [this]

theorem eventPrune_bval_absent (cfg : Cfg) (db : Store) (h nf : Nat) (k : Bytes)
    (hl : slookup db k = none) : bval (eventPruneOps cfg db h nf) k = none := by
  apply bval_none
  intro op hop he
  unfold eventPruneOps at hop
  split at hop
  · simp only at hop
    split at hop
    · simp only [List.mem_map] at hop
      obtain ⟨kv, hmem, rfl⟩ := hop
      have hin := (C12_db_range_mem db _ _ false kv).mp hmem
      simp only [BOp.key] at he
      have hx : ∃ v, slookup db kv.1 = some v := by
        -- a member of the database has a value
        have : ∀ (s : Store) (kv : KV), kv ∈ s → ∃ v, slookup s kv.1 = some v := by
          intro s
          induction s with
          | nil => intro kv h; cases h
          | cons e r ih =>
            intro kv h
            simp only [slookup]
            by_cases hk : e.1 = kv.1
            · exact ⟨e.2, by simp [hk]⟩
            · simp only [hk, if_false]
              simp only [List.mem_cons] at h
              rcases h with h | h
              · exact absurd (by rw [h]) hk
              · exact ih kv h
        exact this db kv hin.1
      obtain ⟨v, hv⟩ := hx
      rw [he, hl] at hv
      cases hv
    · cases hop
  · cases hop

theorem inRange_events_le {m h : Nat} (hm : m < u32) (hh : h < u32)
    (hr : inRange (kEvents 0) (kEvents m) (kEvents h) = true) : h ≤ m := by
  unfold inRange at hr
  simp only [Bool.and_eq_true] at hr
  have := hr.2
  unfold kEvents at this
  rw [ble_cons_same] at this
  exact (ble_encU32 hh hm).mp this

theorem applyPre_keys (cd : Codecs) (db : Store) (fin : Nat) (b : Block) (x : Exec) :
    ∀ op ∈ applyPre cd db fin b x, op.key ∈ allKeys b ∨ op.key = kFin ∨ Vol x.mhpc op.key ∧ op.key.head? = some 51 := by
  intro op hop
  unfold applyPre at hop
  simp only [List.mem_append, List.mem_cons, List.not_mem_nil, or_false] at hop
  rcases hop with (h | h) | (h | h)
  · subst h; left; simp [allKeys, BOp.key]
  · split at h
    · right; right
      have hv := diffPrune_vol db x.mhpc op h
      refine ⟨hv, ?_⟩
      unfold diffPruneOps at h
      simp only [List.mem_map, List.mem_filter] at h
      obtain ⟨kv, ⟨hmem, _⟩, rfl⟩ := h
      exact (hasPrefix_one kv.1 51).mp ((C12_db_iterate_mem db [51] false kv).mp hmem).2
    · cases h
  · left
    exact persistOps_keys cd b x op (List.mem_cons_of_mem _ h)
  · subst h; right; left; rfl

/-- a key in the pruning range of a block holds nothing after the block was applied -/
theorem pruned_none (cd : Codecs) (cfg : Cfg) (db : Store) (fin : Nat) (b : Block) (x : Exec) (rt : Bool)
    (hdb : NoDupKeys db) (hnd : NoDupKeys x.overlay) (hs : ∀ e ∈ x.overlay, e.1.head? = some pState)
    (hb : b.hdr.height < u32) (hnf : nextFin fin x.mhpc < b.hdr.height) (k : Bytes)
    (hp : Pruned cfg b.hdr.height (nextFin fin x.mhpc) k) :
    slookup (applyDb cd cfg db fin b x rt) k = none := by
  have hhead : k.head? = some 9 := inRange_events_head hp.2.2
  have hns : ¬ isStateKey k := by simp [isStateKey, hhead, pState]
  have hbound : eventPruneBound cfg b.hdr.height (nextFin fin x.mhpc) ≤ nextFin fin x.mhpc := by
    unfold eventPruneBound; omega
  rw [applyDb_lookup_all cd cfg db fin b x rt hnd k, applyOps_split]
  have htemp : bval (tempOp b rt) k = none := by
    apply bval_none
    intro op hop he
    unfold tempOp at hop
    split at hop
    · simp only [List.mem_cons, List.not_mem_nil, or_false] at hop
      subst hop
      simp only [BOp.key] at he
      rw [← he] at hhead
      simp [kTemp] at hhead
    · cases hop
  rw [bval_append, htemp]
  simp only
  rw [bval_append]
  cases hl : slookup db k with
  | some v =>
    rw [eventPrune_bval_present cfg db hdb _ _ k v hp hl]
  | none =>
    rw [eventPrune_bval_absent cfg db _ _ k hl]
    simp only
    have hpre : bval (applyPre cd db fin b x) k = none := by
      apply bval_none
      intro op hop he
      rcases applyPre_keys cd db fin b x op hop with h | h | ⟨_, h⟩
      · rw [he] at h
        unfold allKeys at h
        simp only [List.cons_append, List.nil_append, List.mem_cons, List.mem_map] at h
        rcases h with h1 | h1 | h1 | h1 | h1 | h1 | ⟨t, _, h1⟩
        · rw [h1] at hhead; simp [kDiff] at hhead
        · rw [h1] at hhead; simp [kHeader] at hhead
        · rw [h1] at hhead; simp [kHeight] at hhead
        · rw [h1] at hhead; simp [kTxs] at hhead
        · rw [h1] at hhead; simp [kAssets] at hhead
        · have hr := hp.2.2
          rw [h1] at hr
          have := inRange_events_le (by omega) hb hr
          omega
        · rw [← h1] at hhead; simp [kTx] at hhead
      · rw [he] at h; rw [h] at hhead; simp [kFin] at hhead
      · rw [he] at h; rw [h] at hhead; simp at hhead
    rw [hpre, stateVal_none_of_not_state _ hs k hns]

end LiskVerif.Node

namespace LiskVerif.Node
open LiskVerif LiskVerif.DiffDB

theorem removeOps_keys_false (b : Block) :
    ∀ op ∈ BOp.del (kDiff b.hdr.height) :: removeBlockOps b false, op.key ∈ allKeys b := by
  intro op hop
  have hx : Exec := ⟨[], 0, []⟩
  have hcd : Codecs := ⟨fun _ => [], fun _ => none, fun _ => none, fun _ => none, fun _ => none⟩
  rcases removed_keys_persist hcd b hx op.key (List.mem_map_of_mem hop) with h | ⟨_, h⟩
  · obtain ⟨op', hop', hk⟩ := List.mem_map.mp h
    rw [← hk]; exact persistOps_keys hcd b hx op' hop'
  · rw [h]; simp [allKeys]

theorem allKeys_not_vol {b : Block} {f : Nat} (hb : b.hdr.height < u32) (hf : f < b.hdr.height)
    {k : Bytes} (hk : k ∈ allKeys b) : ¬ Vol f k := by
  unfold allKeys at hk
  simp only [List.cons_append, List.nil_append, List.mem_cons, List.mem_map] at hk
  rcases hk with h | h | h | h | h | h | ⟨t, _, h⟩
  · rw [h]; exact kDiff_not_vol hb (by omega)
  · rw [h]; exact kHeader_not_vol f _
  · rw [h]; exact kHeight_not_vol f _
  · rw [h]; exact kTxs_not_vol f _
  · rw [h]; exact kAssets_not_vol f _
  · rw [h]
    intro hv
    rcases hv with h1 | h1 | ⟨h1, _⟩ | ⟨m, hm, h2⟩
    · simp [kEvents, kFin] at h1
    · simp [kEvents] at h1
    · simp [kEvents] at h1
    · have := inRange_events_le (by omega) hb h2
      omega
  · rw [← h]; exact kTx_not_vol f _

/-- `deleteBlock`, key by key, for the tip of a refined state -/
theorem deleteDb_lookup {cd : Codecs} {base : Store} {baseH : Nat} {db : Store} {c : Chain}
    {b : Block} {x : Exec} {fin : Nat} (st : Bool)
    (hR : DbRef cd base baseH db ((b, x) :: c)) (hf : finOf db = some fin) (k : Bytes) :
    slookup (deleteDb db (diffOf x.overlay) b st) k =
      match bval (BOp.del (kDiff b.hdr.height) :: removeBlockOps b st) k with
      | some v => v
      | none => match clookup x.overlay k with
        | some cv => cv.init
        | none => slookup db k := by
  obtain ⟨hstep, _, _⟩ := hR.wf
  have hstate_ov : ∀ k cv, clookup x.overlay k = some cv → isStateKey k :=
    fun k cv h => hstep.stateKeys _ (clookup_some_mem _ k cv h)
  have hrev : slookup (revertDiff db (diffOf x.overlay)) k =
      match clookup x.overlay k with
      | some cv => cv.init
      | none => slookup db k := by
    apply revert_after_commit db x.overlay hR.nodup hstep.ov
    intro k
    cases hc : clookup x.overlay k with
    | none => simp [stateVal, hc]
    | some cv =>
      have hk := hstate_ov k cv hc
      rw [hR.agree fin hf k (fun hv => Vol_not_state hv hk)]
      simp only [spec]
      have : bval (persistOps cd b x) k = none :=
        bval_none _ _ (fun op hop he => allKeys_not_state (he ▸ persistOps_keys cd b x op hop) hk)
      rw [this]
      simp only
      cases stateVal x.overlay k with
      | some v => rfl
      | none => simp only; exact (hstep.initOk k cv hc).symm
  unfold deleteDb
  rw [slookup_applyBatch, hrev]
  rfl

/-- After apply ∘ delete without a finality advance and without temporary copies, every key holds
what it held before — except prunable event keys, which are empty. -/
theorem roundtrip_all_keys {cd : Codecs} {cfg : Cfg} {base : Store} {baseH : Nat} {s s1 s2 : St}
    {c : Chain} {b : Block} {v : Bool} {x : Exec} {r : Res} {f : Nat}
    (hR : Ref cd base baseH s c) (hstep : StepOK cd base c b x)
    (hf : finOf s.db = some f) (hfe : slookup s.db kFin = some (encU32 f)) (hnr : x.mhpc ≤ f)
    (ha : apply cd cfg s b v x false = (s1, .ok)) (hd : deleteTip cd cfg s1 false = (s2, r))
    (hr : r.removed) (hbase : BaseOK cd base baseH) (k : Bytes) :
    slookup s2.db k = slookup s.db k ∨ (slookup s2.db k = none ∧ Pruned cfg b.hdr.height f k) := by
  have hR1 := ref_apply hR hstep ha
  obtain ⟨tip, rest, fin, hc, _, _, _, hf0, hs1⟩ := apply_ok_inv ha
  have hfe0 : fin = f := by rw [hf] at hf0; exact (Option.some.inj hf0).symm
  subst hfe0
  have hnf : nextFin fin x.mhpc = fin := by unfold nextFin; split <;> omega
  have hheight : b.hdr.height = tipH baseH c + 1 := hR1.db.wf.2.1
  obtain ⟨_, _, _, hfle⟩ := hR.db.finOk
  have hflt : fin < b.hdr.height := by
    obtain ⟨f', hf', _, hle'⟩ := hR.db.finOk
    rw [hf] at hf'; have : f' = fin := (Option.some.inj hf').symm
    omega
  have hbl := hstep.block.heightLt
  have hf1 : finOf s1.db = some fin := by
    rw [hs1, finOf_applyDb cd cfg s.db fin b x false (finOf_lt hf)
      (Nat.lt_of_le_of_lt hstep.mhpcLe hbl), hnf]
  obtain ⟨tip1, rest1, fin1, bytes, d, hc1, hf1', hlt1, hl1, hd1, hdb2, _⟩ := deleteTip_done_inv hd hr
  -- identify the deleted block and the diff as in `ref_delete`
  have htip1 : tip1 = b := by
    have h1 : tip1.hdr.height = tipH baseH ((b, x) :: c) := hR1.cache.head tip1 (by rw [hc1]; rfl)
    exact hR1.cache.chain tip1 (by rw [hc1]; exact List.mem_cons_self) (b, x) List.mem_cons_self h1.symm
  subst htip1
  have hdiff : d = diffOf x.overlay := by
    have hnv : ¬ Vol fin (kDiff tip1.hdr.height) := kDiff_not_vol hbl (by omega)
    rw [hR1.db.agree fin hf1 _ hnv, spec_head_persist (bval_persist_diff cd tip1 x)] at hl1
    have : bytes = cd.encDiff (diffOf x.overlay) := (Option.some.inj hl1).symm
    rw [this, hstep.diffRt] at hd1
    exact (Option.some.inj hd1).symm
  subst hdiff
  have hlook2 := deleteDb_lookup (k := k) false hR1.db hf1
  rw [← hdb2] at hlook2
  have hrm : bval (BOp.del (kDiff tip1.hdr.height) :: removeBlockOps tip1 false) k = none ∨
      k ∈ allKeys tip1 := by
    cases hb : bval (BOp.del (kDiff tip1.hdr.height) :: removeBlockOps tip1 false) k with
    | none => exact Or.inl rfl
    | some w =>
      obtain ⟨op, hop, hk, _⟩ := bval_some_mem _ _ _ hb
      exact Or.inr (hk ▸ removeOps_keys_false tip1 op hop)
  by_cases hv : Vol fin k
  · have hns : ¬ isStateKey k := Vol_not_state hv
    have hnk : k ∉ allKeys tip1 := fun hm => allKeys_not_vol hbl hflt hm hv
    have hb0 : bval (BOp.del (kDiff tip1.hdr.height) :: removeBlockOps tip1 false) k = none := by
      rcases hrm with h | h
      · exact h
      · exact absurd h hnk
    have hov : clookup x.overlay k = none := by
      cases hcl : clookup x.overlay k with
      | none => rfl
      | some cv => exact absurd (hstep.stateKeys _ (clookup_some_mem _ k cv hcl)) hns
    have h21 : slookup s2.db k = slookup s1.db k := by rw [hlook2, hb0, hov]
    by_cases hp : Pruned cfg tip1.hdr.height fin k
    · right
      refine ⟨?_, hp⟩
      rw [h21, hs1]
      exact pruned_none cd cfg s.db fin tip1 x false hR.db.nodup hstep.ov.nodup hstep.stateKeys hbl
        (by rw [hnf]; exact hflt) k (by rw [hnf]; exact hp)
    · left
      rw [h21, hs1, applyDb_lookup_all cd cfg s.db fin tip1 x false hstep.ov.nodup k, applyOps_split]
      have htemp : bval (tempOp tip1 false) k = none := by simp [tempOp, bval]
      have hev : bval (eventPruneOps cfg s.db tip1.hdr.height (nextFin fin x.mhpc)) k = none := by
        apply bval_none
        intro op hop he
        have := eventPrune_pruned cfg s.db _ _ op hop
        rw [he, hnf] at this
        exact hp this
      rw [bval_append, htemp]
      simp only
      rw [bval_append, hev]
      simp only
      by_cases hkf : k = kFin
      · subst hkf
        have : bval (applyPre cd s.db fin tip1 x) kFin = some (some (encU32 fin)) := by
          unfold applyPre
          rw [bval_append, bval_append]
          simp [bval, BOp.key, BOp.val, hnf]
        rw [this, hfe]
      · have hpre : bval (applyPre cd s.db fin tip1 x) k = none := by
          apply bval_none
          intro op hop he
          rcases applyPre_keys cd s.db fin tip1 x op hop with h | h | ⟨_, _⟩
          · exact hnk (he ▸ h)
          · exact hkf (he ▸ h)
          · -- the diff pruning list is empty: finality did not advance
            unfold applyPre at hop
            have hnot : ¬ fin < x.mhpc := by omega
            simp only [hnot, decide_false, Bool.false_eq_true, if_false, List.append_nil,
              List.mem_append, List.mem_cons, List.not_mem_nil, or_false] at hop
            rcases hop with h | h | h
            · subst h; exact hnk (he ▸ (by simp [allKeys, BOp.key]))
            · exact hnk (he ▸ persistOps_keys cd tip1 x op (List.mem_cons_of_mem _ h))
            · subst h; exact hkf he.symm
        rw [hpre, stateVal_none_of_not_state _ hstep.stateKeys k hns]
  · left
    obtain ⟨hR2, f2, hf2, _, hid⟩ := by
      exact (show Ref cd base baseH s2 c ∧ ∃ f, finOf s.db = some f ∧ True ∧
          ∀ k, ¬ Vol (max f x.mhpc) k → slookup s2.db k = slookup s.db k from by
        obtain ⟨b', x', c', hc', hR2, hfin2, _, _, _, _⟩ := ref_delete hbase hR1 hd hr
        have hce : c' = c := by simp only [List.cons.injEq] at hc'; exact hc'.2.symm
        subst hce
        refine ⟨hR2, fin, hf, trivial, ?_⟩
        intro k hk
        have hmx : max fin x.mhpc = fin := by omega
        rw [hmx] at hk
        rw [hR2.db.agree fin (by rw [hfin2]; exact hf1) k hk]
        exact (hR.db.agree fin hf k hk).symm)
    have : f2 = fin := by rw [hf] at hf2; exact (Option.some.inj hf2).symm
    subst this
    have hmx : max f2 x.mhpc = f2 := by omega
    exact hid k (by rw [hmx]; exact hv)

end LiskVerif.Node
