/-
Facts about `spec` along a well-formed chain: keys that are present stay, the keys of the blocks
of the chain hold the blocks' data.
-/
import LiskVerif.Lemmas.NodeDelete

namespace LiskVerif.Node
open LiskVerif LiskVerif.DiffDB

/-- a non-state key that is present survives the application of another block -/
theorem spec_present_cons {cd : Codecs} {base : Store} {c : Chain} {b : Block} {x : Exec}
    (hstep : StepOK cd base c b x) {k : Bytes} {v : Bytes} (hst : ¬ isStateKey k)
    (h : spec cd base c k = some v) : spec cd base ((b, x) :: c) k = some v := by
  have hk : k ∉ allKeys b := by
    intro hm
    rw [hstep.fresh k hm] at h
    cases h
  rw [spec_cons_other cd base b x c k hstep.stateKeys hk hst, h]

theorem spec_base_present {cd : Codecs} {base : Store} {baseH : Nat} : ∀ {c : Chain},
    ChainWF cd base baseH c → ∀ {k v : Bytes}, ¬ isStateKey k → slookup base k = some v →
      spec cd base c k = some v := by
  intro c
  induction c with
  | nil => intro _ k v _ h; exact h
  | cons e r ih =>
    obtain ⟨b, x⟩ := e
    intro hwf k v hst h
    exact spec_present_cons hwf.1 hst (ih hwf.2.2 hst h)

/-- where a present non-state key comes from -/
theorem spec_some_origin {cd : Codecs} {base : Store} {baseH : Nat} : ∀ {c : Chain},
    ChainWF cd base baseH c → ∀ {k v : Bytes}, ¬ isStateKey k → spec cd base c k = some v →
      (∃ bx ∈ c, k ∈ allKeys bx.1) ∨ slookup base k = some v := by
  intro c
  induction c with
  | nil => intro _ k v _ h; exact Or.inr h
  | cons e r ih =>
    obtain ⟨b, x⟩ := e
    intro hwf k v hst h
    by_cases hk : k ∈ allKeys b
    · exact Or.inl ⟨(b, x), List.mem_cons_self, hk⟩
    · rw [spec_cons_other cd base b x r k hwf.1.stateKeys hk hst] at h
      rcases ih hwf.2.2 hst h with ⟨bx, hbx, hm⟩ | hb
      · exact Or.inl ⟨bx, List.mem_cons_of_mem _ hbx, hm⟩
      · exact Or.inr hb

/-- what the newest block of the chain stored under one of its keys -/
theorem spec_head_persist {cd : Codecs} {base : Store} {c : Chain} {b : Block} {x : Exec}
    {k : Bytes} {v : Option Bytes} (h : bval (persistOps cd b x) k = some v) :
    spec cd base ((b, x) :: c) k = v := by
  simp only [spec, h]

theorem spec_head_absent {cd : Codecs} {base : Store} {c : Chain} {b : Block} {x : Exec}
    (hstep : StepOK cd base c b x) {k : Bytes} (hk : k ∈ allKeys b)
    (h : bval (persistOps cd b x) k = none) : spec cd base ((b, x) :: c) k = none := by
  simp only [spec, h]
  rw [stateVal_none_of_not_state _ hstep.stateKeys k (allKeys_not_state hk)]
  exact hstep.fresh k hk

/-- distinct blocks of a chain have distinct ids: the header key of an older block is in use -/
theorem kHeader_present_ne {cd : Codecs} {base : Store} {c : Chain} {b : Block} {x : Exec}
    (hstep : StepOK cd base c b x) {id : Bytes} {v : Bytes} (h : spec cd base c (kHeader id) = some v) :
    id ≠ b.hdr.id := by
  intro he
  subst he
  have := hstep.fresh (kHeader b.hdr.id) (by simp [allKeys])
  rw [this] at h
  cases h

theorem kHeader_not_state (id : Bytes) : ¬ isStateKey (kHeader id) := by simp [isStateKey, kHeader, pState]
theorem kHeight_not_state (h : Nat) : ¬ isStateKey (kHeight h) := by simp [isStateKey, kHeight, pState]
theorem kTxs_not_state (id : Bytes) : ¬ isStateKey (kTxs id) := by simp [isStateKey, kTxs, pState]
theorem kTx_not_state (id : Bytes) : ¬ isStateKey (kTx id) := by simp [isStateKey, kTx, pState]
theorem kAssets_not_state (id : Bytes) : ¬ isStateKey (kAssets id) := by simp [isStateKey, kAssets, pState]

theorem not_vol_of_head {f : Nat} {k : Bytes} {p : UInt8} (h : k.head? = some p)
    (h7 : p ≠ 7) (h51 : p ≠ 51) (h9 : p ≠ 9) (h27 : p ≠ 27) : ¬ Vol f k := by
  intro hv
  rcases hv with h1 | h1 | ⟨h1, _⟩ | ⟨m, _, h2⟩
  · subst h1; simp [kFin] at h; exact h27 h.symm
  · rw [h1] at h; exact h7 (Option.some.inj h).symm
  · rw [h1] at h; exact h51 (Option.some.inj h).symm
  · rw [inRange_events_head h2] at h; exact h9 (Option.some.inj h).symm

theorem kHeader_not_vol (f : Nat) (id : Bytes) : ¬ Vol f (kHeader id) :=
  not_vol_of_head (p := 3) (by simp [kHeader]) (by decide) (by decide) (by decide) (by decide)
theorem kHeight_not_vol (f h : Nat) : ¬ Vol f (kHeight h) :=
  not_vol_of_head (p := 4) (by simp [kHeight]) (by decide) (by decide) (by decide) (by decide)
theorem kTxs_not_vol (f : Nat) (id : Bytes) : ¬ Vol f (kTxs id) :=
  not_vol_of_head (p := 5) (by simp [kTxs]) (by decide) (by decide) (by decide) (by decide)
theorem kTx_not_vol (f : Nat) (id : Bytes) : ¬ Vol f (kTx id) :=
  not_vol_of_head (p := 6) (by simp [kTx]) (by decide) (by decide) (by decide) (by decide)
theorem kAssets_not_vol (f : Nat) (id : Bytes) : ¬ Vol f (kAssets id) :=
  not_vol_of_head (p := 8) (by simp [kAssets]) (by decide) (by decide) (by decide) (by decide)

/-! ### the persistent entries of one block -/

theorem bval_consistent (ops : List BOp) (k : Bytes) (w : Option Bytes)
    (hex : ∃ op ∈ ops, op.key = k) (hall : ∀ op ∈ ops, op.key = k → op.val = w) :
    bval ops k = some w := by
  obtain ⟨op, hop, hk⟩ := hex
  cases hb : bval ops k with
  | none => exact absurd (hk ▸ hb) (bval_ne_none ops op hop)
  | some v =>
    obtain ⟨op', hop', hk', hv'⟩ := bval_some_mem ops k v hb
    rw [← hv', hall op' hop' hk']

theorem mem_ite_isEmpty {α β : Type} (l : List α) (L : List β) (op : β) :
    op ∈ (if l.isEmpty = true then [] else L) ↔ l ≠ [] ∧ op ∈ L := by
  cases l <;> simp

theorem mem_persistOps (cd : Codecs) (b : Block) (x : Exec) (op : BOp) :
    op ∈ persistOps cd b x ↔
      op = .set (kDiff b.hdr.height) (cd.encDiff (diffOf x.overlay)) ∨
      op = .set (kHeader b.hdr.id) b.hdrBytes ∨
      op = .set (kHeight b.hdr.height) b.hdr.id ∨
      (b.txs ≠ [] ∧ ((∃ t ∈ b.txs, op = .set (kTx t.1) t.2) ∨
        op = .set (kTxs b.hdr.id) (b.txs.map (·.1)).flatten)) ∨
      (x.events ≠ [] ∧ op = .set (kEvents b.hdr.height) (encList x.events)) ∨
      (b.assets ≠ [] ∧ op = .set (kAssets b.hdr.id) (encList b.assets)) := by
  unfold persistOps blockSetOps
  simp only [List.mem_cons, List.mem_append, mem_ite_isEmpty, List.mem_map, List.not_mem_nil, or_false]
  constructor
  · rintro (h | (((h | h) | ⟨hne, ⟨t, ht, h⟩ | h⟩) | ⟨hne, h⟩) | ⟨hne, h⟩)
    · exact Or.inl h
    · exact Or.inr (Or.inl h)
    · exact Or.inr (Or.inr (Or.inl h))
    · exact Or.inr (Or.inr (Or.inr (Or.inl ⟨hne, Or.inl ⟨t, ht, h.symm⟩⟩)))
    · exact Or.inr (Or.inr (Or.inr (Or.inl ⟨hne, Or.inr h⟩)))
    · exact Or.inr (Or.inr (Or.inr (Or.inr (Or.inl ⟨hne, h⟩))))
    · exact Or.inr (Or.inr (Or.inr (Or.inr (Or.inr ⟨hne, h⟩))))
  · rintro (h | h | h | ⟨hne, ⟨t, ht, h⟩ | h⟩ | ⟨hne, h⟩ | ⟨hne, h⟩)
    · exact Or.inl h
    · exact Or.inr (Or.inl (Or.inl (Or.inl (Or.inl h))))
    · exact Or.inr (Or.inl (Or.inl (Or.inl (Or.inr h))))
    · exact Or.inr (Or.inl (Or.inl (Or.inr ⟨hne, Or.inl ⟨t, ht, h.symm⟩⟩)))
    · exact Or.inr (Or.inl (Or.inl (Or.inr ⟨hne, Or.inr h⟩)))
    · exact Or.inr (Or.inl (Or.inr ⟨hne, h⟩))
    · exact Or.inr (Or.inr ⟨hne, h⟩)

theorem persist_val_some (cd : Codecs) (b : Block) (x : Exec) :
    ∀ op ∈ persistOps cd b x, ∃ v, op.val = some v := by
  intro op hop
  rw [mem_persistOps] at hop
  rcases hop with h | h | h | ⟨_, ⟨t, _, h⟩ | h⟩ | ⟨_, h⟩ | ⟨_, h⟩ <;> (subst h; exact ⟨_, rfl⟩)

theorem bval_persist_header (cd : Codecs) (b : Block) (x : Exec) :
    bval (persistOps cd b x) (kHeader b.hdr.id) = some (some b.hdrBytes) := by
  apply bval_consistent
  · exact ⟨_, (mem_persistOps cd b x _).mpr (Or.inr (Or.inl rfl)), rfl⟩
  · intro op hop hk
    rw [mem_persistOps] at hop
    rcases hop with h | h | h | ⟨_, ⟨t, _, h⟩ | h⟩ | ⟨_, h⟩ | ⟨_, h⟩ <;> subst h <;>
      first | rfl | (simp [BOp.key, kHeader, kDiff, kHeight, kTx, kTxs, kEvents, kAssets] at hk)

theorem bval_persist_height (cd : Codecs) (b : Block) (x : Exec) :
    bval (persistOps cd b x) (kHeight b.hdr.height) = some (some b.hdr.id) := by
  apply bval_consistent
  · exact ⟨_, (mem_persistOps cd b x _).mpr (Or.inr (Or.inr (Or.inl rfl))), rfl⟩
  · intro op hop hk
    rw [mem_persistOps] at hop
    rcases hop with h | h | h | ⟨_, ⟨t, _, h⟩ | h⟩ | ⟨_, h⟩ | ⟨_, h⟩ <;> subst h <;>
      first | rfl | (simp [BOp.key, kHeader, kDiff, kHeight, kTx, kTxs, kEvents, kAssets] at hk)

theorem bval_persist_diff (cd : Codecs) (b : Block) (x : Exec) :
    bval (persistOps cd b x) (kDiff b.hdr.height) = some (some (cd.encDiff (diffOf x.overlay))) := by
  apply bval_consistent
  · exact ⟨_, (mem_persistOps cd b x _).mpr (Or.inl rfl), rfl⟩
  · intro op hop hk
    rw [mem_persistOps] at hop
    rcases hop with h | h | h | ⟨_, ⟨t, _, h⟩ | h⟩ | ⟨_, h⟩ | ⟨_, h⟩ <;> subst h <;>
      first | rfl | (simp [BOp.key, kHeader, kDiff, kHeight, kTx, kTxs, kEvents, kAssets] at hk)

theorem bval_persist_txs (cd : Codecs) (b : Block) (x : Exec) :
    bval (persistOps cd b x) (kTxs b.hdr.id) =
      if b.txs = [] then none else some (some (b.txs.map (·.1)).flatten) := by
  split
  · rename_i ht
    apply bval_none
    intro op hop hk
    rw [mem_persistOps] at hop
    rcases hop with h | h | h | ⟨hne, _⟩ | ⟨_, h⟩ | ⟨_, h⟩
    · subst h; simp [BOp.key, kDiff, kTxs] at hk
    · subst h; simp [BOp.key, kHeader, kTxs] at hk
    · subst h; simp [BOp.key, kHeight, kTxs] at hk
    · exact hne ht
    · subst h; simp [BOp.key, kEvents, kTxs] at hk
    · subst h; simp [BOp.key, kAssets, kTxs] at hk
  · rename_i ht
    apply bval_consistent
    · exact ⟨_, (mem_persistOps cd b x _).mpr (Or.inr (Or.inr (Or.inr (Or.inl ⟨ht, Or.inr rfl⟩)))), rfl⟩
    · intro op hop hk
      rw [mem_persistOps] at hop
      rcases hop with h | h | h | ⟨_, ⟨t, _, h⟩ | h⟩ | ⟨_, h⟩ | ⟨_, h⟩ <;> subst h <;>
        first | rfl | (simp [BOp.key, kHeader, kDiff, kHeight, kTx, kTxs, kEvents, kAssets] at hk)

theorem bval_persist_assets (cd : Codecs) (b : Block) (x : Exec) :
    bval (persistOps cd b x) (kAssets b.hdr.id) =
      if b.assets = [] then none else some (some (encList b.assets)) := by
  split
  · rename_i ht
    apply bval_none
    intro op hop hk
    rw [mem_persistOps] at hop
    rcases hop with h | h | h | ⟨_, ⟨t, _, h⟩ | h⟩ | ⟨_, h⟩ | ⟨hne, _⟩
    · subst h; simp [BOp.key, kDiff, kAssets] at hk
    · subst h; simp [BOp.key, kHeader, kAssets] at hk
    · subst h; simp [BOp.key, kHeight, kAssets] at hk
    · subst h; simp [BOp.key, kTx, kAssets] at hk
    · subst h; simp [BOp.key, kTxs, kAssets] at hk
    · subst h; simp [BOp.key, kEvents, kAssets] at hk
    · exact hne ht
  · rename_i ht
    apply bval_consistent
    · exact ⟨_, (mem_persistOps cd b x _).mpr (Or.inr (Or.inr (Or.inr (Or.inr (Or.inr ⟨ht, rfl⟩))))), rfl⟩
    · intro op hop hk
      rw [mem_persistOps] at hop
      rcases hop with h | h | h | ⟨_, ⟨t, _, h⟩ | h⟩ | ⟨_, h⟩ | ⟨_, h⟩ <;> subst h <;>
        first | rfl | (simp [BOp.key, kHeader, kDiff, kHeight, kTx, kTxs, kEvents, kAssets] at hk)

theorem bval_persist_tx (cd : Codecs) (b : Block) (x : Exec)
    (hcons : ∀ t ∈ b.txs, ∀ t' ∈ b.txs, t.1 = t'.1 → t.2 = t'.2) (t : Bytes × Bytes) (ht : t ∈ b.txs) :
    bval (persistOps cd b x) (kTx t.1) = some (some t.2) := by
  have hne : b.txs ≠ [] := by intro h; rw [h] at ht; cases ht
  apply bval_consistent
  · exact ⟨_, (mem_persistOps cd b x _).mpr (Or.inr (Or.inr (Or.inr (Or.inl ⟨hne, Or.inl ⟨t, ht, rfl⟩⟩)))), rfl⟩
  · intro op hop hk
    rw [mem_persistOps] at hop
    rcases hop with h | h | h | ⟨_, ⟨t', ht', h⟩ | h⟩ | ⟨_, h⟩ | ⟨_, h⟩
    · subst h; simp [BOp.key, kDiff, kTx] at hk
    · subst h; simp [BOp.key, kHeader, kTx] at hk
    · subst h; simp [BOp.key, kHeight, kTx] at hk
    · subst h
      simp only [BOp.key, kTx, List.cons.injEq, true_and] at hk
      simp only [BOp.val]
      rw [hcons t' ht' t ht hk]
    · subst h; simp [BOp.key, kTxs, kTx] at hk
    · subst h; simp [BOp.key, kEvents, kTx] at hk
    · subst h; simp [BOp.key, kAssets, kTx] at hk

end LiskVerif.Node
